#!/usr/bin/env python3
"""Systematic behaviour-preserving rewrite sweep (developer tool, the false-alarm twin of mutation_sweep.py).

Every function of the library is rewritten, one edit at a time, by transformations that cannot change behaviour
(mirrored comparisons, swapped if/else with negated test, `x += e` -> `x = x + e`, consistent renaming of a local,
commuted numeric `+` / `*`, swapped `==` operands, De Morgan, merged nested ifs, inserted `pass`), and all 20 checks
are evaluated in memory on each variant: every one must stay silent.  Anything else is a false alarm of the analyser.

usage: equivalence_sweep.py [--jobs N] [--files substring ...] [--out file.json]
"""
import argparse
import ast
import copy
import importlib
import json
import multiprocessing as mp
import os
import sys

HERE = os.path.dirname(os.path.dirname(os.path.abspath(__file__)))
sys.path.insert(0, HERE)
from opfcheck.core import Repo, dry_run  # noqa: E402

PROPS = [f"C{i:02d}" for i in range(1, 21)]
REPO = "/repo"
MIRROR = {ast.Lt: ast.Gt, ast.Gt: ast.Lt, ast.LtE: ast.GtE, ast.GtE: ast.LtE, ast.Eq: ast.Eq, ast.NotEq: ast.NotEq}


def functions(tree):
    for node in ast.walk(tree):
        if isinstance(node, (ast.FunctionDef, ast.AsyncFunctionDef)):
            yield node


def is_stringy(n):
    return any(isinstance(x, ast.Constant) and isinstance(x.value, str) for x in ast.walk(n)) or \
        any(isinstance(x, ast.Attribute) and x.attr in ("split", "join", "format") for x in ast.walk(n)) or \
        any(isinstance(x, (ast.List, ast.Tuple, ast.JoinedStr)) for x in ast.walk(n))


def variants_of(src: str):
    tree = ast.parse(src)
    nodes = list(ast.walk(tree))
    owner = {}
    for fn in functions(tree):
        for n in ast.walk(fn):
            owner.setdefault(id(n), fn.name)
    for i, node in enumerate(nodes):
        fname = owner.get(id(node))
        if fname is None:
            continue
        line = getattr(node, "lineno", 0)

        def emit(desc, mutate):
            t2 = copy.deepcopy(tree)
            n2 = list(ast.walk(t2))[i]
            if mutate(n2) is False:
                return None
            ast.fix_missing_locations(t2)
            try:
                new = ast.unparse(t2)
                compile(new, "<variant>", "exec")
            except Exception:
                return None
            return (desc, line, fname, new)

        if isinstance(node, ast.Compare) and len(node.ops) == 1 and type(node.ops[0]) in MIRROR:
            def mirror(n):
                n.ops[0] = MIRROR[type(n.ops[0])]()
                n.left, n.comparators[0] = n.comparators[0], n.left
            yield emit(f"mirror comparison: {ast.unparse(node)[:70]}", mirror)
        if isinstance(node, ast.If) and node.orelse and not (len(node.orelse) == 1 and isinstance(node.orelse[0], ast.If)):
            def flip(n):
                n.test = ast.UnaryOp(op=ast.Not(), operand=n.test)
                n.body, n.orelse = n.orelse, n.body
            yield emit(f"swap if/else with negated test: {ast.unparse(node.test)[:60]}", flip)
        if isinstance(node, ast.AugAssign) and isinstance(node.target, ast.Name):
            def unaug(n):
                v = ast.BinOp(left=ast.Name(id=n.target.id, ctx=ast.Load()), op=n.op, right=n.value)
                tgt = n.target
                n.__class__ = ast.Assign
                n.__dict__ = {"targets": [tgt], "value": v, "lineno": n.lineno, "col_offset": n.col_offset}
            yield emit(f"x op= e -> x = x op e: {ast.unparse(node)[:60]}", unaug)
        if isinstance(node, ast.BinOp) and isinstance(node.op, (ast.Add, ast.Mult)) and not is_stringy(node):
            def commute(n):
                n.left, n.right = n.right, n.left
            yield emit(f"commute: {ast.unparse(node)[:60]}", commute)
        if isinstance(node, ast.If) and isinstance(node.test, ast.BoolOp) and isinstance(node.test.op, ast.And):
            def demorgan(n):
                n.test = ast.UnaryOp(op=ast.Not(), operand=ast.BoolOp(
                    op=ast.Or(), values=[ast.UnaryOp(op=ast.Not(), operand=v) for v in n.test.values]))
            yield emit(f"De Morgan: {ast.unparse(node.test)[:60]}", demorgan)
        if isinstance(node, ast.If) and not node.orelse and len(node.body) == 1 and isinstance(node.body[0], ast.If) \
                and not node.body[0].orelse:
            def merge(n):
                inner = n.body[0]
                n.test = ast.BoolOp(op=ast.And(), values=[n.test, inner.test])
                n.body = inner.body
            yield emit(f"merge nested ifs: {ast.unparse(node.test)[:40]} / {ast.unparse(node.body[0].test)[:40]}", merge)
        if isinstance(node, ast.If) and isinstance(node.test, ast.BoolOp) and isinstance(node.test.op, ast.And) \
                and not node.orelse and len(node.test.values) == 2:
            def split(n):
                a, b = n.test.values
                n.body = [ast.If(test=b, body=n.body, orelse=[])]
                n.test = a
            yield emit(f"split `and` into nested ifs: {ast.unparse(node.test)[:60]}", split)
        if isinstance(node, (ast.For, ast.While)) and not node.orelse and isinstance(node.body[-1], ast.If) \
                and not node.body[-1].orelse and not any(isinstance(x, (ast.FunctionDef, ast.Lambda)) for x in ast.walk(node)):
            def guard(n):
                last = n.body[-1]
                n.body = n.body[:-1] + [ast.If(test=ast.UnaryOp(op=ast.Not(), operand=last.test), body=[ast.Continue()], orelse=[])] + last.body
            yield emit(f"trailing `if c: body` -> `if not c: continue; body`: {ast.unparse(node.body[-1].test)[:50]}", guard)
        if isinstance(node, ast.While) and not node.orelse and not (isinstance(node.test, ast.Constant)) \
                and not any(isinstance(x, ast.Continue) for x in ast.walk(node)):
            def loop_true(n):
                n.body = [ast.If(test=ast.UnaryOp(op=ast.Not(), operand=n.test), body=[ast.Break()], orelse=[])] + n.body
                n.test = ast.Constant(True)
            yield emit(f"while c -> while True: if not c: break: {ast.unparse(node.test)[:50]}", loop_true)
        if isinstance(node, ast.Call) and isinstance(node.func, ast.Name) and node.func.id == "range" and len(node.args) == 1 \
                and not node.keywords:
            yield emit(f"range(n) -> range(0, n): {ast.unparse(node)[:50]}", lambda n: n.args.insert(0, ast.Constant(0)))
        if isinstance(node, ast.IfExp):
            def flip_ifexp(n):
                n.test = ast.UnaryOp(op=ast.Not(), operand=n.test)
                n.body, n.orelse = n.orelse, n.body
            yield emit(f"a if c else b -> b if not c else a: {ast.unparse(node)[:50]}", flip_ifexp)
        if isinstance(node, ast.UnaryOp) and isinstance(node.op, ast.USub) and isinstance(node.operand, ast.Attribute):
            def neg_mul(n):
                v = n.operand
                n.__class__ = ast.BinOp
                n.__dict__ = {"left": v, "op": ast.Mult(), "right": ast.UnaryOp(op=ast.USub(), operand=ast.Constant(1)),
                              "lineno": getattr(v, "lineno", 0), "col_offset": getattr(v, "col_offset", 0)}
            yield emit(f"-K -> K * -1: {ast.unparse(node)[:40]}", neg_mul)
        if isinstance(node, (ast.FunctionDef,)):
            # rename each local (assigned Name that is not a parameter / global / attribute) consistently
            params = {a.arg for a in node.args.posonlyargs + node.args.args + node.args.kwonlyargs}
            assigned = []
            for x in ast.walk(node):
                if isinstance(x, ast.Name) and isinstance(x.ctx, ast.Store) and x.id not in params and x.id not in assigned:
                    assigned.append(x.id)
            nested = [x for x in ast.walk(node) if isinstance(x, (ast.FunctionDef, ast.Lambda)) and x is not node]
            if nested:
                continue
            for name in assigned[:6]:
                def rename(n, name=name):
                    for x in ast.walk(n):
                        if isinstance(x, ast.Name) and x.id == name:
                            x.id = name + "_renamed"
                yield emit(f"rename local {name}", rename)
            def add_pass(n):
                k = 1 if (n.body and isinstance(n.body[0], ast.Expr) and isinstance(n.body[0].value, ast.Constant)) else 0
                n.body.insert(k, ast.Pass())
            yield emit("insert pass", add_pass)


COMP = (ast.ListComp, ast.SetComp, ast.DictComp, ast.GeneratorExp)


def _stores(nodes):
    """Names bound by the statements (comprehension variables are scoped to the comprehension and excluded)."""
    out = []

    def visit(n):
        if isinstance(n, COMP):
            return
        if isinstance(n, ast.Name) and isinstance(n.ctx, (ast.Store, ast.Del)):
            out.append(n.id)
        if isinstance(n, ast.ExceptHandler) and n.name:
            out.append(n.name)
        for c in ast.iter_child_nodes(n):
            visit(c)
    for st in nodes:
        visit(st)
    return out


def _loads(nodes):
    out = [n.id for st in nodes for n in ast.walk(st) if isinstance(n, ast.Name) and isinstance(n.ctx, ast.Load)]
    # `x += e` reads x as well
    out += [n.target.id for st in nodes for n in ast.walk(st) if isinstance(n, ast.AugAssign) and isinstance(n.target, ast.Name)]
    return out


def structural_variants_of(src: str):
    """Larger exact refactorings: (a) extract a run of statements into a new private helper (arguments = the locals it
    reads, result = the locals it binds that are used elsewhere), (b) `for ..: if c: BODY` -> `if not c: continue; BODY`."""
    tree = ast.parse(src)
    classes = {id(f): c for c in ast.walk(tree) if isinstance(c, ast.ClassDef) for f in c.body if isinstance(f, ast.FunctionDef)}
    fns = [f for f in functions(tree) if not f.decorator_list and (id(f) in classes or f in tree.body)]
    for fi, fn in enumerate(fns):
        a = fn.args
        params = [x.arg for x in a.posonlyargs + a.args + a.kwonlyargs] + ([a.vararg.arg] if a.vararg else []) + \
                 ([a.kwarg.arg] if a.kwarg else [])
        if any(isinstance(n, (ast.Yield, ast.YieldFrom, ast.Global, ast.Nonlocal)) for n in ast.walk(fn)):
            continue
        if any(isinstance(n, (ast.FunctionDef, ast.Lambda, ast.ClassDef)) and n is not fn for n in ast.walk(fn)):
            continue
        is_method = id(fn) in classes and params[:1] == ["self"]
        if id(fn) in classes and not is_method:
            continue
        lists = []
        for n in ast.walk(fn):
            for fld in ("body", "orelse"):
                sub = getattr(n, fld, None)
                if isinstance(sub, list) and sub and all(isinstance(x, ast.stmt) for x in sub):
                    lists.append((n, fld))
        walk_index = {id(n): k for k, n in enumerate(ast.walk(tree))}
        for holder, fld in lists:
            stmts = getattr(holder, fld)
            # (b) guard clause
            if isinstance(holder, (ast.For, ast.While)) and fld == "body":
                real = [x for x in stmts if not (isinstance(x, ast.Expr) and isinstance(x.value, ast.Constant))]
                if len(real) == 1 and isinstance(real[0], ast.If) and not real[0].orelse:
                    hk = walk_index[id(holder)]

                    def guard(t2, hk=hk):
                        h = list(ast.walk(t2))[hk]
                        k = next(i for i, x in enumerate(h.body) if isinstance(x, ast.If))
                        iff = h.body[k]
                        h.body[k:k + 1] = [ast.If(test=ast.UnaryOp(op=ast.Not(), operand=iff.test), body=[ast.Continue()],
                                                  orelse=[])] + iff.body
                    yield ("guard clause with continue", holder.lineno, fn.name, guard)
            # (a) extract method
            for i in range(len(stmts)):
                for j in range(i + 1, min(len(stmts), i + 4) + 1):
                    block = stmts[i:j]
                    if any(isinstance(x, ast.Expr) and isinstance(x.value, ast.Constant) for x in block):
                        continue
                    bad = False
                    for x in block:
                        for n in ast.walk(x):
                            if isinstance(n, (ast.Return, ast.Break, ast.Continue, ast.Delete, ast.Raise)) or (
                                    isinstance(n, ast.Call) and isinstance(n.func, ast.Name) and n.func.id in ("super", "locals", "vars")):
                                bad = True
                    if bad:
                        continue
                    first, last = block[0].lineno, block[-1].end_lineno
                    inside = {id(n) for x in block for n in ast.walk(x)}
                    outside_stmts = [n for n in ast.walk(fn) if id(n) not in inside]
                    comp_targets = {id(n) for c in ast.walk(fn) if isinstance(c, COMP) for g in c.generators
                                    for n in ast.walk(g.target)}
                    before_stores = set(params) | {n.id for n in outside_stmts if isinstance(n, ast.Name)
                                                   and isinstance(n.ctx, ast.Store) and n.lineno < first
                                                   and id(n) not in comp_targets}
                    after_or_other_stores = {n.id for n in outside_stmts if isinstance(n, ast.Name)
                                             and isinstance(n.ctx, ast.Store) and n.lineno >= first
                                             and id(n) not in comp_targets}
                    w = list(dict.fromkeys(_stores(block)))
                    r = list(dict.fromkeys(x for x in _loads(block)))
                    local_names = before_stores | after_or_other_stores | set(w)
                    comp_bound = {n.id for x in block for c in ast.walk(x) if isinstance(c, COMP)
                                  for g in c.generators for n in ast.walk(g.target) if isinstance(n, ast.Name)}
                    args = [x for x in r if x in before_stores and not (x in comp_bound and x not in before_stores)]
                    # a local read in the block that is bound only later (loop-carried) or only in the block: skip unless
                    # bound in the block itself at top level before use
                    top_bound = set()
                    for x in block:
                        if isinstance(x, ast.Assign):
                            top_bound |= set(_stores(x.targets))
                        elif isinstance(x, ast.AnnAssign) and isinstance(x.target, ast.Name) and x.value is not None:
                            top_bound.add(x.target.id)
                    risky = [x for x in r if x in local_names and x not in before_stores and x not in top_bound
                             and x not in comp_bound]
                    if risky:
                        continue
                    outside_loads = {n.id for n in outside_stmts if isinstance(n, ast.Name) and isinstance(n.ctx, ast.Load)}
                    in_loop = any(isinstance(L, (ast.For, ast.While)) and any(id(n) in inside for n in ast.walk(L))
                                  for L in ast.walk(fn))
                    # inside a loop the block's own reads of the next iteration keep its writes alive
                    live = [x for x in w if x in outside_loads or (in_loop and x in args)]
                    if any(x not in args and x not in top_bound for x in live):
                        continue
                    if not w and not any(isinstance(n, (ast.Call, ast.Subscript, ast.Attribute)) for x in block for n in ast.walk(x)):
                        continue
                    hk = walk_index[id(holder)]
                    cls_k = walk_index[id(classes[id(fn)])] if id(fn) in classes else None
                    fn_k = walk_index[id(fn)]
                    hname = f"_{fn.name.strip('_')}_l{first}_part{i}_{j}"

                    def extract(t2, hk=hk, fld=fld, i=i, j=j, args=tuple(args), live=tuple(live), cls_k=cls_k, fn_k=fn_k,
                                hname=hname, is_method=is_method):
                        nodes = list(ast.walk(t2))
                        h, f2 = nodes[hk], nodes[fn_k]
                        body = getattr(h, fld)
                        block = body[i:j]
                        a2 = [x for x in args if x != "self"]
                        ret = []
                        if live:
                            val = ast.Name(id=live[0], ctx=ast.Load()) if len(live) == 1 else \
                                ast.Tuple(elts=[ast.Name(id=x, ctx=ast.Load()) for x in live], ctx=ast.Load())
                            ret = [ast.Return(value=val)]
                        helper = ast.FunctionDef(
                            name=hname,
                            args=ast.arguments(posonlyargs=[], args=[ast.arg(arg=x) for x in (["self"] if is_method else []) + a2],
                                               kwonlyargs=[], kw_defaults=[], defaults=[]),
                            body=block + ret, decorator_list=[], lineno=1)
                        fnexpr = ast.Attribute(value=ast.Name(id="self", ctx=ast.Load()), attr=hname, ctx=ast.Load()) \
                            if is_method else ast.Name(id=hname, ctx=ast.Load())
                        call = ast.Call(func=fnexpr, args=[ast.Name(id=x, ctx=ast.Load()) for x in a2], keywords=[])
                        if live:
                            tgt = ast.Name(id=live[0], ctx=ast.Store()) if len(live) == 1 else \
                                ast.Tuple(elts=[ast.Name(id=x, ctx=ast.Store()) for x in live], ctx=ast.Store())
                            new = ast.Assign(targets=[tgt], value=call)
                        else:
                            new = ast.Expr(value=call)
                        body[i:j] = [new]
                        owner = nodes[cls_k] if cls_k is not None else t2
                        owner.body.insert(owner.body.index(f2) + 1, helper)
                    yield (f"extract statements {i}..{j - 1} of a block at line {first} into {hname}({', '.join(args)}) -> {live}",
                           first, fn.name, extract)


def structural(job):
    rel, idx = job
    src = open(os.path.join(REPO, rel), encoding="utf-8").read()
    vs = list(structural_variants_of(src))
    desc, line, fname, mutate = vs[idx]
    t2 = ast.parse(src)
    mutate(t2)
    ast.fix_missing_locations(t2)
    try:
        new = ast.unparse(t2)
        compile(new, "<variant>", "exec")
    except Exception as ex:
        return dict(file=rel, function=fname, line=line, rewrite=desc, flagged={}, errors={}, skipped=str(ex))
    r = evaluate((rel, desc, line, fname, new))
    r["source"] = new if (r["flagged"] or r["errors"]) else None
    return r


def compose(job):
    """K random rewrites applied one after the other to one file (each on the result of the previous one)."""
    import random
    rel, k, seed = job
    rnd = random.Random(seed)
    src = open(os.path.join(REPO, rel), encoding="utf-8").read()
    descs = []
    for _ in range(k):
        vs = [v for v in variants_of(src) if v is not None]
        if not vs:
            break
        desc, line, fname, new = rnd.choice(vs)
        descs.append(f"{fname}: {desc}")
        src = new
    r = evaluate((rel, " ; ".join(descs), 0, "*", src))
    r["source"] = src if (r["flagged"] or r["errors"]) else None
    return r


def evaluate(job):
    rel, desc, line, fname, new = job
    repo = Repo(REPO, overrides={rel: new})
    flagged, errors = {}, {}
    for pid in PROPS:
        mod = importlib.import_module(f"opfcheck.props.{pid.lower()}")
        code, viol, err = dry_run(pid, mod.check, repo)
        if code == 1:
            flagged[pid] = [(v.rule, v.detail[:120]) for v in viol][:3]
        elif code == 2:
            errors[pid] = (err or "")[:160]
    return dict(file=rel, function=fname, line=line, rewrite=desc, flagged=flagged, errors=errors)


def main():
    ap = argparse.ArgumentParser()
    ap.add_argument("--jobs", type=int, default=16)
    ap.add_argument("--files", nargs="*", default=[])
    ap.add_argument("--out", default="/tmp/eqsweep.json")
    ap.add_argument("--compose", type=int, default=0, help="apply K random rewrites per sample instead of single edits")
    ap.add_argument("--samples", type=int, default=200)
    ap.add_argument("--seed", type=int, default=1)
    ap.add_argument("--structural", action="store_true", help="extract-method / guard-clause refactorings (sampled)")
    a = ap.parse_args()
    if a.structural:
        import random
        rnd = random.Random(a.seed)
        jobs = []
        for dp, _, fs in os.walk(os.path.join(REPO, "opfython")):
            for f in sorted(fs):
                rel = os.path.relpath(os.path.join(dp, f), REPO)
                if f.endswith(".py") and f != "__init__.py" and (not a.files or any(x in rel for x in a.files)):
                    n = len(list(structural_variants_of(open(os.path.join(REPO, rel), encoding="utf-8").read())))
                    jobs += [(rel, k) for k in range(n)]
        jobs.sort()
        print(f"{len(jobs)} structural candidates", flush=True)
        if a.samples and a.samples < len(jobs):
            jobs = rnd.sample(jobs, a.samples)
        with mp.get_context("fork").Pool(a.jobs) as pool:
            res = pool.map(structural, jobs, chunksize=2)
        bad = [r for r in res if r["flagged"] or r["errors"]]
        skipped = [r for r in res if r.get("skipped")]
        json.dump(dict(total=len(res), false_alarms=bad, skipped=skipped), open(a.out, "w"), indent=1)
        print(f"total {len(res)}  silent {len(res) - len(bad) - len(skipped)}  skipped {len(skipped)}  false alarms {len(bad)}")
        return
    if a.compose:
        import random
        rnd = random.Random(a.seed)
        files = []
        for dp, _, fs in os.walk(os.path.join(REPO, "opfython")):
            for f in sorted(fs):
                rel = os.path.relpath(os.path.join(dp, f), REPO)
                if f.endswith(".py") and f != "__init__.py" and (not a.files or any(x in rel for x in a.files)):
                    files.append(rel)
        files.sort()
        jobs = [(rnd.choice(files), a.compose, rnd.randrange(10 ** 9)) for _ in range(a.samples)]
        print(f"{len(jobs)} composed variants ({a.compose} rewrites each)", flush=True)
        with mp.get_context("fork").Pool(a.jobs) as pool:
            res = pool.map(compose, jobs, chunksize=2)
        bad = [r for r in res if r["flagged"] or r["errors"]]
        json.dump(dict(total=len(res), false_alarms=bad), open(a.out, "w"), indent=1)
        print(f"total {len(res)}  silent {len(res) - len(bad)}  false alarms {len(bad)}")
        return
    jobs = []
    for dp, _, fs in os.walk(os.path.join(REPO, "opfython")):
        for f in sorted(fs):
            if not f.endswith(".py"):
                continue
            full = os.path.join(dp, f)
            rel = os.path.relpath(full, REPO)
            if a.files and not any(x in rel for x in a.files):
                continue
            src = open(full, encoding="utf-8").read()
            for m in variants_of(src):
                if m is not None:
                    jobs.append((rel,) + m)
    print(f"{len(jobs)} variants", flush=True)
    with mp.get_context("fork").Pool(a.jobs) as pool:
        res = pool.map(evaluate, jobs, chunksize=4)
    bad = [r for r in res if r["flagged"] or r["errors"]]
    json.dump(dict(total=len(res), false_alarms=bad), open(a.out, "w"), indent=1)
    print(f"total {len(res)}  silent {len(res) - len(bad)}  false alarms {len(bad)}")


if __name__ == "__main__":
    main()
