#!/usr/bin/env python3
"""Systematic behaviour-preserving rewrite sweep (developer tool, the false-alarm twin of mutation_sweep.py).

Every function of the library is rewritten, one edit at a time, by transformations that cannot change behaviour
(mirrored comparisons, swapped if/else with negated test, `x += e` -> `x = x + e`, consistent renaming of a local,
commuted numeric `+` / `*`, swapped `==` operands, De Morgan, merged nested ifs, inserted `pass`), and all 20 checks
are evaluated in memory on each variant: every one must stay silent.  Anything else is a false alarm of the analyser.

usage: equivalence_sweep.py [--jobs N] [--files substring ...] [--out file.json]
"""
import argparse
import ast
import copy
import importlib
import json
import multiprocessing as mp
import os
import sys

HERE = os.path.dirname(os.path.dirname(os.path.abspath(__file__)))
sys.path.insert(0, HERE)
from opfcheck.core import Repo, dry_run  # noqa: E402

PROPS = [f"C{i:02d}" for i in range(1, 21)]
REPO = "/repo"
MIRROR = {ast.Lt: ast.Gt, ast.Gt: ast.Lt, ast.LtE: ast.GtE, ast.GtE: ast.LtE, ast.Eq: ast.Eq, ast.NotEq: ast.NotEq}


def functions(tree):
    for node in ast.walk(tree):
        if isinstance(node, (ast.FunctionDef, ast.AsyncFunctionDef)):
            yield node


def is_stringy(n):
    return any(isinstance(x, ast.Constant) and isinstance(x.value, str) for x in ast.walk(n)) or \
        any(isinstance(x, ast.Attribute) and x.attr in ("split", "join", "format") for x in ast.walk(n)) or \
        any(isinstance(x, (ast.List, ast.Tuple, ast.JoinedStr)) for x in ast.walk(n))


def variants_of(src: str):
    tree = ast.parse(src)
    nodes = list(ast.walk(tree))
    owner = {}
    for fn in functions(tree):
        for n in ast.walk(fn):
            owner.setdefault(id(n), fn.name)
    for i, node in enumerate(nodes):
        fname = owner.get(id(node))
        if fname is None:
            continue
        line = getattr(node, "lineno", 0)

        def emit(desc, mutate):
            t2 = copy.deepcopy(tree)
            n2 = list(ast.walk(t2))[i]
            if mutate(n2) is False:
                return None
            ast.fix_missing_locations(t2)
            try:
                new = ast.unparse(t2)
                compile(new, "<variant>", "exec")
            except Exception:
                return None
            return (desc, line, fname, new)

        if isinstance(node, ast.Compare) and len(node.ops) == 1 and type(node.ops[0]) in MIRROR:
            def mirror(n):
                n.ops[0] = MIRROR[type(n.ops[0])]()
                n.left, n.comparators[0] = n.comparators[0], n.left
            yield emit(f"mirror comparison: {ast.unparse(node)[:70]}", mirror)
        if isinstance(node, ast.If) and node.orelse and not (len(node.orelse) == 1 and isinstance(node.orelse[0], ast.If)):
            def flip(n):
                n.test = ast.UnaryOp(op=ast.Not(), operand=n.test)
                n.body, n.orelse = n.orelse, n.body
            yield emit(f"swap if/else with negated test: {ast.unparse(node.test)[:60]}", flip)
        if isinstance(node, ast.AugAssign) and isinstance(node.target, ast.Name):
            def unaug(n):
                v = ast.BinOp(left=ast.Name(id=n.target.id, ctx=ast.Load()), op=n.op, right=n.value)
                tgt = n.target
                n.__class__ = ast.Assign
                n.__dict__ = {"targets": [tgt], "value": v, "lineno": n.lineno, "col_offset": n.col_offset}
            yield emit(f"x op= e -> x = x op e: {ast.unparse(node)[:60]}", unaug)
        if isinstance(node, ast.BinOp) and isinstance(node.op, (ast.Add, ast.Mult)) and not is_stringy(node):
            def commute(n):
                n.left, n.right = n.right, n.left
            yield emit(f"commute: {ast.unparse(node)[:60]}", commute)
        if isinstance(node, ast.If) and isinstance(node.test, ast.BoolOp) and isinstance(node.test.op, ast.And):
            def demorgan(n):
                n.test = ast.UnaryOp(op=ast.Not(), operand=ast.BoolOp(
                    op=ast.Or(), values=[ast.UnaryOp(op=ast.Not(), operand=v) for v in n.test.values]))
            yield emit(f"De Morgan: {ast.unparse(node.test)[:60]}", demorgan)
        if isinstance(node, ast.If) and not node.orelse and len(node.body) == 1 and isinstance(node.body[0], ast.If) \
                and not node.body[0].orelse:
            def merge(n):
                inner = n.body[0]
                n.test = ast.BoolOp(op=ast.And(), values=[n.test, inner.test])
                n.body = inner.body
            yield emit(f"merge nested ifs: {ast.unparse(node.test)[:40]} / {ast.unparse(node.body[0].test)[:40]}", merge)
        if isinstance(node, ast.If) and isinstance(node.test, ast.BoolOp) and isinstance(node.test.op, ast.And) \
                and not node.orelse and len(node.test.values) == 2:
            def split(n):
                a, b = n.test.values
                n.body = [ast.If(test=b, body=n.body, orelse=[])]
                n.test = a
            yield emit(f"split `and` into nested ifs: {ast.unparse(node.test)[:60]}", split)
        if isinstance(node, (ast.For, ast.While)) and not node.orelse and isinstance(node.body[-1], ast.If) \
                and not node.body[-1].orelse and not any(isinstance(x, (ast.FunctionDef, ast.Lambda)) for x in ast.walk(node)):
            def guard(n):
                last = n.body[-1]
                n.body = n.body[:-1] + [ast.If(test=ast.UnaryOp(op=ast.Not(), operand=last.test), body=[ast.Continue()], orelse=[])] + last.body
            yield emit(f"trailing `if c: body` -> `if not c: continue; body`: {ast.unparse(node.body[-1].test)[:50]}", guard)
        if isinstance(node, ast.While) and not node.orelse and not (isinstance(node.test, ast.Constant)) \
                and not any(isinstance(x, ast.Continue) for x in ast.walk(node)):
            def loop_true(n):
                n.body = [ast.If(test=ast.UnaryOp(op=ast.Not(), operand=n.test), body=[ast.Break()], orelse=[])] + n.body
                n.test = ast.Constant(True)
            yield emit(f"while c -> while True: if not c: break: {ast.unparse(node.test)[:50]}", loop_true)
        if isinstance(node, ast.Call) and isinstance(node.func, ast.Name) and node.func.id == "range" and len(node.args) == 1 \
                and not node.keywords:
            yield emit(f"range(n) -> range(0, n): {ast.unparse(node)[:50]}", lambda n: n.args.insert(0, ast.Constant(0)))
        if isinstance(node, ast.IfExp):
            def flip_ifexp(n):
                n.test = ast.UnaryOp(op=ast.Not(), operand=n.test)
                n.body, n.orelse = n.orelse, n.body
            yield emit(f"a if c else b -> b if not c else a: {ast.unparse(node)[:50]}", flip_ifexp)
        if isinstance(node, ast.UnaryOp) and isinstance(node.op, ast.USub) and isinstance(node.operand, ast.Attribute):
            def neg_mul(n):
                v = n.operand
                n.__class__ = ast.BinOp
                n.__dict__ = {"left": v, "op": ast.Mult(), "right": ast.UnaryOp(op=ast.USub(), operand=ast.Constant(1)),
                              "lineno": getattr(v, "lineno", 0), "col_offset": getattr(v, "col_offset", 0)}
            yield emit(f"-K -> K * -1: {ast.unparse(node)[:40]}", neg_mul)
        if isinstance(node, (ast.FunctionDef,)):
            # rename each local (assigned Name that is not a parameter / global / attribute) consistently
            params = {a.arg for a in node.args.posonlyargs + node.args.args + node.args.kwonlyargs}
            assigned = []
            for x in ast.walk(node):
                if isinstance(x, ast.Name) and isinstance(x.ctx, ast.Store) and x.id not in params and x.id not in assigned:
                    assigned.append(x.id)
            nested = [x for x in ast.walk(node) if isinstance(x, (ast.FunctionDef, ast.Lambda)) and x is not node]
            if nested:
                continue
            for name in assigned[:6]:
                def rename(n, name=name):
                    for x in ast.walk(n):
                        if isinstance(x, ast.Name) and x.id == name:
                            x.id = name + "_renamed"
                yield emit(f"rename local {name}", rename)
            def add_pass(n):
                k = 1 if (n.body and isinstance(n.body[0], ast.Expr) and isinstance(n.body[0].value, ast.Constant)) else 0
                n.body.insert(k, ast.Pass())
            yield emit("insert pass", add_pass)


def compose(job):
    """K random rewrites applied one after the other to one file (each on the result of the previous one)."""
    import random
    rel, k, seed = job
    rnd = random.Random(seed)
    src = open(os.path.join(REPO, rel), encoding="utf-8").read()
    descs = []
    for _ in range(k):
        vs = [v for v in variants_of(src) if v is not None]
        if not vs:
            break
        desc, line, fname, new = rnd.choice(vs)
        descs.append(f"{fname}: {desc}")
        src = new
    r = evaluate((rel, " ; ".join(descs), 0, "*", src))
    r["source"] = src if (r["flagged"] or r["errors"]) else None
    return r


def evaluate(job):
    rel, desc, line, fname, new = job
    repo = Repo(REPO, overrides={rel: new})
    flagged, errors = {}, {}
    for pid in PROPS:
        mod = importlib.import_module(f"opfcheck.props.{pid.lower()}")
        code, viol, err = dry_run(pid, mod.check, repo)
        if code == 1:
            flagged[pid] = [(v.rule, v.detail[:120]) for v in viol][:3]
        elif code == 2:
            errors[pid] = (err or "")[:160]
    return dict(file=rel, function=fname, line=line, rewrite=desc, flagged=flagged, errors=errors)


def main():
    ap = argparse.ArgumentParser()
    ap.add_argument("--jobs", type=int, default=16)
    ap.add_argument("--files", nargs="*", default=[])
    ap.add_argument("--out", default="/tmp/eqsweep.json")
    ap.add_argument("--compose", type=int, default=0, help="apply K random rewrites per sample instead of single edits")
    ap.add_argument("--samples", type=int, default=200)
    ap.add_argument("--seed", type=int, default=1)
    a = ap.parse_args()
    if a.compose:
        import random
        rnd = random.Random(a.seed)
        files = []
        for dp, _, fs in os.walk(os.path.join(REPO, "opfython")):
            for f in sorted(fs):
                rel = os.path.relpath(os.path.join(dp, f), REPO)
                if f.endswith(".py") and f != "__init__.py" and (not a.files or any(x in rel for x in a.files)):
                    files.append(rel)
        files.sort()
        jobs = [(rnd.choice(files), a.compose, rnd.randrange(10 ** 9)) for _ in range(a.samples)]
        print(f"{len(jobs)} composed variants ({a.compose} rewrites each)", flush=True)
        with mp.get_context("fork").Pool(a.jobs) as pool:
            res = pool.map(compose, jobs, chunksize=2)
        bad = [r for r in res if r["flagged"] or r["errors"]]
        json.dump(dict(total=len(res), false_alarms=bad), open(a.out, "w"), indent=1)
        print(f"total {len(res)}  silent {len(res) - len(bad)}  false alarms {len(bad)}")
        return
    jobs = []
    for dp, _, fs in os.walk(os.path.join(REPO, "opfython")):
        for f in sorted(fs):
            if not f.endswith(".py"):
                continue
            full = os.path.join(dp, f)
            rel = os.path.relpath(full, REPO)
            if a.files and not any(x in rel for x in a.files):
                continue
            src = open(full, encoding="utf-8").read()
            for m in variants_of(src):
                if m is not None:
                    jobs.append((rel,) + m)
    print(f"{len(jobs)} variants", flush=True)
    with mp.get_context("fork").Pool(a.jobs) as pool:
        res = pool.map(evaluate, jobs, chunksize=4)
    bad = [r for r in res if r["flagged"] or r["errors"]]
    json.dump(dict(total=len(res), false_alarms=bad), open(a.out, "w"), indent=1)
    print(f"total {len(res)}  silent {len(res) - len(bad)}  false alarms {len(bad)}")


if __name__ == "__main__":
    main()
