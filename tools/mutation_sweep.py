#!/usr/bin/env python3
"""Systematic single-edit mutation sweep (developer tool, not a registered check).

For every function of the library it generates first-order syntactic mutants (comparison operators, arithmetic
operators, small constants, and/or, negated tests, swapped call arguments, deleted statements), evaluates all 20
checks on each mutant IN MEMORY (nothing is written, nothing is executed) and lists the survivors - mutants no
check reports.  Survivors are either equivalent / irrelevant to the 20 properties, or holes in the rules; they are
triaged by hand (tools/sweep_triage.md).

usage: mutation_sweep.py [--jobs N] [--files glob-substring ...] [--out survivors.json]
"""
import argparse
import ast
import copy
import importlib
import json
import multiprocessing as mp
import os
import sys

HERE = os.path.dirname(os.path.dirname(os.path.abspath(__file__)))
sys.path.insert(0, HERE)
from opfcheck.core import Repo, dry_run  # noqa: E402

PROPS = [f"C{i:02d}" for i in range(1, 21)]
REPO = "/repo"

CMP_ALT = {
    ast.Lt: [ast.LtE, ast.Gt], ast.LtE: [ast.Lt, ast.GtE], ast.Gt: [ast.GtE, ast.Lt], ast.GtE: [ast.Gt, ast.LtE],
    ast.Eq: [ast.NotEq], ast.NotEq: [ast.Eq], ast.Is: [ast.IsNot], ast.IsNot: [ast.Is], ast.In: [ast.NotIn],
    ast.NotIn: [ast.In],
}
BIN_ALT = {ast.Add: [ast.Sub], ast.Sub: [ast.Add], ast.Mult: [ast.Div], ast.Div: [ast.Mult], ast.FloorDiv: [ast.Div]}


ATTR_FAMILIES = [("label", "predicted_label", "cluster_label"), ("pred", "root"), ("cost", "density", "radius"),
                 ("min_density", "max_density"), ("n_nodes", "n_features", "n_clusters"), ("best_k", "max_k", "min_k"),
                 ("status", "relevant"), ("p", "pos"), ("idx_nodes", "nodes")]
NP_SWAP = {"maximum": "minimum", "minimum": "maximum", "max": "min", "min": "max", "amax": "amin", "argmin": "argmax",
           "argmax": "argmin", "sum": "mean", "fabs": "sqrt", "exp": "log", "log": "exp"}
NAME_SWAP = {"p": "q", "q": "p", "i": "j", "j": "i", "k": "l", "l": "k", "x": "y", "y": "x", "X_train": "X_val", "X_val": "X_train",
             "Y_train": "Y_val", "Y_val": "Y_train", "left": "right", "right": "left", "cur_k": "best_k", "label": "pred"}


def functions(tree):
    for node in ast.walk(tree):
        if isinstance(node, (ast.FunctionDef, ast.AsyncFunctionDef)):
            yield node


def mutants_of(src: str):
    """Yield (description, line, function, new source)."""
    tree = ast.parse(src)
    # index nodes by a stable path so that each mutant is produced on a fresh copy
    targets = []
    for fn in functions(tree):
        for node in ast.walk(fn):
            if isinstance(node, (ast.FunctionDef, ast.AsyncFunctionDef)) and node is not fn:
                continue
            targets.append((fn.name, node))
    seen = set()
    nodes = list(ast.walk(tree))
    index = {id(n): i for i, n in enumerate(nodes)}
    for fname, node in targets:
        i = index[id(node)]
        if i in seen:
            continue
        seen.add(i)
        line = getattr(node, "lineno", 0)

        def emit(desc, mutate):
            t2 = copy.deepcopy(tree)
            n2 = list(ast.walk(t2))[i]
            if mutate(n2) is False:
                return None
            ast.fix_missing_locations(t2)
            try:
                new = ast.unparse(t2)
                compile(new, "<mutant>", "exec")
            except Exception:
                return None
            return (desc, line, fname, new)

        if isinstance(node, ast.Compare) and len(node.ops) == 1:
            for alt in CMP_ALT.get(type(node.ops[0]), []):
                yield emit(f"compare {type(node.ops[0]).__name__}->{alt.__name__}: {ast.unparse(node)[:70]}",
                           lambda n, alt=alt: n.ops.__setitem__(0, alt()))
        if isinstance(node, ast.BinOp) and type(node.op) in BIN_ALT:
            for alt in BIN_ALT[type(node.op)]:
                yield emit(f"binop {type(node.op).__name__}->{alt.__name__}: {ast.unparse(node)[:70]}",
                           lambda n, alt=alt: setattr(n, "op", alt()))
        if isinstance(node, ast.BoolOp):
            alt = ast.Or if isinstance(node.op, ast.And) else ast.And
            yield emit(f"boolop ->{alt.__name__}: {ast.unparse(node)[:70]}", lambda n, alt=alt: setattr(n, "op", alt()))
        if isinstance(node, ast.Constant) and isinstance(node.value, (int, float)) and not isinstance(node.value, bool):
            v = node.value
            for nv in ({v + 1, v - 1} if isinstance(v, int) else {v + 1.0, v * 0.5 if v else 1.0}):
                yield emit(f"const {v!r}->{nv!r} (line {line})", lambda n, nv=nv: setattr(n, "value", nv))
        if isinstance(node, (ast.If, ast.While)) and not (isinstance(node.test, ast.Constant)):
            yield emit(f"negate test: {ast.unparse(node.test)[:70]}",
                       lambda n: setattr(n, "test", ast.UnaryOp(op=ast.Not(), operand=n.test)))
        if isinstance(node, ast.Call) and len(node.args) == 2 and not node.keywords \
                and ast.unparse(node.args[0]) != ast.unparse(node.args[1]):
            yield emit(f"swap args: {ast.unparse(node)[:70]}", lambda n: n.args.reverse())
        if isinstance(node, (ast.Assign, ast.AugAssign, ast.Expr)) and not (
                isinstance(node, ast.Expr) and isinstance(node.value, ast.Constant)):
            if isinstance(node, ast.Expr) and isinstance(node.value, ast.Call) and \
                    ast.unparse(node.value.func).startswith("logger."):
                continue

            def drop(n):
                # replace the statement by `pass` (keeps blocks non-empty)
                n.__class__ = ast.Pass
                for f in list(n.__dict__):
                    if f not in ("lineno", "col_offset", "end_lineno", "end_col_offset"):
                        delattr(n, f)
            yield emit(f"delete statement: {ast.unparse(node)[:70]}", drop)
        if isinstance(node, ast.Constant) and isinstance(node.value, bool):
            yield emit(f"bool {node.value}->{not node.value} (line {line})", lambda n: setattr(n, "value", not n.value))
        if isinstance(node, ast.Attribute) and not isinstance(node.value, ast.Name) or (
                isinstance(node, ast.Attribute) and isinstance(node.value, ast.Name) and node.value.id not in ("np", "c", "e", "d", "g", "r", "logger", "self", "loader", "math", "time", "copy", "pickle", "struct", "j")):
            for fam in ATTR_FAMILIES:
                if node.attr in fam:
                    for other in fam:
                        if other != node.attr:
                            yield emit(f"attr .{node.attr}->.{other}: {ast.unparse(node)[:60]} (line {line})",
                                       lambda n, other=other: setattr(n, "attr", other))
        if isinstance(node, ast.Attribute) and isinstance(node.value, ast.Name) and node.value.id == "np" and node.attr in NP_SWAP:
            other = NP_SWAP[node.attr]
            yield emit(f"np.{node.attr}->np.{other} (line {line})", lambda n, other=other: setattr(n, "attr", other))
        if isinstance(node, ast.Name) and isinstance(node.ctx, ast.Load) and node.id in NAME_SWAP:
            other = NAME_SWAP[node.id]
            fnode = next((f for f in functions(tree) if f.name == fname and any(x is node for x in ast.walk(f))), None)
            if fnode is not None and any(isinstance(x, ast.Name) and x.id == other for x in ast.walk(fnode)):
                yield emit(f"name {node.id}->{other} (line {line}, col {node.col_offset})", lambda n, other=other: setattr(n, "id", other))
        if isinstance(node, ast.Call) and isinstance(node.func, ast.Name) and node.func.id == "range" and not node.keywords:
            if len(node.args) == 1:
                yield emit(f"range(a)->range(a - 1): {ast.unparse(node)[:60]}",
                           lambda n: n.args.__setitem__(0, ast.BinOp(left=n.args[0], op=ast.Sub(), right=ast.Constant(1))))
                yield emit(f"range(a)->range(1, a): {ast.unparse(node)[:60]}", lambda n: n.args.insert(0, ast.Constant(1)))
        if isinstance(node, ast.Break):
            yield emit(f"break->continue (line {line})", lambda n: setattr(n, "__class__", ast.Continue))
        if isinstance(node, ast.Continue):
            yield emit(f"continue->break (line {line})", lambda n: setattr(n, "__class__", ast.Break))
        if isinstance(node, ast.Call) and isinstance(node.func, ast.Attribute) and node.func.attr in ("copy", "item", "flatten") \
                and not node.args:
            def unwrap(n):
                v = n.func.value
                n.__class__ = v.__class__
                n.__dict__.clear()
                n.__dict__.update(v.__dict__)
            yield emit(f"drop .{node.func.attr}(): {ast.unparse(node)[:60]}", unwrap)
        if isinstance(node, ast.Call) and isinstance(node.func, ast.Name) and node.func.id == "int" and len(node.args) == 1:
            def unwrap2(n):
                v = n.args[0]
                n.__class__ = v.__class__
                n.__dict__.clear()
                n.__dict__.update(v.__dict__)
            yield emit(f"drop int(): {ast.unparse(node)[:60]}", unwrap2)


def evaluate(job):
    rel, desc, line, fname, new = job
    repo = Repo(REPO, overrides={rel: new})
    flagged, errors = [], []
    for pid in PROPS:
        mod = importlib.import_module(f"opfcheck.props.{pid.lower()}")
        code, viol, err = dry_run(pid, mod.check, repo)
        if code == 1:
            flagged.append(pid)
        elif code == 2:
            errors.append(pid)
    return dict(file=rel, function=fname, line=line, mutation=desc, flagged=flagged, errors=errors)


def main():
    ap = argparse.ArgumentParser()
    ap.add_argument("--jobs", type=int, default=16)
    ap.add_argument("--files", nargs="*", default=[])
    ap.add_argument("--out", default="/tmp/sweep.json")
    a = ap.parse_args()
    jobs = []
    for dp, _, fs in os.walk(os.path.join(REPO, "opfython")):
        for f in sorted(fs):
            if not f.endswith(".py"):
                continue
            full = os.path.join(dp, f)
            rel = os.path.relpath(full, REPO)
            if a.files and not any(x in rel for x in a.files):
                continue
            src = open(full, encoding="utf-8").read()
            for m in mutants_of(src):
                if m is not None:
                    jobs.append((rel,) + m)
    print(f"{len(jobs)} mutants", flush=True)
    with mp.get_context("fork").Pool(a.jobs) as pool:
        res = pool.map(evaluate, jobs, chunksize=4)
    surv = [r for r in res if not r["flagged"] and not r["errors"]]
    only_err = [r for r in res if not r["flagged"] and r["errors"]]
    json.dump(dict(total=len(res), survivors=surv, analysis_error_only=only_err,
                   flagged=len(res) - len(surv) - len(only_err)), open(a.out, "w"), indent=1)
    print(f"total {len(res)}  flagged {len(res) - len(surv) - len(only_err)}  exit2-only {len(only_err)}  survivors {len(surv)}")


if __name__ == "__main__":
    main()
