#!/bin/sh
# Developer regression: every confirmed seeded defect must be reported under its property id,
# every behaviour-preserving refactoring must leave all 20 checks silent.  8 scratch worktrees in parallel.
cd "$(dirname "$0")/.." || exit 2
J=${JOBS:-8}
echo "== seeded defects (expect CAUGHT)"
ls -d seeded/*/ | xargs -P "$J" -n 16 python3-vt tools/eval_seeded.py 2>&1 | grep -v "CAUGHT" | cut -c1-300
echo "== benign refactorings (expect SILENT)"
ls -d benign/*/ | xargs -P "$J" -n 10 python3-vt tools/eval_benign.py 2>&1 | grep -v "SILENT" | cut -c1-300
echo "== done"
