#!/bin/sh
# Developer regression: every confirmed seeded defect must be reported under its property id,
# every behaviour-preserving refactoring must leave all 20 checks silent.
cd "$(dirname "$0")/.." || exit 2
echo "== seeded defects (expect CAUGHT; C08-m1 is out of domain and expected silent)"
python3-vt tools/eval_seeded.py seeded/* 2>&1 | grep -v "CAUGHT" | cut -c1-300
echo "== benign refactorings (expect SILENT)"
python3-vt tools/eval_benign.py benign/* 2>&1 | grep -v "SILENT" | cut -c1-300
echo "== done"
