#!/usr/bin/env python3
"""Developer gate: MANIFEST.json and every evidence/<id>.json validate against the schemas in /root/.vp."""
import glob
import json
import sys

import jsonschema

bad = 0
try:
    jsonschema.validate(json.load(open("/verif/MANIFEST.json")), json.load(open("/root/.vp/MANIFEST.schema.json")))
except Exception as e:  # noqa: BLE001
    bad += 1
    print("MANIFEST:", str(e)[:300])
sch = json.load(open("/root/.vp/EVIDENCE.schema.json"))
files = sorted(glob.glob("/verif/evidence/*.json"))
for f in files:
    try:
        jsonschema.validate(json.load(open(f)), sch)
    except Exception as e:  # noqa: BLE001
        bad += 1
        print(f, str(e)[:300])
print(f"validated MANIFEST + {len(files)} evidence files, {bad} invalid")
sys.exit(1 if bad else 0)
