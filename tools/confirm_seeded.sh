#!/bin/sh
# confirm_seeded.sh <src dir with patch.diff demo.py meta.json> <name>
# Confirms in a scratch worktree: demo passes on clean code, patch applies, test-suite still passes,
# demo fails with the patch.  On success copies the defect to /verif/seeded/<name>/ and records what was run.
set -u
SRC="$1"; NAME="$2"
WT=$(mktemp -d /tmp/confirm_XXXXXX)
git -C /repo worktree add --detach "$WT" HEAD -q || exit 2
cleanup() { git -C /repo worktree remove --force "$WT" >/dev/null 2>&1; rm -rf "$WT"; }
trap cleanup EXIT
cp "$SRC/demo.py" "$WT/demo_seeded.py"
cd "$WT" || exit 2
PYTHONPATH="$WT" timeout 300 /venv/bin/python demo_seeded.py >/tmp/confirm_clean.log 2>&1; CLEAN=$?
git -C "$WT" apply "$SRC/patch.diff" || { echo "$NAME: PATCH DOES NOT APPLY"; exit 1; }
PYTHONPATH="$WT" timeout 900 /venv/bin/python -m pytest -q -p no:cacheprovider tests >/tmp/confirm_tests.log 2>&1; TESTS=$?
TSUM=$(tail -1 /tmp/confirm_tests.log)
PYTHONPATH="$WT" timeout 300 /venv/bin/python demo_seeded.py >/tmp/confirm_mut.log 2>&1; MUT=$?
echo "$NAME: demo_clean_exit=$CLEAN tests_exit=$TESTS ($TSUM) demo_mutated_exit=$MUT"
if [ "$CLEAN" = 0 ] && [ "$TESTS" = 0 ] && [ "$MUT" != 0 ]; then
  mkdir -p "/verif/seeded/$NAME"
  cp "$SRC/patch.diff" "$SRC/demo.py" "/verif/seeded/$NAME/"
  python3 - "$SRC/meta.json" "/verif/seeded/$NAME/meta.json" "$TSUM" "$CLEAN" "$MUT" <<'PY'
import json, sys
src, dst, tsum, clean, mut = sys.argv[1:6]
try:
    m = json.load(open(src))
except Exception:
    m = {}
m["confirmed"] = {
    "how": "scratch worktree of /repo HEAD: demo on clean code, git apply patch.diff, full test-suite, demo again",
    "demo_clean_exit": int(clean), "tests": tsum, "demo_with_change_exit": int(mut),
    "commands": ["PYTHONPATH=<wt> /venv/bin/python demo.py", "git -C <wt> apply patch.diff",
                 "PYTHONPATH=<wt> /venv/bin/python -m pytest -q -p no:cacheprovider tests"],
}
json.dump(m, open(dst, "w"), indent=1)
PY
  echo "$NAME: KEPT"
else
  echo "$NAME: REJECTED"
fi
