#!/bin/sh
# confirm_pair.sh <src dir with clean.diff broken.diff demo.py meta.json> <id e.g. C01-r6p1>
# Confirms in a scratch worktree: demo passes on the original and with the clean refactoring, fails with the broken one;
# the test-suite passes with both.  On success: benign/<id>-clean/ and seeded/<id>-broken/.
set -u
SRC="$1"; NAME="$2"
WT=$(mktemp -d /tmp/confirmp_XXXXXX)
git -C /repo worktree add --detach "$WT" HEAD -q || exit 2
cleanup() { git -C /repo worktree remove --force "$WT" >/dev/null 2>&1; rm -rf "$WT"; }
trap cleanup EXIT
cp "$SRC/demo.py" "$WT/demo_pair.py"
for f in "$SRC"/*.json; do [ -f "$f" ] && [ "$(basename "$f")" != meta.json ] && cp "$f" "$WT/"; done
cd "$WT" || exit 2
run_demo() { PYTHONPATH="$WT" timeout 600 /venv/bin/python demo_pair.py >"/tmp/confirmp_$NAME.$1.log" 2>&1; echo $?; }
run_tests() { PYTHONPATH="$WT" timeout 900 /venv/bin/python -m pytest -q -p no:cacheprovider tests >"/tmp/confirmp_$NAME.$1.tests.log" 2>&1; echo $?; }
D0=$(run_demo orig)
git -C "$WT" apply "$SRC/clean.diff" || { echo "$NAME: clean.diff DOES NOT APPLY"; exit 1; }
T1=$(run_tests clean); D1=$(run_demo clean)
git -C "$WT" checkout -- . ; git -C "$WT" clean -fdq -e demo_pair.py -e '*.json'
git -C "$WT" apply "$SRC/broken.diff" || { echo "$NAME: broken.diff DOES NOT APPLY"; exit 1; }
T2=$(run_tests broken); D2=$(run_demo broken)
echo "$NAME: demo_orig=$D0 clean(tests=$T1 demo=$D1) broken(tests=$T2 demo=$D2)"
if [ "$D0" = 0 ] && [ "$T1" = 0 ] && [ "$D1" = 0 ] && [ "$T2" = 0 ] && [ "$D2" != 0 ]; then
  mkdir -p "/verif/benign/$NAME-clean" "/verif/seeded/$NAME-broken"
  cp "$SRC/clean.diff" "/verif/benign/$NAME-clean/patch.diff"; cp "$SRC/demo.py" "/verif/benign/$NAME-clean/demo.py"
  cp "$SRC/broken.diff" "/verif/seeded/$NAME-broken/patch.diff"; cp "$SRC/demo.py" "/verif/seeded/$NAME-broken/demo.py"
  for f in "$SRC"/*.json; do b=$(basename "$f"); [ "$b" != meta.json ] && [ "$(stat -c %s "$f")" -lt 2000000 ] && cp "$f" "/verif/benign/$NAME-clean/" && cp "$f" "/verif/seeded/$NAME-broken/"; done
  python3 - "$SRC/meta.json" "/verif/seeded/$NAME-broken/meta.json" "/verif/benign/$NAME-clean/why.txt" <<'PY'
import json, sys
src, dst, why = sys.argv[1:4]
try:
    m = json.load(open(src))
except Exception:
    m = {}
m["confirmed"] = {"how": "scratch worktree of /repo HEAD: demo on original (0), clean.diff: tests + demo (0), broken.diff: tests pass + demo (non-zero)"}
json.dump(m, open(dst, "w"), indent=1)
open(why, "w").write("Clean half of a refactoring pair (the broken half is seeded/%s).\nRefactoring: %s\nThe pair's demo compares against the original behaviour and exits 0 with this patch.\n" % (dst.split("/")[-2], m.get("refactoring", "")))
PY
  echo "$NAME: KEPT"
else
  echo "$NAME: REJECTED"
fi
