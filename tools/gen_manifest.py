#!/usr/bin/env python3
"""Regenerates MANIFEST.json from the table below (run from /verif)."""
import json
import os
import sys

HERE = os.path.dirname(os.path.dirname(os.path.abspath(__file__)))

TB = ("Trusted: the analyser itself (resolver, IR normalisation, kind tables), validated by the "
      "self-validation corpus in the thorough tier and by tools/regress.sh (535 independently seeded defects must be "
      "reported, 421 independent behaviour-preserving commits must stay silent); exit 2 on anything unrecognised. "
      "Every model check also evaluates the premises its rules stand on (transparent properties, constant relations, "
      "Node defaults, metric purity, and - where a queue or an arc structure is involved - the heap rules, the "
      "arc typestate and destroy/reset rules). ")

def E(level, ref, technique, text, note):
    return dict(level=level, ref=ref, technique=technique, text=text, note=TB + note)


NORM = "AST dataflow normalisation (aliases, copy propagation with staleness tracking, comparison canonicalisation)"

CHECKS = {
    "C01": E("other", "4/C01",
             NORM + " + relational schema rules (IFT f_max instance) + index-kind checker + order-only "
             "information-flow + heap structural rules",
             "Decides that SupervisedOPF.fit is a well-kinded instance of the image-foresting-transform schema "
             "for the max-arc cost over a min-heap (seeding, removal bookkeeping, candidate, strict acceptance, "
             "predecessor/label propagation, benign-guard family), for every input at once because the rules are "
             "on the shape of the code. Optimality is the schema's published theorem, not decided.",
             "IFT optimality theorem (Falcao et al. 2004); heap rules are necessary conditions only."),
    "C02": E("other", "4/C02",
             NORM + " + relational schema rules (Prim instance, both-endpoints rule)",
             "Decides that the prototype search is an instance of Prim over the complete graph whose removal step "
             "flags both endpoints of a cross-class tree arc, and that prototypes are re-seeded with cost 0 / own "
             "label. Minimality and uniqueness are Prim's theorem, not decided.",
             "Prim's theorem for any tie-breaking."),
    "C03": E("other", "4/C03",
             NORM + " + best-so-far scan rules (exact bound, unconditional advance, sound early exit) + kinds",
             "Decides that predict is the cost-ordered arg-min scan of max(cost, d) with an exact bound, an "
             "unconditional advance, a sound exit test and label taken from the same node as the minimum; equality "
             "with the exhaustive scan then follows from sortedness of the conquest order (C01).",
             "sortedness of idx_nodes by cost is a run-time fact implied by C01's removal rule."),
    "C04": E("other", "4/C04",
             NORM + " + constant propagation through inlined helper + override-dominance rule; metric premise by "
             "sympy normal forms",
             "KNN clause decided structurally (label forcing in the final clustering dominates the strict acceptance "
             "test); metric premise (zero self-distance, definedness) by algebra. The supervised clause is a "
             "corollary of C01-C03 and is not decided separately.",
             "induction over conquest order (roots own label, conquered copy the conqueror's)."),
    "C05": E("other", "4/C05",
             "typestate / pairing / mirror / index-algebra rules over the Heap methods' IR + client-side "
             "improvement-guard rule at all H.update sites",
             "Necessary structural conditions H1-H7 for priority-queue correctness plus client preconditions. "
             "History semantics (extremal, exactly once) need an inductive invariant and are not decided.",
             "necessary conditions only; not a proof over operation histories."),
    "C06": E("translation_validation", "4/C06",
             "ast -> algebraic tree translation of the 47 metric bodies + sympy normal-form equality against the "
             "reference closed forms; registry/whitelist/constructor agreement by set comparison",
             "Every metric body, with symbolic vector length, has the same real-arithmetic normal form as its "
             "published closed form; registry keys = whitelist = 47 and each key maps to its own function; model "
             "constructors forward the identifier. Covers every vector and length at once.",
             "the 47 reference formulas in /verif/spec are the oracle; sympy's simplifier; numba compiles "
             "whitelisted NumPy operations with NumPy semantics; real arithmetic = 'up to rounding'."),
    "C07": E("other", "4/C07",
             "interprocedural effect / ownership analysis over the call graph (writes through borrowed arrays, "
             "mutable module state, nondeterminism sources)",
             "No function reachable from a distance, fit or predict writes through a caller-owned array, reads "
             "mutable module state or lets RNG/clock values flow anywhere but the logger - for every call history.",
             "NumPy view/copy rules as documented; numba-compiled bodies have NumPy semantics."),
    "C08": E("other", "4/C08",
             "sympy normal forms (swap-invariance, y:=x substitution) + IEEE-sound sign-domain abstract "
             "interpretation of sqrt/log/division operands + theorem table",
             "Symmetry and zero self-distance are decided on the code's normal form for all vectors; finiteness by "
             "a sign analysis that is sound in floating point; non-negativity and triangle inequality come from "
             "the theorem table for the reference form that C06 shows the code equals.",
             "axiom table fixed in /verif/spec; no overflow/underflow; published metric proofs."),
    "C09": E("other", "4/C09",
             "non-interference analysis: predict's write set vs read set (effect analysis), loop-carried "
             "dependence check of the per-sample body, index-kind checker (batch position vs training index)",
             "Earlier samples and earlier calls cannot influence a prediction: nothing predict writes is read by "
             "predict, the per-sample body has no loop-carried state, and the batch position only selects the "
             "query node.",
             "field-sensitive but not element-sensitive effects; scratch arrays must be fully reset."),
    "C10": E("other", "4/C10",
             "selector-agreement rule over all arc-weight sites + RowId provenance (kind rule K6) + writer/reader "
             "format table comparison",
             "Necessary conditions: both arms of every arc-weight selector name the same ordered node pair, node "
             "ids come from the caller's index array, the matrix builders index coherently, and what the writer "
             "emits is what the extension's reader parses (exact float round trip). Bit-equality of two runs is "
             "a run-time fact that follows, not decided.",
             "np.savetxt default '%.18e' round-trips float64; loader dispatch by extension."),
    "C11": E("other", "4/C11",
             "order-type-only information-flow (taint) analysis of arc weights + sympy monotone-family check + "
             "nominal-index kind rule",
             "Rescaling clause decided soundly: weights reach only comparisons/max/min/stores, and the five "
             "Euclidean identifiers are strictly increasing functions of one base term with g(0)=0. Permutation "
             "clause: only the necessary 'indices are nominal' part.",
             "strict monotonicity over the reals; distinct distances that round to the same float are outside "
             "the tie-free premise."),
    "C12": E("other", "4/C12",
             NORM + " + k-NN insertion-scan schema (paired arrays) + accumulator-initialisation rule + sympy "
             "normal forms of the pdf / normalisation / cost formulas",
             "The scan keeps paired (distance, index) buffers, every accumulator is initialised before its loop, "
             "read-out order/guards are right, and the density formulas equal the statement's. That the selected "
             "neighbours are the k nearest follows from the scan schema by a loop invariant that is not proved.",
             "insertion-scan loop invariant trusted."),
    "C13": E("other", "4/C13",
             NORM + " + relational schema rules (IFT f_min instance over a max-heap) + kinds + heap rules",
             "Both clustering loops are instances of the f_min schema with colour guard, root lift before the cost "
             "record, root/label/cluster copied from the conqueror, cluster counter = root discoveries; "
             "propagate_labels reads the root's label.",
             "IFT theorem for f_min (Rocha et al. 2009)."),
    "C14": E("other", "4/C14",
             NORM + " + k-NN scan schema (unguarded over all training nodes) + arg-max rule + sympy normal form of "
             "the query density + sibling agreement",
             "The scan ranges over every training node, density uses the stored constant/range, the answer is the "
             "arg-max of min(cost, density) with label and cluster from the same neighbour.",
             "insertion-scan loop invariant trusted."),
    "C15": E("other", "4/C15",
             "statement-order rule + IFT f_max schema rules + sibling isomorphism with SupervisedOPF.fit",
             "Prototypes from labelled nodes, unlabeled nodes appended before the heap is sized, same competition "
             "as supervised fit up to one listed extra statement (so the empty-unlabeled case is the same program).",
             "IFT optimality theorem."),
    "C16": E("other", "4/C16",
             "best-so-far selection idiom rule (ascending candidates, strict comparison, sentinel outside the "
             "criterion's range, winner reaches its use)",
             "Control structure of both k-selection loops decided for all inputs: candidates ascending, criterion "
             "computed on the model just built with k, strict improvement keeps the smallest k, sentinel cannot "
             "be attained, best_k reaches the final build.",
             "range table of the criteria (accuracy in [0,1], cut >= 0 finite)."),
    "C17": E("other", "4/C17",
             "alias/view analysis of the exchange statements + best-so-far rule + snapshot-installation rule + "
             "predecessor-walk and filter rules",
             "learn's exchanges are exact value swaps of paired rows, the snapshot is installed into the object, "
             "the draw is a scalar; predict tracks the conqueror consistently; mark_nodes walks to the root; prune "
             "filters X and Y by the same predicate.",
             "NumPy view/copy rules; 'highest accuracy among iterations' as a number is not decided."),
    "C18": E("other", "4/C18",
             "def-use rules on the permutation/slices + writer/reader/parser table comparison + sibling agreement "
             "of the three converters",
             "One permutation drives X, Y, I with complementary slices of one bound after the seed call; merge "
             "stacks in matching order; converters, loaders and parser agree on columns, keys, delimiters, header "
             "and record layout.",
             "np.savetxt/json.dump exactness for float32 values (library behaviour)."),
    "C19": E("other", "4/C19",
             "effect analysis (instance-state-only), pickling-by-reference rule over the registry's decorator "
             "chains, whole-dict installation rule",
             "All model state is instance state, save writes nothing and dumps self, load installs the whole dict, "
             "every registry value is picklable by reference, no state filter exists.",
             "pickle semantics as documented; functools.wraps preserves __qualname__/__module__."),
    "C20": E("other", "4/C20",
             "counting-kernel translation + sympy normal-form equality with the statement's definitions + "
             "role (true vs predicted index) rule",
             "Each measure's kernel and closing arithmetic equal the statement's formula for all label vectors; "
             "bounds and '=1 iff all correct' are properties of that formula.",
             "sympy; labels are 0..K-1 with every class present (the property's premise)."),
}

PENDING_REASON = "check not yet built in this commit (construction order: DESIGN.md 7.6); will be claimed when it lands"


def main():
    ids = [json.loads(l)["id"] for l in open(os.path.join(HERE, "properties.jsonl"))]
    checks = []
    na = []
    for pid in ids:
        c = CHECKS.get(pid)
        if not c or not os.path.exists(os.path.join(HERE, "opfcheck", "props", pid.lower() + ".py")):
            na.append({"property_id": pid, "reason": PENDING_REASON})
            continue
        checks.append({
            "property_id": pid,
            "quick_cmd": f"./run {pid} --tier quick",
            "thorough_cmd": f"./run {pid} --tier thorough",
            "evidence_file": f"/verif/evidence/{pid}.json",
            "replay_cmd_template": f"./run {pid} --replay {{path}}",
            "engine": "opfcheck",
            "level_claimed": {"category": c["level"], "text": c["text"], "design_ref": c["ref"]},
            "level_note": c["note"],
            "technique": c["technique"],
        })
    man = {
        "version": 1,
        "setup_cmd": "sh -c 'chmod +x ./run && python3-vt -B -c \"import ast, sympy\"'",
        "hooks": {
            "guard": "GUGAROSA_OPFYTHON_VERIF",
            "enable": "none needed: every check parses /repo/opfython with ast and never runs it; "
                      "no source commit uses the guard",
            "baseline_off_cmd": "cd /repo && /venv/bin/python -m pytest -q -p no:cacheprovider --timeout=900",
            "source_commits": [],
            "add_only": True,
        },
        "engines": [{
            "name": "opfcheck",
            "path": "/verif/opfcheck",
            "serves_properties": [c["property_id"] for c in checks],
            "kind_free_text": "repository-specific static analyser over ast: resolver, normalised kernel IR with "
                              "staleness tracking, index-kind checker, schema rules, effect analysis, expression "
                              "algebra (sympy normal forms), writer/reader tables, heap rules",
        }],
        "checks": checks,
        "not_applicable": na,
        "notes": "Static analysis only. Exit 0 = all obligations discharged; exit 1 + VIOLATION line = a rule is "
                 "broken by a named construct; exit 2 + ANALYSIS-ERROR = the source no longer maps onto the "
                 "analyser's model (never a verdict). known_findings.json lists recorded findings and fixed defects.",
    }
    with open(os.path.join(HERE, "MANIFEST.json"), "w") as fh:
        json.dump(man, fh, indent=1)
    print("checks:", len(checks), "not_applicable:", len(na))


if __name__ == "__main__":
    main()
