#!/usr/bin/env python3
"""Regenerates MANIFEST.json from the table below (run from /verif)."""
import json
import os
import sys

HERE = os.path.dirname(os.path.dirname(os.path.abspath(__file__)))

TB = ("Trusted: the analyser itself (resolver, IR normalisation, kind tables), validated by the "
      "self-validation corpus in the thorough tier; exit 2 on anything unrecognised. ")

CHECKS = {
    "C01": dict(
        level="other", ref="4/C01",
        technique="AST dataflow normalisation + relational schema rules (IFT f_max instance), index-kind "
                  "checker, order-only information-flow, heap structural rules",
        text="Decides that SupervisedOPF.fit is a well-kinded instance of the image-foresting-transform schema "
             "for the max-arc cost over a min-heap (seeding, removal bookkeeping, candidate, strict acceptance, "
             "predecessor/label propagation, benign-guard family), for every input at once because the rules are "
             "on the shape of the code. Optimality is the schema's published theorem, not decided.",
        note=TB + "IFT optimality theorem (Falcao et al. 2004); heap rules are necessary conditions only."),
    "C02": dict(
        level="other", ref="4/C02",
        technique="AST dataflow normalisation + relational schema rules (Prim instance, both-endpoints rule)",
        text="Decides that the prototype search is an instance of Prim over the complete graph whose removal step "
             "flags both endpoints of a cross-class tree arc, and that prototypes are re-seeded with cost 0 / own "
             "label. Minimality and uniqueness are Prim's theorem, not decided.",
        note=TB + "Prim's theorem for any tie-breaking."),
}

PENDING_REASON = "check not yet built in this commit (construction order: DESIGN.md 7.6); will be claimed when it lands"


def main():
    ids = [json.loads(l)["id"] for l in open(os.path.join(HERE, "properties.jsonl"))]
    checks = []
    na = []
    for pid in ids:
        c = CHECKS.get(pid)
        if not c or not os.path.exists(os.path.join(HERE, "opfcheck", "props", pid.lower() + ".py")):
            na.append({"property_id": pid, "reason": PENDING_REASON})
            continue
        checks.append({
            "property_id": pid,
            "quick_cmd": f"./run {pid} --tier quick",
            "thorough_cmd": f"./run {pid} --tier thorough",
            "evidence_file": f"/verif/evidence/{pid}.json",
            "replay_cmd_template": f"./run {pid} --replay {{path}}",
            "engine": "opfcheck",
            "level_claimed": {"category": c["level"], "text": c["text"], "design_ref": c["ref"]},
            "level_note": c["note"],
            "technique": c["technique"],
        })
    man = {
        "version": 1,
        "setup_cmd": "sh -c 'chmod +x ./run && python3-vt -B -c \"import ast, sympy\"'",
        "hooks": {
            "guard": "GUGAROSA_OPFYTHON_VERIF",
            "enable": "none needed: every check parses /repo/opfython with ast and never runs it; "
                      "no source commit uses the guard",
            "baseline_off_cmd": "cd /repo && /venv/bin/python -m pytest -q -p no:cacheprovider --timeout=900",
            "source_commits": [],
            "add_only": True,
        },
        "engines": [{
            "name": "opfcheck",
            "path": "/verif/opfcheck",
            "serves_properties": [c["property_id"] for c in checks],
            "kind_free_text": "repository-specific static analyser over ast: resolver, normalised kernel IR with "
                              "staleness tracking, index-kind checker, schema rules, effect analysis, expression "
                              "algebra (sympy normal forms), writer/reader tables, heap rules",
        }],
        "checks": checks,
        "not_applicable": na,
        "notes": "Static analysis only. Exit 0 = all obligations discharged; exit 1 + VIOLATION line = a rule is "
                 "broken by a named construct; exit 2 + ANALYSIS-ERROR = the source no longer maps onto the "
                 "analyser's model (never a verdict). known_findings.json lists recorded findings and fixed defects.",
    }
    with open(os.path.join(HERE, "MANIFEST.json"), "w") as fh:
        json.dump(man, fh, indent=1)
    print("checks:", len(checks), "not_applicable:", len(na))


if __name__ == "__main__":
    main()
