#!/usr/bin/env python3
"""Run all checks against behaviour-preserving patches; every check must stay silent (exit 0).
usage: eval_benign.py <dir with patch.diff> [...]"""
import importlib
import os
import subprocess
import sys
import tempfile

HERE = os.path.dirname(os.path.dirname(os.path.abspath(__file__)))
sys.path.insert(0, HERE)
from opfcheck.core import Repo, dry_run  # noqa: E402

PROPS = [f"C{i:02d}" for i in range(1, 21)]


def main():
    wt = tempfile.mkdtemp(prefix="evalwt_")
    subprocess.check_call(["git", "-C", "/repo", "worktree", "add", "--detach", wt, "HEAD", "-q"])
    try:
        for d in sys.argv[1:]:
            patch = os.path.join(d, "patch.diff")
            if not os.path.exists(patch):
                continue
            r = subprocess.run(["git", "-C", wt, "apply", os.path.abspath(patch)], capture_output=True, text=True)
            if r.returncode != 0:
                print(d, "PATCH DOES NOT APPLY", r.stderr[:200])
                continue
            alarms, errs = {}, {}
            repo = Repo(wt)  # one parse per tree; the checks only read it
            for pid in PROPS:
                mod = importlib.import_module(f"opfcheck.props.{pid.lower()}")
                code, viol, err = dry_run(pid, mod.check, repo)
                if code == 1:
                    alarms[pid] = [(v.rule, v.function, v.construct[:70], v.detail[:110]) for v in viol]
                elif code == 2:
                    errs[pid] = err
            subprocess.check_call(["git", "-C", wt, "checkout", "--", "."])
            subprocess.call(["git", "-C", wt, "clean", "-fdq"])
            status = "SILENT" if not alarms and not errs else ("FALSE-ALARM" if alarms else "ANALYSIS-ERROR")
            print(f"{d}: {status}")
            for p, v in alarms.items():
                for x in v[:4]:
                    print("    ALARM", p, x)
            for p, e in errs.items():
                print("    ERROR", p, (e or "")[:200])
    finally:
        subprocess.call(["git", "-C", "/repo", "worktree", "remove", "--force", wt])


if __name__ == "__main__":
    main()
