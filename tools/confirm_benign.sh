#!/bin/sh
# confirm_benign.sh <src dir with patch.diff demo.py why.txt> <name>
# Confirms in a scratch worktree that the refactoring applies, the test-suite still passes and the differential demo
# exits 0; on success copies it to /verif/benign/<name>/.
set -u
SRC="$1"; NAME="$2"
WT=$(mktemp -d /tmp/confirmb_XXXXXX)
git -C /repo worktree add --detach "$WT" HEAD -q || exit 2
cleanup() { git -C /repo worktree remove --force "$WT" >/dev/null 2>&1; rm -rf "$WT"; }
trap cleanup EXIT
git -C "$WT" apply "$SRC/patch.diff" || { echo "$NAME: PATCH DOES NOT APPLY"; exit 1; }
cp "$SRC"/demo.py "$WT/demo_benign.py"
for f in "$SRC"/*.json; do [ -f "$f" ] && cp "$f" "$WT/"; done
cd "$WT" || exit 2
PYTHONPATH="$WT" timeout 900 /venv/bin/python -m pytest -q -p no:cacheprovider tests >"/tmp/confirmb_tests_$NAME.log" 2>&1; TESTS=$?
TSUM=$(tail -1 "/tmp/confirmb_tests_$NAME.log")
PYTHONPATH="$WT" timeout 900 /venv/bin/python demo_benign.py >"/tmp/confirmb_demo_$NAME.log" 2>&1; DEMO=$?
echo "$NAME: tests_exit=$TESTS ($TSUM) demo_exit=$DEMO"
if [ "$TESTS" = 0 ] && [ "$DEMO" = 0 ]; then
  mkdir -p "/verif/benign/$NAME"
  cp "$SRC"/patch.diff "$SRC"/demo.py "/verif/benign/$NAME/"
  [ -f "$SRC/why.txt" ] && cp "$SRC/why.txt" "/verif/benign/$NAME/"
  for f in "$SRC"/*.json; do [ -f "$f" ] && [ "$(stat -c %s "$f")" -lt 2000000 ] && cp "$f" "/verif/benign/$NAME/"; done
  echo "$NAME: KEPT"
else
  echo "$NAME: REJECTED"
fi
