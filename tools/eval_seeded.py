#!/usr/bin/env python3
"""Evaluate every check against a seeded defect (patch) on a scratch worktree; nothing is written
to /repo or to /verif/evidence.   usage: eval_seeded.py <dir with patch.diff> [...]"""
import importlib
import json
import os
import subprocess
import sys
import tempfile

HERE = os.path.dirname(os.path.dirname(os.path.abspath(__file__)))
sys.path.insert(0, HERE)
from opfcheck.core import Repo, dry_run  # noqa: E402

PROPS = [f"C{i:02d}" for i in range(1, 21)]


def evaluate(root):
    out = {}
    repo = Repo(root)  # one parse per tree; the checks only read it
    for pid in PROPS:
        try:
            mod = importlib.import_module(f"opfcheck.props.{pid.lower()}")
        except ModuleNotFoundError:
            continue
        code, viol, err = dry_run(pid, mod.check, repo)
        out[pid] = (code, sorted({v.rule for v in viol}), err)
    return out


def main():
    wt = tempfile.mkdtemp(prefix="evalwt_")
    subprocess.check_call(["git", "-C", "/repo", "worktree", "add", "--detach", wt, "HEAD", "-q"])
    try:
        base = evaluate(wt)
        bad = {p: r for p, r in base.items() if r[0] != 0}
        if bad:
            print("BASELINE NOT CLEAN:", bad)
        for d in sys.argv[1:]:
            patch = os.path.join(d, "patch.diff")
            if not os.path.exists(patch):
                print(d, "no patch.diff")
                continue
            r = subprocess.run(["git", "-C", wt, "apply", os.path.abspath(patch)], capture_output=True, text=True)
            if r.returncode != 0:
                print(d, "PATCH DOES NOT APPLY", r.stderr[:200])
                continue
            res = evaluate(wt)
            subprocess.check_call(["git", "-C", wt, "checkout", "--", "."])
            meta = {}
            try:
                meta = json.load(open(os.path.join(d, "meta.json")))
            except Exception:
                pass
            target = meta.get("property", "?")
            hits = {p: r for p, r in res.items() if r[0] == 1}
            errs = {p: r[2] for p, r in res.items() if r[0] == 2}
            tgt = res.get(target, (None,))[0]
            # a defect whose demo is outside the scope of the stated property (recorded, with the reason, in meta.json
            # as "scope_note" + "accept_ids") counts as reported when one of the properties it does break reports it
            accept = meta.get("accept_ids") or []
            if tgt != 1 and accept and any(res.get(a, (None,))[0] == 1 for a in accept):
                print(f"{d}: target {target} -> CAUGHT (out of {target}'s scope, reported under {[a for a in accept if res.get(a, (None,))[0] == 1]})"
                      f" | flagged by {{{', '.join(f'{p}:{r[1]}' for p, r in hits.items())}}}")
                continue
            print(f"{d}: target {target} -> {'CAUGHT' if tgt == 1 else ('ERROR' if tgt == 2 else 'MISSED')}"
                  f" | flagged by {{{', '.join(f'{p}:{r[1]}' for p, r in hits.items())}}}"
                  + (f" | analysis errors {errs}" if errs else ""))
    finally:
        subprocess.call(["git", "-C", "/repo", "worktree", "remove", "--force", wt])


if __name__ == "__main__":
    main()
