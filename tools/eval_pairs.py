#!/usr/bin/env python3
"""Evaluate refactoring pairs: <dir>/clean.diff must leave all 20 checks silent, <dir>/broken.diff must be reported
under the property named in <dir>/meta.json.   usage: eval_pairs.py <dir> [...]"""
import importlib
import json
import os
import subprocess
import sys
import tempfile

HERE = os.path.dirname(os.path.dirname(os.path.abspath(__file__)))
sys.path.insert(0, HERE)
from opfcheck.core import Repo, dry_run  # noqa: E402

PROPS = [f"C{i:02d}" for i in range(1, 21)]


def evaluate(root):
    repo = Repo(root)
    out = {}
    for pid in PROPS:
        mod = importlib.import_module(f"opfcheck.props.{pid.lower()}")
        code, viol, err = dry_run(pid, mod.check, repo)
        out[pid] = (code, sorted({v.rule for v in viol}), err)
    return out


def main():
    wt = tempfile.mkdtemp(prefix="evalwt_")
    subprocess.check_call(["git", "-C", "/repo", "worktree", "add", "--detach", wt, "HEAD", "-q"])
    write = "--write-verdict" in sys.argv
    try:
        for d in [a for a in sys.argv[1:] if not a.startswith("--")]:
            record = {}
            try:
                target = json.load(open(os.path.join(d, "meta.json"))).get("property", "?")
            except Exception:
                target = "?"
            for which in ("clean", "broken"):
                patch = os.path.join(d, which + ".diff")
                r = subprocess.run(["git", "-C", wt, "apply", os.path.abspath(patch)], capture_output=True, text=True)
                if r.returncode != 0:
                    print(f"{d} {which}: PATCH DOES NOT APPLY")
                    continue
                res = evaluate(wt)
                subprocess.check_call(["git", "-C", wt, "checkout", "--", "."])
                subprocess.call(["git", "-C", wt, "clean", "-fdq"])
                hits = {p: r[1] for p, r in res.items() if r[0] == 1}
                errs = {p: (r[2] or "")[:100] for p, r in res.items() if r[0] == 2}
                if which == "clean":
                    verdict = "SILENT" if not hits and not errs else ("FALSE-ALARM" if hits else "FALSE-ALARM(undecided: exit 2 only)")
                else:
                    verdict = "CAUGHT" if res.get(target, (0,))[0] == 1 else ("ERROR" if target in errs else "MISSED")
                print(f"{d} {which:6s}: {verdict} (target {target}) | flagged {hits} | errors {errs}"[:420])
                record[which + "_half"] = {"verdict": verdict, "violations": hits, "undecided": errs}
            if write and record:
                vp = os.path.join(d, "verdict.json")
                old = {}
                if os.path.exists(vp):
                    try:
                        old = json.load(open(vp))
                    except Exception:
                        old = {}
                out = {"pair": os.path.basename(os.path.normpath(d)), **record}
                if old.get("note"):
                    out["note"] = old["note"]
                json.dump(out, open(vp, "w"), indent=1)
    finally:
        subprocess.call(["git", "-C", "/repo", "worktree", "remove", "--force", wt])


if __name__ == "__main__":
    main()
