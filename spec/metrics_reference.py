"""Oracle tables for C06 / C08 / C11 (fixed in /verif; DESIGN.md Appendix A).

Closed forms written from Cha (2007) "Comprehensive survey on distance/similarity measures
between probability density functions" and Abu Alfeilat et al. (2019) "Effects of distance measure
choice on KNN classifier performance", the sources the library follows, reconciled once with the
pinned tree's pinned test values.

Each reference is a function of an `Ops` namespace:
    X, Y   the arguments as the formula sees them (for a decorated metric X = x + EPSILON > 0)
    n      the vector length (symbolic)
    K      MAX_ARC_WEIGHT
    S, MX, CNZ   sum / max / count-of-non-zeros over the n components
    sqrt, ln, exp, absv, mn, mx, ne

Domain: "R" all reals, "R+" components >= 0, "P" components >= 0 shifted to > 0 by the decorator.
Axioms: s symmetric, n non-negative, z zero self-distance, t triangle inequality.
"""

REFERENCE = {
    "additive_symmetric": lambda o: 2 * o.S((o.X - o.Y) ** 2 * (o.X + o.Y) / (o.X * o.Y)),
    "average_euclidean": lambda o: o.sqrt(o.S((o.X - o.Y) ** 2) / o.n),
    "bhattacharyya": lambda o: -o.ln(o.S(o.sqrt(o.X * o.Y))),
    "bray_curtis": lambda o: o.S(o.absv(o.X - o.Y)) / o.S(o.X + o.Y),
    "canberra": lambda o: o.S(o.absv(o.X - o.Y) / (o.absv(o.X) + o.absv(o.Y))),
    "chebyshev": lambda o: o.MX(o.absv(o.X - o.Y)),
    "chi_squared": lambda o: o.S((o.X - o.Y) ** 2 / (o.X + o.Y)) / 2,
    "chord": lambda o: o.sqrt(2 - 2 * o.S(o.X * o.Y) / (o.sqrt(o.S(o.X ** 2)) * o.sqrt(o.S(o.Y ** 2)))),
    "clark": lambda o: o.sqrt(o.S(((o.X - o.Y) / o.absv(o.X + o.Y)) ** 2)),
    "cosine": lambda o: 1 - o.S(o.X * o.Y) / (o.sqrt(o.S(o.X ** 2)) * o.sqrt(o.S(o.Y ** 2))),
    "dice": lambda o: 1 - 2 * o.S(o.X * o.Y) / (o.S(o.X ** 2) + o.S(o.Y ** 2)),
    "divergence": lambda o: 2 * o.S((o.X - o.Y) ** 2 / (o.X + o.Y) ** 2),
    "euclidean": lambda o: o.sqrt(o.S((o.X - o.Y) ** 2)),
    "gaussian": lambda o: o.exp(-o.sqrt(o.S((o.X - o.Y) ** 2))),
    "gower": lambda o: o.S(o.absv(o.X - o.Y)) / o.n,
    "hamming": lambda o: o.CNZ(o.ne(o.X, o.Y)),
    "hassanat": lambda o: o.S(o.piecewise(
        1 - (1 + o.mn(o.X, o.Y)) / (1 + o.mx(o.X, o.Y)),
        o.ge(o.mn(o.X, o.Y), 0),
        1 - (1 + o.mn(o.X, o.Y) + o.absv(o.mn(o.X, o.Y))) / (1 + o.mx(o.X, o.Y) + o.absv(o.mn(o.X, o.Y))))),
    "hellinger": lambda o: o.sqrt(2 * o.S((o.sqrt(o.X) - o.sqrt(o.Y)) ** 2)),
    "jaccard": lambda o: o.S((o.X - o.Y) ** 2) / (o.S(o.X ** 2) + o.S(o.Y ** 2) - o.S(o.X * o.Y)),
    "jeffreys": lambda o: o.S((o.X - o.Y) * o.ln(o.X / o.Y)),
    "jensen": lambda o: o.S((o.X * o.ln(o.X) + o.Y * o.ln(o.Y)) / 2 - ((o.X + o.Y) / 2) * o.ln((o.X + o.Y) / 2)) / 2,
    "jensen_shannon": lambda o: (o.S(o.X * o.ln(2 * o.X / (o.X + o.Y))) + o.S(o.Y * o.ln(2 * o.Y / (o.X + o.Y)))) / 2,
    "k_divergence": lambda o: o.S(o.X * o.ln(2 * o.X / (o.X + o.Y))),
    "kulczynski": lambda o: o.S(o.absv(o.X - o.Y)) / o.S(o.mn(o.X, o.Y)),
    "kullback_leibler": lambda o: o.S(o.X * o.ln(o.X / o.Y)),
    "log_euclidean": lambda o: o.K * o.ln(1 + o.sqrt(o.S((o.X - o.Y) ** 2))),
    "log_squared_euclidean": lambda o: o.K * o.ln(1 + o.S((o.X - o.Y) ** 2)),
    "lorentzian": lambda o: o.S(o.ln(1 + o.absv(o.X - o.Y))),
    "manhattan": lambda o: o.S(o.absv(o.X - o.Y)),
    "matusita": lambda o: o.sqrt(o.S((o.sqrt(o.X) - o.sqrt(o.Y)) ** 2)),
    "max_symmetric": lambda o: o.mx(o.S((o.X - o.Y) ** 2 / o.X), o.S((o.X - o.Y) ** 2 / o.Y)),
    "mean_censored_euclidean": lambda o: o.sqrt(o.S((o.X - o.Y) ** 2) / o.CNZ(o.ne(o.X + o.Y, 0))),
    "min_symmetric": lambda o: o.mn(o.S((o.X - o.Y) ** 2 / o.X), o.S((o.X - o.Y) ** 2 / o.Y)),
    "neyman": lambda o: o.S((o.X - o.Y) ** 2 / o.X),
    "non_intersection": lambda o: o.S(o.absv(o.X - o.Y)) / 2,
    "pearson": lambda o: o.S((o.X - o.Y) ** 2 / o.Y),
    "sangvi": lambda o: 2 * o.S((o.X - o.Y) ** 2 / (o.X + o.Y)),
    "soergel": lambda o: o.S(o.absv(o.X - o.Y)) / o.S(o.mx(o.X, o.Y)),
    "squared": lambda o: o.S((o.X - o.Y) ** 2 / (o.X + o.Y)),
    "squared_chord": lambda o: o.S((o.sqrt(o.X) - o.sqrt(o.Y)) ** 2),
    "squared_euclidean": lambda o: o.S((o.X - o.Y) ** 2),
    "statistic": lambda o: o.S((o.X - (o.X + o.Y) / 2) / ((o.X + o.Y) / 2)),
    "topsoe": lambda o: o.S(o.X * o.ln(2 * o.X / (o.X + o.Y))) + o.S(o.Y * o.ln(2 * o.Y / (o.X + o.Y))),
    "vicis_symmetric1": lambda o: o.S((o.X - o.Y) ** 2 / o.mn(o.X, o.Y) ** 2),
    "vicis_symmetric2": lambda o: o.S((o.X - o.Y) ** 2 / o.mn(o.X, o.Y)),
    "vicis_symmetric3": lambda o: o.S((o.X - o.Y) ** 2 / o.mx(o.X, o.Y)),
    "vicis_wave_hedges": lambda o: o.S(o.absv(o.X - o.Y) / o.mn(o.X, o.Y)),
}

# identifier -> (domain, axioms)
AXIOMS = {
    "additive_symmetric": ("P", "snz"),
    "average_euclidean": ("R", "snzt"),
    "bhattacharyya": ("P", "s"),
    "bray_curtis": ("P", "snz"),
    "canberra": ("P", "snzt"),
    "chebyshev": ("R", "snzt"),
    "chi_squared": ("P", "snz"),
    "chord": ("P", "snz"),
    "clark": ("P", "snz"),
    "cosine": ("P", "snz"),
    "dice": ("P", "snz"),
    "divergence": ("P", "snz"),
    "euclidean": ("R", "snzt"),
    "gaussian": ("R", "s"),
    "gower": ("R", "snzt"),
    "hamming": ("R", "snzt"),
    "hassanat": ("P", "snz"),
    "hellinger": ("R+", "snzt"),
    "jaccard": ("P", "snz"),
    "jeffreys": ("P", "snz"),
    "jensen": ("P", "snz"),
    "jensen_shannon": ("P", "snz"),
    "k_divergence": ("P", "z"),
    "kulczynski": ("P", "snz"),
    "kullback_leibler": ("P", "z"),
    "log_euclidean": ("R", "snzt"),
    "log_squared_euclidean": ("R", "snz"),
    "lorentzian": ("R", "snzt"),
    "manhattan": ("R", "snzt"),
    "matusita": ("R+", "snzt"),
    "max_symmetric": ("P", "snz"),
    "mean_censored_euclidean": ("P", "snz"),
    "min_symmetric": ("P", "snz"),
    "neyman": ("P", "nz"),
    "non_intersection": ("R", "snzt"),
    "pearson": ("P", "nz"),
    "sangvi": ("P", "snz"),
    "soergel": ("P", "snzt"),
    "squared": ("P", "snz"),
    "squared_chord": ("R+", "snz"),
    "squared_euclidean": ("R", "snz"),
    "statistic": ("P", "z"),
    "topsoe": ("P", "snz"),
    "vicis_symmetric1": ("P", "snz"),
    "vicis_symmetric2": ("P", "snz"),
    "vicis_symmetric3": ("P", "snz"),
    "vicis_wave_hedges": ("P", "snz"),
}

# theorems used for the value obligations n / t (on the reference form; transferred to the code by C06)
THEOREMS = {
    "n": {
        "cosine": "Cauchy-Schwarz", "chord": "Cauchy-Schwarz (+ clamp)", "dice": "AM-GM",
        "jaccard": "AM-GM (numerator a square sum, divisor >= half of a positive quantity)",
        "jeffreys": "(a-b) ln(a/b) >= 0", "jensen": "convexity of t ln t",
        "jensen_shannon": "log-sum inequality", "topsoe": "log-sum inequality",
        "*": "sum / max / square root / K ln(1 + .) of terms that are non-negative term by term",
    },
    "t": {
        "euclidean": "Minkowski (p=2)", "manhattan": "Minkowski (p=1)", "chebyshev": "Minkowski (p=inf)",
        "average_euclidean": "positive multiple of a norm", "gower": "positive multiple of a norm",
        "non_intersection": "positive multiple of a norm", "hamming": "counting metric",
        "lorentzian": "subadditivity of ln(1+t) composed with |.| coordinate-wise",
        "log_euclidean": "concave increasing transform g(0)=0 of a metric",
        "hellinger": "Euclidean metric of square roots (scaled)", "matusita": "Euclidean metric of square roots",
        "canberra": "coordinate-wise metric |a-b|/(|a|+|b|) (Lance & Williams)",
        "soergel": "Ruzicka / weighted Jaccard distance is a metric",
    },
}

# the mutually monotone Euclidean family of C11
MONOTONE_FAMILY = ["euclidean", "squared_euclidean", "average_euclidean", "log_euclidean", "log_squared_euclidean"]

# reference-free sibling relations used by the thorough tier of C06: (a, b, relation)
SIBLINGS = [
    ("chi_squared", "squared", lambda a, b, o: a - b / 2),
    ("sangvi", "squared", lambda a, b, o: a - 2 * b),
    ("topsoe", "jensen_shannon", lambda a, b, o: a - 2 * b),
    ("non_intersection", "manhattan", lambda a, b, o: a - b / 2),
    ("gower", "manhattan", lambda a, b, o: a - b / o.n),
    ("average_euclidean", "squared_euclidean", lambda a, b, o: a ** 2 - b / o.n),
    ("matusita", "squared_chord", lambda a, b, o: a ** 2 - b),
    ("hellinger", "squared_chord", lambda a, b, o: a ** 2 - 2 * b),
    ("euclidean", "squared_euclidean", lambda a, b, o: a ** 2 - b),
]


# Domain on which the *closed form* (and its symmetry / zero-self consequences) is compared when it is wider
# than the domain of the axiom table: Hassanat's published definition is piecewise in the sign of min(x_i, y_i)
# and covers all reals; the definedness / finiteness obligations stay on the table's domain (huge negative
# coordinates absorb the constant 1 and are not claimed).  Canberra's published form carries |x_i| + |y_i| precisely so
# that it is defined for coordinates of either sign (and the code spells both absolute values): the form is compared
# over all reals, so that |x_i + y_i| - equal on non-negative data only - is not the same function.
FORM_DOMAIN = {"hassanat": "R", "canberra": "R"}
