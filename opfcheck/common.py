"""Helpers shared by the property modules."""

from __future__ import annotations

from typing import List

from .core import AnalysisError, Check, FunctionInfo, Repo
from .ir import Walker
from .kinds import Kinds
from .rules_ift import Rep
from .schema import Competition, find_competitions

MODEL_CLASSES = ("OPF", "SupervisedOPF", "SemiSupervisedOPF", "KNNSupervisedOPF", "UnsupervisedOPF")
GRAPH_CLASSES = ("Subgraph", "KNNSubgraph")


def inline_private_model_helpers(fi: FunctionInfo) -> bool:
    """Private helpers of the model classes are inlined so that an extract-method refactor
    does not lose the anchor; public entry points and graph/heap methods are summarised."""
    if not fi.name.startswith("_") or fi.name.startswith("__"):
        return False
    return fi.cls in MODEL_CLASSES or (fi.cls is None and fi.module.startswith("opfython.models"))


def model_walk(repo: Repo, cls: str, method: str) -> Walker:
    fi = repo.need_method(cls, method)
    return Walker(repo, fi, self_class=cls, inline=inline_private_model_helpers)


def graph_walk(repo: Repo, cls: str, method: str) -> Walker:
    fi = repo.need_method(cls, method)
    return Walker(repo, fi, self_class=cls,
                  inline=lambda f: f.name.startswith("_") and not f.name.startswith("__") and (
                      f.cls in GRAPH_CLASSES or (f.cls is None and f.module.startswith(("opfython.subgraphs", "opfython.core")))))


def run_kinds(rep: Rep, w: Walker, prefix: str = "", rules=("K1", "K2", "K3", "K4", "K5")) -> dict:
    k = Kinds(w)

    def report(rule, ev, construct, ok, detail):
        text = construct
        if not ok:
            # key violations by the source statement, which is what a reader will look for
            text = ev.text() if ev.kind in ("store", "call", "bind", "return") else construct
            for g, _ in ev.guards:
                src = w.guard_src.get(g)
                if src and construct and _mentions(g, construct):
                    text = src[1]
        rep.chk.ob(prefix + rule, ev.fn.qual, text, ok, detail,
                   file=rep.repo.modules[ev.fn.module].relpath, line=ev.line)

    return k.check(report, rules=rules)


def _mentions(g, construct: str) -> bool:
    from .ir import show, subterms

    return any(show(s) == construct for s in subterms(g))


def competitions_of(repo: Repo, cls: str, method: str, floor: int):
    w = model_walk(repo, cls, method)
    comps = find_competitions(w)
    if len(comps) < floor:
        raise AnalysisError(
            f"{cls}.{method}: found {len(comps)} competition loop(s) "
            f"(while not H.is_empty(): p = H.remove()), expected at least {floor}"
        )
    return w, comps


def check_model_premises(rep: Rep, repo: Repo, pre: str = "PREMISE-", node_fields=None) -> None:
    """Premises every model rule relies on (see rules_premise)."""
    from .rules_premise import check_constants, check_node_defaults, check_transparent_properties

    n = check_transparent_properties(rep, repo, pre)
    if n < 70:
        raise AnalysisError(f"only {n} property accessors found (expected at least 70)")
    check_constants(rep, repo, pre)
    check_node_defaults(rep, repo, pre, fields=node_fields)


def check_fresh_graph(rep: Rep, w: Walker, first_seq: int, pre: str = "") -> None:
    """fit builds a NEW training graph from its arguments, unconditionally, before anything uses it."""
    G = ("attr", ("self",), "subgraph")
    st = [e for e in w.events if e.kind == "store" and e.target == G]
    ok = False
    detail = f"{len(st)} assignment(s) to self.subgraph"
    if len(st) == 1:
        e = st[0]
        v = e.value
        args = dict(zip(["X", "Y", "I"], v[2])) if v[0] == "new" else {}
        if v[0] == "new":
            args.update(dict(v[3]))
        from .rules_premise import raise_conditions
        from .ir import facts, mk_not
        rc = raise_conditions(w)
        uncond = all(mk_not(f) in rc for f in facts(e.guards))
        ok = v[0] == "new" and v[1] in GRAPH_CLASSES and args.get("X") == ("param", "X_train") \
            and args.get("Y") in (("param", "Y_train"), None) and e.seq < first_seq and uncond and not e.loops
        if v[0] != "new":
            detail = f"self.subgraph receives '{show_term(v)[:80]}', not a new graph built from this call's arguments"
        elif not uncond or e.loops:
            detail = "the training graph is only rebuilt under a condition: a second fit may reuse stale state"
    rep.fn(pre + "FIT-fresh", w.entry, "fit builds a new training graph from (X_train, Y_train, I_train)", ok, detail)


def show_term(t):
    from .ir import show
    return show(t)


def inline_same_module_private(fi: FunctionInfo):
    """Inline private module-level helpers (and private methods of the same class) of the entry's module."""
    def pred(f: FunctionInfo) -> bool:
        if not f.name.startswith("_") or f.name.startswith("__"):
            return False
        return f.module == fi.module and (f.cls is None or f.cls == fi.cls)
    return pred


def walk_function_with_helpers(repo: Repo, module: str, name: str) -> Walker:
    fi = repo.need_function(module, name)
    return Walker(repo, fi, inline=inline_same_module_private(fi))
