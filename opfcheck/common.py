"""Helpers shared by the property modules."""

from __future__ import annotations

from typing import List

from .core import AnalysisError, Check, FunctionInfo, Repo
from .ir import Walker
from .kinds import Kinds
from .rules_ift import Rep
from .schema import Competition, find_competitions

MODEL_CLASSES = ("OPF", "SupervisedOPF", "SemiSupervisedOPF", "KNNSupervisedOPF", "UnsupervisedOPF")
GRAPH_CLASSES = ("Subgraph", "KNNSubgraph")


def inline_private_model_helpers(fi: FunctionInfo) -> bool:
    """Private helpers of the model classes are inlined so that an extract-method refactor
    does not lose the anchor; public entry points and graph/heap methods are summarised."""
    if not fi.name.startswith("_") or fi.name.startswith("__"):
        return False
    return fi.cls in MODEL_CLASSES or (fi.cls is None and fi.module.startswith("opfython.models"))


def model_walk(repo: Repo, cls: str, method: str) -> Walker:
    fi = repo.need_method(cls, method)
    return Walker(repo, fi, self_class=cls, inline=inline_private_model_helpers)


def graph_walk(repo: Repo, cls: str, method: str) -> Walker:
    fi = repo.need_method(cls, method)
    return Walker(repo, fi, self_class=cls,
                  inline=lambda f: f.cls in GRAPH_CLASSES and f.name.startswith("_") and not f.name.startswith("__"))


def run_kinds(rep: Rep, w: Walker, prefix: str = "", rules=("K1", "K2", "K3", "K4", "K5")) -> dict:
    k = Kinds(w)

    def report(rule, ev, construct, ok, detail):
        text = construct
        if not ok:
            # key violations by the source statement, which is what a reader will look for
            text = ev.text() if ev.kind in ("store", "call", "bind", "return") else construct
            for g, _ in ev.guards:
                src = w.guard_src.get(g)
                if src and construct and _mentions(g, construct):
                    text = src[1]
        rep.chk.ob(prefix + rule, ev.fn.qual, text, ok, detail,
                   file=rep.repo.modules[ev.fn.module].relpath, line=ev.line)

    return k.check(report, rules=rules)


def _mentions(g, construct: str) -> bool:
    from .ir import show, subterms

    return any(show(s) == construct for s in subterms(g))


def competitions_of(repo: Repo, cls: str, method: str, floor: int):
    w = model_walk(repo, cls, method)
    comps = find_competitions(w)
    if len(comps) < floor:
        raise AnalysisError(
            f"{cls}.{method}: found {len(comps)} competition loop(s) "
            f"(while not H.is_empty(): p = H.remove()), expected at least {floor}"
        )
    return w, comps
