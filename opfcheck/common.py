"""Helpers shared by the property modules."""

from __future__ import annotations

from typing import List

from .core import AnalysisError, Check, FunctionInfo, Repo
from .ir import Walker
from .kinds import Kinds
from .rules_ift import Rep
from .schema import Competition, find_competitions

MODEL_CLASSES = ("OPF", "SupervisedOPF", "SemiSupervisedOPF", "KNNSupervisedOPF", "UnsupervisedOPF")
GRAPH_CLASSES = ("Subgraph", "KNNSubgraph")


def inline_private_model_helpers(fi: FunctionInfo) -> bool:
    """Private helpers of the model classes are inlined so that an extract-method refactor
    does not lose the anchor; public entry points and graph/heap methods are summarised."""
    if fi.cls in GRAPH_CLASSES + ("Node",) and not fi.name.startswith("__"):
        from .ir import api_signature
        return api_signature(fi) is None and not fi.decorators  # an undocumented helper of the graph / node classes
    if fi.name.startswith("__"):
        return False
    if not fi.name.startswith("_"):
        # a public method the documented API does not have (a helper made public, e.g. `arc_weight(p, q)`): its body
        from .ir import api_signature
        return fi.cls in MODEL_CLASSES and api_signature(fi) is None and not fi.decorators
    return fi.cls in MODEL_CLASSES or (fi.cls is None and fi.module.startswith("opfython.models"))


def model_walk(repo: Repo, cls: str, method: str) -> Walker:
    key = ("model_walk", cls, method)
    if key not in repo.memo:
        fi = repo.need_method(cls, method)
        repo.memo[key] = Walker(repo, fi, self_class=cls, inline=inline_private_model_helpers)
        from .ir import settle_lazy_inits, settle_removed_costs
        settle_lazy_inits(repo.memo[key])
        from .ir import settle_optional_minima, settle_record_carries
        settle_record_carries(repo.memo[key])
        settle_optional_minima(repo.memo[key])
        settle_removed_costs(repo.memo[key])
    return repo.memo[key]


def graph_walk(repo: Repo, cls: str, method: str) -> Walker:
    key = ("graph_walk", cls, method)
    if key not in repo.memo:
        fi = repo.need_method(cls, method)
        from .ir import api_signature
        repo.memo[key] = Walker(repo, fi, self_class=cls,
                                inline=lambda f: (f.cls in GRAPH_CLASSES + ("Node",) and not f.name.startswith("__")
                                                  and api_signature(f) is None and not f.decorators) or
                                f.name.startswith("_") and not f.name.startswith("__") and (
                                    f.cls in GRAPH_CLASSES or (f.cls is None and f.module.startswith(("opfython.subgraphs", "opfython.core")))))
    return repo.memo[key]


def get_effects(repo: Repo):
    from .effects import Effects
    if "effects" not in repo.memo:
        repo.memo["effects"] = Effects(repo)
    return repo.memo["effects"]


def run_kinds(rep: Rep, w: Walker, prefix: str = "", rules=("K1", "K2", "K3", "K4", "K5")) -> dict:
    k = Kinds(w)

    def report(rule, ev, construct, ok, detail):
        text = construct
        if not ok:
            # key violations by the source statement, which is what a reader will look for
            text = ev.text() if ev.kind in ("store", "call", "bind", "return") else construct
            for g, _ in ev.guards:
                src = w.guard_src.get(g)
                if src and construct and _mentions(g, construct):
                    text = src[1]
        rep.chk.ob(prefix + rule, ev.fn.qual, text, ok, detail,
                   file=rep.repo.modules[ev.fn.module].relpath, line=ev.line)

    out = k.check(report, rules=rules)
    check_dtypes(rep, w, prefix)
    return out


NARROW_DTYPES = {"numpy.float32", "numpy.float16", "numpy.half", "numpy.single", "numpy.int8", "numpy.int16", "numpy.uint8",
                 "numpy.uint16", "numpy.uint32", "numpy.uint64", "numpy.uintp", "numpy.uint", "numpy.ubyte", "numpy.ushort",
                 "numpy.bool_", "numpy.bool"}
NARROW_NAMES = {"float32", "float16", "f4", "f2", "<f4", "int8", "int16", "i1", "i2", "uint8", "uint16", "uint32", "uint64",
                "u1", "u2", "u4", "u8", "single", "half", "e"}


def narrow_dtype(t) -> bool:
    """A dtype term narrower than the library's working types (float64 / the platform integer), or unsigned."""
    if t is None:
        return False
    if t[0] == "mod" and t[1] in NARROW_DTYPES:
        return True
    if t[0] == "const" and isinstance(t[1], str) and t[1] in NARROW_NAMES:
        return True
    if t[0] == "call" and t[1] == ("mod", "numpy.dtype") and t[2]:
        return narrow_dtype(t[2][0])
    return False


def check_dtypes(rep: Rep, w: Walker, prefix: str = "") -> int:
    """DTYPE-narrow: the library keeps distances, costs, densities, counts and identifiers in float64 / platform
    integers everywhere; a buffer, a conversion or a cast in an analysed function that names a narrower (or an
    unsigned) type rounds distances (ties appear and orders change), truncates, or wraps NIL / large identifiers."""
    from .ir import subterms
    n = 0
    seen = set()
    for e in w.events:
        for top in [x for x in (e.value, e.target) if x is not None] + list(e.args or ()):
            for t in subterms(top):
                if t[0] not in ("alloc", "call") or len(t) < 4:
                    continue
                dt = dict(t[3]).get("dtype") if isinstance(t[3], tuple) else None
                if t[0] == "call" and t[1][0] == "attr" and t[1][2] in ("astype", "view") and t[2]:
                    dt = dt or t[2][0]
                name = t[1] if t[0] == "alloc" else (t[1][1] if t[1][0] == "mod" else "")
                if t[0] == "call" and t[1][0] == "mod" and t[1][1] in NARROW_DTYPES and t[2]:
                    dt = t[1]  # np.float32(x)
                if isinstance(name, str) and name.startswith("numpy.") and len(t[2]) >= 2 and name.split(".")[-1] in (
                        "zeros", "ones", "empty", "full", "array", "asarray", "asanyarray", "fromiter", "zeros_like", "empty_like",
                        "ones_like", "full_like", "arange"):
                    pos = {"full": 2, "full_like": 2, "arange": 3}.get(name.split(".")[-1], 1)
                    if len(t[2]) > pos:
                        dt = dt or t[2][pos]
                if narrow_dtype(dt) and (e.seq, t) not in seen:
                    seen.add((e.seq, t))
                    n += 1
                    from .ir import show
                    rep.chk.ob(prefix + "DTYPE-narrow", e.fn.qual, e.text()[:120], False,
                               f"'{show(t)[:80]}' uses the type {show(dt)}: values that the library keeps in float64 / platform "
                               "integers are rounded, truncated or wrapped (distances that differ become equal, NIL and large "
                               "identifiers change)", file=rep.repo.modules[e.fn.module].relpath, line=e.line)
    return n


def _mentions(g, construct: str) -> bool:
    from .ir import show, subterms

    return any(show(s) == construct for s in subterms(g))


VECTOR_SELECTORS = ("numpy.flatnonzero", "numpy.nonzero", "numpy.argsort", "numpy.argmin", "numpy.argmax",
                    "numpy.searchsorted", "numpy.argpartition", "numpy.lexsort", "numpy.sort", "numpy.partition",
                    "numpy.nanargmin", "numpy.nanargmax")


def require_scalar_fragment(w: Walker, what: str) -> None:
    """The schema rules decide algorithms written as scalar loops over nodes.  A function that picks nodes with
    whole-array selections (flatnonzero of a mask, argsort, argmin, searchsorted, ...) is outside that fragment: its
    loops range over computed index sets whose contents no rule here can bound, so nothing is decided (exit 2) instead
    of reading a shape rule's mismatch as a defect."""
    from .ir import is_log_call, subterms as _subt

    def diagnostic_only(h) -> bool:
        """The selection feeds nothing but log lines, warnings and argument checks that raise."""
        v = h.value
        if v is None:
            return False
        for li in w.loops.values():
            if li.domain is not None and any(u == v for u in _subt(li.domain)):
                return False
            if li.cond is not None and any(u == v for u in _subt(li.cond)):
                return False
        for e in w.events:
            if e is h:
                continue
            tops = [x for x in (e.target, e.value) if x is not None] + list(e.args or ()) + [x for _, x in (e.kwargs or ())]
            direct = any(u == v for top in tops for u in _subt(top))
            guarded = any(u == v for g, _ in e.guards for u in _subt(g))
            if not direct and not guarded:
                continue
            harmless = is_log_call(e) or e.kind in ("raise", "bind") or (e.kind == "call" and (e.name or "").startswith("warnings.")) \
                or (e.kind == "call" and e.target is not None and e.target[0] == "mod" and e.target[1].startswith(("numpy.", "builtin")))
            if e.kind == "call" and e.name in ("builtin.len", "builtin.int", "builtin.float", "builtin.str", "tolist", "item"):
                harmless = True
            if not harmless:
                return False
        return True
    sel_events = [e for e in w.events if e.kind == "call" and (e.name in VECTOR_SELECTORS or (
        e.target is not None and e.target[0] == "attr" and e.target[2] in ("argsort", "argmin", "argmax", "nonzero", "searchsorted")))]
    sel_events = [e for e in sel_events if not diagnostic_only(e)]
    hits = sorted({e.name for e in sel_events if e.name in VECTOR_SELECTORS})
    hits += sorted({"." + e.target[2] for e in sel_events if e.name not in VECTOR_SELECTORS})
    if hits:
        raise AnalysisError(f"{what}: nodes are selected with whole-array operations ({', '.join(hits)}); the rules "
                            "cover scalar loops over the nodes only - this form is outside the analysable fragment")
    # a value read back from a table under a membership test of the same key (`if key in memo: return memo[key]`): what the
    # table holds for that key is an invariant of the function's history, not something the rules can read off
    from .ir import subterms as _sub
    for e in w.events:
        for top in [x for x in (e.value,) if x is not None] + list(e.args or ()):
            for t in _sub(top):
                if t[0] == "sel":
                    for c in _sub(t[1]):
                        if c[0] == "cmp" and c[1] in ("in", "not in") and any(
                                a[0] == "idx" and a[1] == c[3] and a[2] == c[2] for arm in (t[2], t[3]) for a in _sub(arm)):
                            from .ir import show as _show
                            raise AnalysisError(f"{what}: '{_show(t)[:70]}' reads a value back from a memo table; what the table "
                                                "holds depends on the history of calls - this form is outside the analysable "
                                                "fragment")
    # a per-node table built by a comprehension, updated element by element and then tested: a hand-kept mirror of node
    # state; what it holds at a test is an invariant of the function, not something a shape rule can read off
    mirrors = getattr(w, "mut_tables", None) or ()
    if mirrors:
        from .ir import show, subterms
        for e in w.events:
            for g, _ in e.guards:
                for t in subterms(g):
                    if t[0] == "idx":
                        b = t[1]
                        while b[0] in ("idx", "old"):
                            b = b[1]
                        if b in mirrors:
                            raise AnalysisError(f"{what}: a test reads '{show(t)[:60]}', a local per-node table that the function "
                                                "updates as it goes (a mirror of node state); the rules read node state from the "
                                                "nodes themselves - this form is outside the analysable fragment")


def prototypes_searched(rep: Rep, repo: Repo, cls: str, pre: str = "") -> bool:
    """fit runs the prototype search (the spanning-tree step) before anything competes: without it no node is a
    prototype and the competition starts from an empty queue.  Reported as the violation it is, not as a missing loop."""
    w = model_walk(repo, cls, "fit")
    called = [e for e in w.events if e.kind == "call" and (
        (e.name == "<inline>" and e.target[1].endswith("._find_prototypes")) or e.name == "_find_prototypes")]
    rep.fn(pre + "PROTO-searched", w.entry, f"{cls}.fit runs the prototype search", bool(called),
           "no call of _find_prototypes on the fit path: no sample is marked as prototype, so nothing is seeded and every "
           "training sample keeps its initial state")
    return bool(called)


def competitions_of(repo: Repo, cls: str, method: str, floor: int):
    w = model_walk(repo, cls, method)
    require_scalar_fragment(w, f"{cls}.{method}")
    comps = find_competitions(w)
    if len(comps) < floor:
        raise AnalysisError(
            f"{cls}.{method}: found {len(comps)} competition loop(s) "
            f"(while not H.is_empty(): p = H.remove()), expected at least {floor}"
        )
    return w, comps


def check_model_premises(rep: Rep, repo: Repo, pre: str = "PREMISE-", node_fields=None, purity: bool = True) -> None:
    """Premises every model rule relies on (see rules_premise)."""
    from .rules_premise import check_constants, check_mutable_defaults, check_node_defaults, check_transparent_properties

    n = check_transparent_properties(rep, repo, pre)
    if n < 70:
        raise AnalysisError(f"only {n} property accessors found (expected at least 70)")
    check_constants(rep, repo, pre)
    check_node_defaults(rep, repo, pre, fields=node_fields)
    check_mutable_defaults(rep, repo, pre)
    from .rules_premise import check_decorators, check_model_state_untouched
    check_decorators(rep, repo, pre)
    check_model_state_untouched(rep, repo, pre)
    from .rules_premise import check_alias_writeback
    check_alias_writeback(rep, repo, pre)
    if purity:
        check_metric_purity(rep, repo, pre)


_EFFECTS_CACHE = {}


def check_metric_purity(rep: Rep, repo: Repo, pre: str = "") -> None:
    """The same pair of samples must get the same distance every time it is evaluated (spanning tree, competition,
    k-nearest scans, predict): no metric and no decorator wrapper may write through its arguments, which are views
    of the stored training features."""
    eff = get_effects(repo)
    fns = list(eff.registry_functions()) + [f for f in eff.funcs.values()
                                              if ".<locals>." in f.name and f.module == "opfython.utils.decorator"]
    n = 0
    for fi in fns:
        ws = eff.writes.get(fi.fq, {})
        n += 1
        if not ws:
            rep.fn(pre + "PURE-metric", fi, f"{fi.qual} does not write through its arguments", True)
        for p, hits in ws.items():
            for ev, how in hits:
                rep.ev(pre + "PURE-metric", ev, False, f"argument '{p}' of {fi.qual}: {how}; the stored features drift with "
                       "every evaluation, so the same pair of samples gets different distances at different times")
    if n < 40:
        raise AnalysisError(f"only {n} metric functions found")


def check_fresh_graph(rep: Rep, w: Walker, first_seq: int, pre: str = "") -> None:
    """fit builds a NEW training graph from its arguments, unconditionally, before anything uses it."""
    G = ("attr", ("self",), "subgraph")
    st = [e for e in w.events if e.kind == "store" and e.target == G]
    ok = False
    detail = f"{len(st)} assignment(s) to self.subgraph"
    if len(st) == 1:
        e = st[0]
        v = e.value
        args = dict(zip(["X", "Y", "I"], v[2])) if v[0] == "new" else {}
        if v[0] == "new":
            args.update(dict(v[3]))
        from .rules_premise import raise_conditions
        from .ir import facts, mk_not
        rc = raise_conditions(w)
        from .rules_premise import validation_guard
        exits = [x for x in w.events if x.kind == "raise"]
        uncond = all(mk_not(f) in rc for f in facts(e.guards)) or all(
            validation_guard(exits, g, pol) for g, pol in e.guards)
        okI = "I_train" not in w.entry.params or args.get("I") in (("param", "I_train"),)
        ok = v[0] == "new" and v[1] in GRAPH_CLASSES and args.get("X") == ("param", "X_train") \
            and args.get("Y") in (("param", "Y_train"), None) and okI and e.seq < first_seq and uncond and not e.loops
        if v[0] != "new":
            detail = f"self.subgraph receives '{show_term(v)[:80]}', not a new graph built from this call's arguments"
        elif not uncond or e.loops:
            detail = "the training graph is only rebuilt under a condition: a second fit may reuse stale state"
    rep.fn(pre + "FIT-fresh", w.entry, "fit builds a new training graph from (X_train, Y_train, I_train)", ok, detail)


def show_term(t):
    from .ir import show
    return show(t)


def inline_same_module_private(fi: FunctionInfo):
    """Inline private module-level helpers (and private methods of the same class) of the entry's module."""
    def pred(f: FunctionInfo) -> bool:
        if f.name.startswith("__"):
            return False
        if not f.name.startswith("_"):
            # a public function of the same module that the documented API does not have (a helper made public)
            from .ir import api_signature
            return f.module == fi.module and f.cls is None and api_signature(f) is None and f is not fi
        return f.module == fi.module and (f.cls is None or f.cls == fi.cls)
    return pred


def walk_function_with_helpers(repo: Repo, module: str, name: str) -> Walker:
    fi = repo.need_function(module, name)
    return Walker(repo, fi, inline=inline_same_module_private(fi))


LEARN_STATE_RULES = ("L3-snapshot", "L3-install", "L3-rebind", "L3-refit")


def check_learn_state_premise(rep: Rep, repo: Repo, pre: str = "LEARN:") -> None:
    """`learn()` is supervised training too: the model it leaves in the object must be one produced by `fit` whose
    node features were not overwritten afterwards - the best snapshot is a DEEP copy (the exchange step rewrites the
    rows the live forest's features are views of) and its whole state is installed on exit. Rules of C17 that decide
    which iteration wins are not premises of the forest properties and are not re-evaluated here."""
    from .core import Check
    from .props import c17
    tmp = Check("C17")
    trep = Rep(tmp, repo)
    try:
        c17.check_learn(tmp, trep, repo)
    except AnalysisError as exc:
        # a premise that cannot be analysed leaves the property undecided (exit 2); it is not a finding
        raise AnalysisError(f"premise (state left by SupervisedOPF.learn) could not be evaluated: {exc}")
    n = 0
    failed = False
    for o in tmp.obligations:
        if o.rule in LEARN_STATE_RULES:
            n += 1
            failed = failed or not o.ok
            rep.chk.ob(pre + o.rule, o.function, o.construct, o.ok, o.detail, o.file, o.line)
    if n == 0 and tmp.violations():
        # C17's rule set stopped at a violation of its own (which iteration wins); the state facts the forest properties
        # need are read directly: the snapshot(s) kept are deep copies of the object, and one of them is installed
        from .ir import Walker
        w = model_walk(repo, "SupervisedOPF", "learn")
        fn = w.entry
        snaps = [e for e in w.events if e.kind == "bind" and e.loops and e.value[0] == "alloc"
                 and e.value[1] in ("copy.deepcopy", "copy.copy") and e.value[2] == (("self",),)]
        rep.fn(pre + "L3-snapshot", fn, "the classifier kept by learn is a deep copy taken right after a fit",
               bool(snaps) and all(e.value[1] == "copy.deepcopy" for e in snaps),
               "a shallow copy shares the forest whose features the exchange step rewrites")
        names = {e.name for e in snaps}
        inst = [e for e in w.events if e.kind == "call" and e.name == "update"
                and e.target == ("attr", ("attr", ("self",), "__dict__"), "update") and len(e.args) == 1
                and e.args[0][0] == "attr" and e.args[0][2] == "__dict__"
                and ((e.args[0][1][0] == "phi" and e.args[0][1][2] in names) or e.args[0][1] in [x.value for x in snaps])]
        rep.fn(pre + "L3-install", fn, "the kept snapshot's whole state is installed into the object", len(inst) >= 1,
               "no `self.__dict__.update(<snapshot>.__dict__)`")
        return
    if n < 3 and not failed:
        raise AnalysisError(f"learn-state premise: only {n} obligations found")


def registry_accessor(repo: Repo):
    """Inline predicate for plain (undecorated, non-metric) helper functions of the distance module, e.g. a
    `get_distance_fn(name)` that returns `DISTANCES[name]`: a lookup through such an accessor is the lookup itself."""
    from .algebra import MetricTranslator
    try:
        metric_fns = set(MetricTranslator(repo).registry().values())
    except AnalysisError:
        metric_fns = set()
    return lambda f: f.cls is None and f.module == "opfython.math.distance" and not f.decorators \
        and f.name not in metric_fns and not f.name.endswith("_distance")
