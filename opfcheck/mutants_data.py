"""The corpus itself.  `()` properties = benign twin for every check; `("~C01",)` = benign twin
evaluated only by C01."""

from .mutants import (CONST, CONV, DEC, DIST, GEN, HEAP, KNN, KSUB, LOAD, M, NODE, OPFC, PARSE, SEMI,
                      SPLIT, SUBG, SUP, UNS)

# ---------------------------------------------------------------------------
# supervised fit (C01)
# ---------------------------------------------------------------------------
M("fit-sum-for-max", ["C01", "C11"], SUP,
  "current_cost = np.maximum(h.cost[p], weight)", "current_cost = h.cost[p] + weight")
M("fit-accept-flipped", ["C01", "C05"], SUP,
  "if current_cost < h.cost[q]:\n                            self.subgraph.nodes[q].pred = p",
  "if current_cost > h.cost[q]:\n                            self.subgraph.nodes[q].pred = p")
M("fit-pred-dropped", ["C01"], SUP,
  "                            self.subgraph.nodes[q].pred = p\n                            self.subgraph.nodes[\n",
  "                            self.subgraph.nodes[\n")
M("fit-pred-from-q", ["C01"], SUP,
  "self.subgraph.nodes[q].pred = p\n                            self.subgraph.nodes[\n",
  "self.subgraph.nodes[q].pred = q\n                            self.subgraph.nodes[\n")
M("fit-label-from-true-label", ["C01"], SUP,
  "].predicted_label = self.subgraph.nodes[p].predicted_label\n\n                            h.update(q, current_cost)",
  "].predicted_label = self.subgraph.nodes[p].label\n\n                            h.update(q, current_cost)")
M("fit-append-conditional", ["C01", "C03"], SUP,
  "            self.subgraph.idx_nodes.append(p)\n            self.subgraph.nodes[p].cost = h.cost[p]",
  "            if self.subgraph.nodes[p].status != c.PROTOTYPE:\n                self.subgraph.idx_nodes.append(p)\n            self.subgraph.nodes[p].cost = h.cost[p]")
M("fit-cost-from-zero", ["C01"], SUP,
  "            self.subgraph.idx_nodes.append(p)\n            self.subgraph.nodes[p].cost = h.cost[p]",
  "            self.subgraph.idx_nodes.append(p)\n            self.subgraph.nodes[p].cost = h.cost[0]")
M("fit-range-skips-first", ["C01"], SUP,
  "            self.subgraph.nodes[p].cost = h.cost[p]\n\n            for q in range(self.subgraph.n_nodes):",
  "            self.subgraph.nodes[p].cost = h.cost[p]\n\n            for q in range(1, self.subgraph.n_nodes):")
M("fit-max-heap", ["C01"], SUP,
  "        h = Heap(size=self.subgraph.n_nodes)\n\n        for i in range(self.subgraph.n_nodes):\n            if self.subgraph.nodes[i].status == c.PROTOTYPE:",
  "        h = Heap(size=self.subgraph.n_nodes, policy=\"max\")\n\n        for i in range(self.subgraph.n_nodes):\n            if self.subgraph.nodes[i].status == c.PROTOTYPE:")
M("fit-update-other-value", ["C01", "C05"], SUP,
  "                            h.update(q, current_cost)", "                            h.update(q, weight)")
M("fit-nonstrict-both", ["C01"], SUP,
  "                    if h.cost[p] < h.cost[q]:\n                        if self.pre_computed_distance:\n                            weight = self.pre_distances[self.subgraph.nodes[p].idx][\n                                self.subgraph.nodes[q].idx\n                            ]\n                        else:\n                            weight = self.distance_fn(\n                                self.subgraph.nodes[p].features,\n                                self.subgraph.nodes[q].features,\n                            )\n\n                        # The current cost will be the maximum cost between the node's and its weight (arc)\n                        current_cost = np.maximum(h.cost[p], weight)\n\n                        if current_cost < h.cost[q]:",
  "                    if h.cost[p] <= h.cost[q]:\n                        if self.pre_computed_distance:\n                            weight = self.pre_distances[self.subgraph.nodes[p].idx][\n                                self.subgraph.nodes[q].idx\n                            ]\n                        else:\n                            weight = self.distance_fn(\n                                self.subgraph.nodes[p].features,\n                                self.subgraph.nodes[q].features,\n                            )\n\n                        # The current cost will be the maximum cost between the node's and its weight (arc)\n                        current_cost = np.maximum(h.cost[p], weight)\n\n                        if current_cost <= h.cost[q]:")
M("seed-cost-one", ["C01", "C02"], SUP,
  "                h.cost[i] = 0\n                h.insert(i)", "                h.cost[i] = 1\n                h.insert(i)")
M("seed-pred-not-reset", ["C01", "C02"], SUP,
  "                self.subgraph.nodes[i].pred = c.NIL\n                self.subgraph.nodes[i].predicted_label = self.subgraph.nodes[i].label\n\n                h.cost[i] = 0",
  "                self.subgraph.nodes[i].predicted_label = self.subgraph.nodes[i].label\n\n                h.cost[i] = 0")
M("seed-everyone-queued", ["C01"], SUP,
  "            else:\n                h.cost[i] = c.FLOAT_MAX\n\n        while not h.is_empty():\n            p = h.remove()\n\n            self.subgraph.idx_nodes.append(p)",
  "            else:\n                h.cost[i] = c.FLOAT_MAX\n                h.insert(i)\n\n        while not h.is_empty():\n            p = h.remove()\n\n            self.subgraph.idx_nodes.append(p)")
M("fit-weight-in-arith", ["C11", "C01"], SUP,
  "                        if current_cost < h.cost[q]:\n                            self.subgraph.nodes[q].pred = p",
  "                        if current_cost < h.cost[q] - 1e-9:\n                            self.subgraph.nodes[q].pred = p")
# benign twins (accepted family)
M("fit-outer-guard-removed", ["~C01", "~C11", "~C05"], SUP,
  "                    if h.cost[p] < h.cost[q]:\n                        if self.pre_computed_distance:\n                            weight = self.pre_distances[self.subgraph.nodes[p].idx][\n                                self.subgraph.nodes[q].idx\n                            ]\n                        else:\n                            weight = self.distance_fn(\n                                self.subgraph.nodes[p].features,\n                                self.subgraph.nodes[q].features,\n                            )\n\n                        # The current cost",
  "                    if True:\n                        if self.pre_computed_distance:\n                            weight = self.pre_distances[self.subgraph.nodes[p].idx][\n                                self.subgraph.nodes[q].idx\n                            ]\n                        else:\n                            weight = self.distance_fn(\n                                self.subgraph.nodes[p].features,\n                                self.subgraph.nodes[q].features,\n                            )\n\n                        # The current cost")
M("fit-builtin-max", ["~C01", "~C11"], SUP,
  "current_cost = np.maximum(h.cost[p], weight)", "current_cost = max(weight, h.cost[p])")
M("fit-flipped-compare-text", ["~C01", "~C05", "~C11"], SUP,
  "if current_cost < h.cost[q]:\n                            self.subgraph.nodes[q].pred = p",
  "if h.cost[q] > current_cost:\n                            self.subgraph.nodes[q].pred = p")
M("fit-alias-nodes", ["~C01", "~C02", "~C10", "~C11"], SUP,
  "        h = Heap(size=self.subgraph.n_nodes)\n\n        for i in range(self.subgraph.n_nodes):\n            if self.subgraph.nodes[i].status == c.PROTOTYPE:",
  "        h = Heap(size=self.subgraph.n_nodes)\n        nodes = self.subgraph.nodes\n\n        for i in range(self.subgraph.n_nodes):\n            if nodes[i].status == c.PROTOTYPE:")

# ---------------------------------------------------------------------------
# Prim (C02)
# ---------------------------------------------------------------------------
M("prim-one-endpoint", ["C02"], SUP,
  "                    if self.subgraph.nodes[pred].status != c.PROTOTYPE:\n                        self.subgraph.nodes[pred].status = c.PROTOTYPE\n                        prototypes.append(pred)\n",
  "")
M("prim-same-label", ["C02"], SUP,
  "if self.subgraph.nodes[p].label != self.subgraph.nodes[pred].label:",
  "if self.subgraph.nodes[p].label == self.subgraph.nodes[pred].label:")
M("prim-key-accumulates", ["C02"], SUP,
  "                        if weight < h.cost[q]:\n                            self.subgraph.nodes[q].pred = p\n\n                            h.update(q, weight)",
  "                        weight = np.maximum(h.cost[p], weight)\n                        if weight < h.cost[q]:\n                            self.subgraph.nodes[q].pred = p\n\n                            h.update(q, weight)")
M("prim-pred-dropped", ["C02"], SUP,
  "                        if weight < h.cost[q]:\n                            self.subgraph.nodes[q].pred = p\n\n                            h.update(q, weight)",
  "                        if weight < h.cost[q]:\n                            h.update(q, weight)")
M("prim-marks-q", ["C02"], SUP,
  "                        self.subgraph.nodes[pred].status = c.PROTOTYPE\n",
  "                        self.subgraph.nodes[p].status = c.PROTOTYPE\n")
M("prim-nonstrict", ["~C02", "~C01", "~C05"], SUP,
  "                        if weight < h.cost[q]:\n                            self.subgraph.nodes[q].pred = p\n\n                            h.update(q, weight)",
  "                        if weight <= h.cost[q]:\n                            self.subgraph.nodes[q].pred = p\n\n                            h.update(q, weight)")
M("prim-no-colour-guard", ["~C02"], SUP,
  "                if h.color[q] != c.BLACK:\n                    if p != q:\n                        if self.pre_computed_distance:\n                            weight = self.pre_distances[self.subgraph.nodes[p].idx][",
  "                if True:\n                    if p != q:\n                        if self.pre_computed_distance:\n                            weight = self.pre_distances[self.subgraph.nodes[p].idx][")

# ---------------------------------------------------------------------------
# clustering (C13, C04)
# ---------------------------------------------------------------------------
M("uns-no-colour-guard", ["C13"], UNS,
  "                if h.color[q] != c.BLACK:\n                    current_cost = np.minimum(h.cost[p], self.subgraph.nodes[q].density)\n\n                    if current_cost > h.cost[q]:",
  "                if True:\n                    current_cost = np.minimum(h.cost[p], self.subgraph.nodes[q].density)\n\n                    if current_cost > h.cost[q]:")
M("uns-nonstrict", ["C13"], UNS,
  "                    if current_cost > h.cost[q]:\n                        self.subgraph.nodes[q].pred = p\n                        self.subgraph.nodes[q].root = self.subgraph.nodes[p].root\n                        self.subgraph.nodes[q].cluster_label",
  "                    if current_cost >= h.cost[q]:\n                        self.subgraph.nodes[q].pred = p\n                        self.subgraph.nodes[q].root = self.subgraph.nodes[p].root\n                        self.subgraph.nodes[q].cluster_label")
M("uns-lift-after-cost", ["C13"], UNS,
  "            if self.subgraph.nodes[p].pred == c.NIL:\n                h.cost[p] = self.subgraph.nodes[p].density\n\n                self.subgraph.nodes[p].cluster_label = l\n                l += 1\n\n            self.subgraph.nodes[p].cost = h.cost[p]\n",
  "            self.subgraph.nodes[p].cost = h.cost[p]\n\n            if self.subgraph.nodes[p].pred == c.NIL:\n                h.cost[p] = self.subgraph.nodes[p].density\n\n                self.subgraph.nodes[p].cluster_label = l\n                l += 1\n")
M("uns-max-for-min", ["C13"], UNS,
  "current_cost = np.minimum(h.cost[p], self.subgraph.nodes[q].density)\n\n                    if current_cost > h.cost[q]:",
  "current_cost = np.maximum(h.cost[p], self.subgraph.nodes[q].density)\n\n                    if current_cost > h.cost[q]:")
M("uns-root-not-copied", ["C13"], UNS,
  "                        self.subgraph.nodes[q].root = self.subgraph.nodes[p].root\n                        self.subgraph.nodes[q].cluster_label",
  "                        self.subgraph.nodes[q].root = p\n                        self.subgraph.nodes[q].cluster_label")
M("uns-counter-first", ["C13"], UNS,
  "                self.subgraph.nodes[p].cluster_label = l\n                l += 1\n",
  "                l += 1\n                self.subgraph.nodes[p].cluster_label = l\n")
M("uns-nclusters-off", ["C13"], UNS,
  "        self.subgraph.n_clusters = l\n", "        self.subgraph.n_clusters = l + 1\n")
M("uns-density-of-p", ["C13"], UNS,
  "current_cost = np.minimum(h.cost[p], self.subgraph.nodes[q].density)\n\n                    if current_cost > h.cost[q]:",
  "current_cost = np.minimum(h.cost[p], self.subgraph.nodes[p].density)\n\n                    if current_cost > h.cost[q]:")
M("uns-min-heap", ["C13"], UNS,
  "        h = Heap(size=self.subgraph.n_nodes, policy=\"max\")\n\n        for i in range(self.subgraph.n_nodes):\n            h.cost[i] = self.subgraph.nodes[i].cost\n\n            self.subgraph.nodes[i].pred = c.NIL\n            self.subgraph.nodes[i].root = i\n\n            h.insert(i)\n\n        l = 0",
  "        h = Heap(size=self.subgraph.n_nodes)\n\n        for i in range(self.subgraph.n_nodes):\n            h.cost[i] = self.subgraph.nodes[i].cost\n\n            self.subgraph.nodes[i].pred = c.NIL\n            self.subgraph.nodes[i].root = i\n\n            h.insert(i)\n\n        l = 0")
M("uns-propagate-own-label", ["C13"], UNS,
  "                self.subgraph.nodes[i].predicted_label = self.subgraph.nodes[root].label",
  "                self.subgraph.nodes[i].predicted_label = self.subgraph.nodes[i].label")
M("knn-root-label-dropped", ["C13", "C04"], KNN,
  "                h.cost[p] = self.subgraph.nodes[p].density\n                self.subgraph.nodes[p].predicted_label = self.subgraph.nodes[p].label\n",
  "                h.cost[p] = self.subgraph.nodes[p].density\n")
M("knn-label-from-q", ["C13", "C04"], KNN,
  "                        self.subgraph.nodes[q].predicted_label = self.subgraph.nodes[\n                            p\n                        ].predicted_label",
  "                        self.subgraph.nodes[q].predicted_label = self.subgraph.nodes[\n                            q\n                        ].label")
M("knn-seed-root-dropped", ["C13"], KNN,
  "            self.subgraph.nodes[i].pred = c.NIL\n            self.subgraph.nodes[i].root = i\n\n            h.insert(i)\n\n        while not h.is_empty():",
  "            self.subgraph.nodes[i].pred = c.NIL\n\n            h.insert(i)\n\n        while not h.is_empty():")
M("knn-force-dropped", ["C04"], KNN,
  "        self._clustering(force_prototype=True)", "        self._clustering()")
M("knn-force-same-label", ["C04"], KNN,
  "                        if self.subgraph.nodes[p].label != self.subgraph.nodes[q].label:\n                            current_cost = -c.FLOAT_MAX",
  "                        if self.subgraph.nodes[p].label == self.subgraph.nodes[q].label:\n                            current_cost = -c.FLOAT_MAX")
M("knn-force-after-accept", ["C04"], KNN,
  "                    if force_prototype:\n                        if self.subgraph.nodes[p].label != self.subgraph.nodes[q].label:\n                            current_cost = -c.FLOAT_MAX\n\n                    if current_cost > h.cost[q]:",
  "                    if current_cost > h.cost[q]:")
M("knn-force-weak-override", ["C04"], KNN,
  "                            current_cost = -c.FLOAT_MAX\n", "                            current_cost = 0.0\n")
M("knn-clustering-alias", ["~C13", "~C04"], KNN,
  "        while not h.is_empty():\n            p = h.remove()\n\n            self.subgraph.idx_nodes.append(p)\n\n            if self.subgraph.nodes[p].pred == c.NIL:\n                h.cost[p] = self.subgraph.nodes[p].density",
  "        while not h.is_empty():\n            p = h.remove()\n            node_p = self.subgraph.nodes[p]\n\n            self.subgraph.idx_nodes.append(p)\n\n            if node_p.pred == c.NIL:\n                h.cost[p] = node_p.density")

# ---------------------------------------------------------------------------
# heap (C05; also reported by C01/C02/C13 through their HEAP- premise)
# ---------------------------------------------------------------------------
M("heap-up-pos-as-elem", ["C05", "C01"], HEAP,
  "            while i > 0 and self.cost[self.p[j]] > self.cost[self.p[i]]:",
  "            while i > 0 and self.cost[j] > self.cost[self.p[i]]:")
M("heap-up-pos-update-dropped", ["C05", "C13"], HEAP,
  "                self.pos[self.p[i]] = i\n                self.pos[self.p[j]] = j\n\n                i = j\n                j = self.dad(i)\n\n        else:",
  "                self.pos[self.p[i]] = i\n\n                i = j\n                j = self.dad(i)\n\n        else:")
M("heap-down-right-vs-i", ["C05"], HEAP,
  "            if right <= self.last and self.cost[self.p[right]] < self.cost[self.p[j]]:",
  "            if right <= self.last and self.cost[self.p[right]] < self.cost[self.p[i]]:")
M("heap-down-bound-strict", ["C05"], HEAP,
  "            if left <= self.last and self.cost[self.p[left]] > self.cost[self.p[i]]:",
  "            if left < self.last and self.cost[self.p[left]] > self.cost[self.p[i]]:")
M("heap-full-off-by-one", ["C05"], HEAP,
  "        if self.last == (self.size - 1):", "        if self.last == self.size:")
M("heap-insert-no-gray", ["C05"], HEAP,
  "            self.p[self.last] = p\n            self.color[p] = c.GRAY\n", "            self.p[self.last] = p\n")
M("heap-remove-shrinks-first", ["C05"], HEAP,
  "            self.p[0] = self.p[self.last]\n\n            self.pos[self.p[0]] = 0\n            self.p[self.last] = -1\n\n            self.last -= 1\n",
  "            self.last -= 1\n\n            self.p[0] = self.p[self.last]\n\n            self.pos[self.p[0]] = 0\n            self.p[self.last] = -1\n")
M("heap-update-reinserts-gray", ["C05"], HEAP,
  "        if self.color[p] == c.WHITE:\n            self.insert(p)", "        if self.color[p] != c.BLACK:\n            self.insert(p)")
M("heap-dad-wrong", ["C05"], HEAP, "        return int(((i - 1) / 2))", "        return int((i / 2))")
M("heap-up-stops-early", ["C05"], HEAP,
  "            while i > 0 and self.cost[self.p[j]] < self.cost[self.p[i]]:",
  "            while i > 1 and self.cost[self.p[j]] < self.cost[self.p[i]]:")
M("heap-up-max-direction", ["C05"], HEAP,
  "            while i > 0 and self.cost[self.p[j]] < self.cost[self.p[i]]:",
  "            while i > 0 and self.cost[self.p[j]] > self.cost[self.p[i]]:")
M("heap-remove-returns-new-root", ["C05"], HEAP,
  "            self.go_down(0)\n\n            return p", "            self.go_down(0)\n\n            return self.p[0]")
M("heap-down-descends-at-i", ["C05"], HEAP, "            self.go_down(j)", "            self.go_down(i)")
M("heap-update-cost-after-sift", ["C05"], HEAP,
  "        self.cost[p] = cost\n\n        if self.color[p] == c.BLACK:\n            pass\n\n        if self.color[p] == c.WHITE:\n            self.insert(p)\n        else:\n            self.go_up(self.pos[p])",
  "        if self.color[p] == c.WHITE:\n            self.insert(p)\n        else:\n            self.go_up(self.pos[p])\n\n        self.cost[p] = cost")
M("heap-insert-when-full-overwrites", ["C05"], HEAP,
  "        if not self.is_full():\n            self.last += 1", "        if True:\n            self.last += 1")
M("heap-up-nonstrict", ["~C05", "~C01"], HEAP,
  "            while i > 0 and self.cost[self.p[j]] > self.cost[self.p[i]]:\n                self.p[j], self.p[i] = self.p[i], self.p[j]\n\n                self.pos[self.p[i]] = i\n                self.pos[self.p[j]] = j\n\n                i = j\n                j = self.dad(i)\n\n        else:\n            # While the heap exists and the cost of post-node is smaller than current node\n            while i > 0 and self.cost[self.p[j]] < self.cost[self.p[i]]:",
  "            while i > 0 and self.cost[self.p[j]] >= self.cost[self.p[i]]:\n                self.p[j], self.p[i] = self.p[i], self.p[j]\n\n                self.pos[self.p[i]] = i\n                self.pos[self.p[j]] = j\n\n                i = j\n                j = self.dad(i)\n\n        else:\n            # While the heap exists and the cost of post-node is smaller than current node\n            while i > 0 and self.cost[self.p[j]] <= self.cost[self.p[i]]:")
M("heap-dad-floordiv", ["~C05"], HEAP, "        return int(((i - 1) / 2))", "        return (i - 1) // 2")

# ---------------------------------------------------------------------------
# supervised predict (C03, C17-P1, C09)
# ---------------------------------------------------------------------------
M("pred-bound-short", ["C03"], SUP,
  "                j < (self.subgraph.n_nodes - 1)\n", "                j < (self.subgraph.n_nodes - 2)\n")
M("pred-exit-flipped", ["C03"], SUP,
  "                and min_cost > self.subgraph.nodes[self.subgraph.idx_nodes[j + 1]].cost",
  "                and min_cost < self.subgraph.nodes[self.subgraph.idx_nodes[j + 1]].cost")
M("pred-cand-sum", ["C03", "C11"], SUP,
  "                temp_min_cost = np.maximum(self.subgraph.nodes[l].cost, weight)",
  "                temp_min_cost = self.subgraph.nodes[l].cost + weight")
M("pred-cand-weight-only", ["C03"], SUP,
  "                temp_min_cost = np.maximum(self.subgraph.nodes[l].cost, weight)",
  "                temp_min_cost = weight")
M("pred-label-from-k", ["C03"], SUP,
  "                    current_label = self.subgraph.nodes[l].predicted_label",
  "                    current_label = self.subgraph.nodes[k].predicted_label")
M("pred-label-true-label", ["C03"], SUP,
  "                    current_label = self.subgraph.nodes[l].predicted_label",
  "                    current_label = self.subgraph.nodes[l].label")
M("pred-accept-flipped", ["C03"], SUP,
  "                if temp_min_cost < min_cost:", "                if temp_min_cost > min_cost:")
M("pred-advance-conditional", ["C03"], SUP,
  "                    current_label = self.subgraph.nodes[l].predicted_label\n\n                j += 1\n",
  "                    current_label = self.subgraph.nodes[l].predicted_label\n\n                    j += 1\n")
M("pred-init-cost-dropped", ["C03"], SUP,
  "            min_cost = np.maximum(self.subgraph.nodes[k].cost, weight)", "            min_cost = weight")
M("pred-start-at-one", ["C03"], SUP, "            j = 0\n\n            k = self.subgraph.idx_nodes[j]",
  "            j = 1\n\n            k = self.subgraph.idx_nodes[j]")
M("pred-extra-exit", ["C03"], SUP,
  "                j < (self.subgraph.n_nodes - 1)\n", "                j < (self.subgraph.n_nodes - 1)\n                and j < 50\n")
M("pred-store-other-node", ["C03", "C09"], SUP,
  "            pred_subgraph.nodes[i].predicted_label = current_label",
  "            pred_subgraph.nodes[0].predicted_label = current_label")
M("pred-accept-nonstrict", ["~C03", "~C09", "~C11"], SUP,
  "                if temp_min_cost < min_cost:", "                if temp_min_cost <= min_cost:")
M("pred-exit-nonstrict", ["~C03", "~C11"], SUP,
  "                and min_cost > self.subgraph.nodes[self.subgraph.idx_nodes[j + 1]].cost",
  "                and min_cost >= self.subgraph.nodes[self.subgraph.idx_nodes[j + 1]].cost")
M("pred-exit-removed", ["~C03"], SUP,
  "                j < (self.subgraph.n_nodes - 1)\n                and min_cost > self.subgraph.nodes[self.subgraph.idx_nodes[j + 1]].cost\n",
  "                j < (self.subgraph.n_nodes - 1)\n")
M("pred-bound-rewritten", ["~C03"], SUP,
  "                j < (self.subgraph.n_nodes - 1)\n", "                j + 1 < self.subgraph.n_nodes\n")

# ---------------------------------------------------------------------------
# semi-supervised (C15)
# ---------------------------------------------------------------------------
_SEMI_APPEND = ("        current_n_nodes = self.subgraph.n_nodes\n        for i, feature in enumerate(X_unlabeled):\n"
                "            if I_unlabeled is not None:\n                node = Node(I_unlabeled[i].item(), 0, feature)\n"
                "            else:\n                node = Node(current_n_nodes + i, 0, feature)\n\n"
                "            self.subgraph.nodes.append(node)\n\n")
M("semi-append-before-prototypes", ["C15", "C02"], SEMI,
  "        self._find_prototypes()\n\n" + _SEMI_APPEND, _SEMI_APPEND + "        self._find_prototypes()\n\n")
M("semi-heap-before-append", ["C15"], SEMI,
  _SEMI_APPEND + "        h = Heap(size=self.subgraph.n_nodes)\n\n",
  "        h = Heap(size=self.subgraph.n_nodes)\n\n" + _SEMI_APPEND)
M("semi-sum-for-max", ["C15", "C11"], SEMI,
  "                        current_cost = np.maximum(h.cost[p], weight)", "                        current_cost = h.cost[p] + weight")
M("semi-nonstrict-accept-and-outer", ["C15"], SEMI,
  "                    if h.cost[p] < h.cost[q]:", "                    if h.cost[p] <= h.cost[q] and q >= 0:")
M("semi-accept-nonstrict-only", ["C15"], SEMI,
  "                        if current_cost < h.cost[q]:", "                        if current_cost <= h.cost[q]:")
M("semi-label-from-p-true", ["C15"], SEMI,
  "                            ].predicted_label = self.subgraph.nodes[p].predicted_label",
  "                            ].predicted_label = self.subgraph.nodes[p].label")
M("semi-skip-last-unlabeled", ["C15"], SEMI,
  "        for i, feature in enumerate(X_unlabeled):", "        for i, feature in enumerate(X_unlabeled[:-1]):")
M("semi-wrong-row", ["C15"], SEMI,
  "                node = Node(current_n_nodes + i, 0, feature)", "                node = Node(current_n_nodes + i, 0, X_unlabeled[0])")
M("semi-graph-from-unlabeled", ["C15"], SEMI,
  "        self.subgraph = Subgraph(X_train, Y_train, I_train)", "        self.subgraph = Subgraph(X_unlabeled, Y_train, I_train)")
M("semi-prototypes-requeued-cost", ["C15", "C02"], SEMI,
  "                h.cost[i] = 0\n                h.insert(i)", "                h.cost[i] = c.EPSILON\n                h.insert(i)")
M("semi-label-store-order", ["~C15"], SEMI,
  "                        current_cost = np.maximum(h.cost[p], weight)", "                        current_cost = np.maximum(weight, h.cost[p])")

# ---------------------------------------------------------------------------
# k-NN prediction (C14, C09)
# ---------------------------------------------------------------------------
_KNN_SCAN_HEAD = "            for j in range(self.subgraph.n_nodes):\n                if self.pre_computed_distance:\n                    distances[best_k] = self.pre_distances[\n                        pred_subgraph.nodes[i].idx\n                    ][self.subgraph.nodes[j].idx]"
M("knnpred-revert-f3", ["C14", "C09"], KNN,
  "            for j in range(self.subgraph.n_nodes):\n                if self.pre_computed_distance:\n                    distances[best_k] = self.pre_distances[\n                        pred_subgraph.nodes[i].idx\n                    ][self.subgraph.nodes[j].idx]\n                else:\n                    distances[best_k] = self.distance_fn(\n                        pred_subgraph.nodes[i].features,\n                        self.subgraph.nodes[j].features,\n                    )\n\n                neighbours_idx[best_k] = j\n                cur_k = best_k\n",
  "            for j in range(self.subgraph.n_nodes):\n                if j == i:\n                    continue\n                if self.pre_computed_distance:\n                    distances[best_k] = self.pre_distances[\n                        pred_subgraph.nodes[i].idx\n                    ][self.subgraph.nodes[j].idx]\n                else:\n                    distances[best_k] = self.distance_fn(\n                        pred_subgraph.nodes[i].features,\n                        self.subgraph.nodes[j].features,\n                    )\n\n                neighbours_idx[best_k] = j\n                cur_k = best_k\n")
M("knnpred-skip-last-train", ["C14"], KNN,
  "            for j in range(self.subgraph.n_nodes):\n                if self.pre_computed_distance:\n                    distances[best_k] = self.pre_distances[\n                        pred_subgraph",
  "            for j in range(self.subgraph.n_nodes - 1):\n                if self.pre_computed_distance:\n                    distances[best_k] = self.pre_distances[\n                        pred_subgraph")
M("knnpred-no-reset", ["C14", "C09"], KNN,
  "            cost = c.FLOAT_MAX * -1\n\n            distances.fill(c.FLOAT_MAX)\n", "            cost = c.FLOAT_MAX * -1\n\n")
M("knnpred-reset-once", ["C14", "C09"], KNN,
  "        for i in range(pred_subgraph.n_nodes):\n            cost = c.FLOAT_MAX * -1\n\n            distances.fill(c.FLOAT_MAX)\n",
  "        distances.fill(c.FLOAT_MAX)\n        for i in range(pred_subgraph.n_nodes):\n            cost = c.FLOAT_MAX * -1\n\n")
M("knnpred-cost-not-reset", ["C14", "C09"], KNN,
  "        for i in range(pred_subgraph.n_nodes):\n            cost = c.FLOAT_MAX * -1\n\n            distances.fill(c.FLOAT_MAX)\n",
  "        cost = c.FLOAT_MAX * -1\n        for i in range(pred_subgraph.n_nodes):\n            distances.fill(c.FLOAT_MAX)\n")
M("knnpred-index-swap-dropped", ["C14"], KNN,
  "                    neighbours_idx[cur_k], neighbours_idx[cur_k - 1] = (\n                        neighbours_idx[cur_k - 1],\n                        neighbours_idx[cur_k],\n                    )\n\n                    cur_k -= 1\n\n            density = 0.0",
  "                    cur_k -= 1\n\n            density = 0.0")
M("knnpred-density-recomputed-constant", ["C14"], KNN,
  "                density += np.exp(-distances[k] / self.subgraph.constant)",
  "                density += np.exp(-distances[k] / (2 * self.subgraph.density / 9 + 1))")
M("knnpred-density-k-plus-1", ["C14"], KNN, "            density /= best_k\n", "            density /= best_k + 1\n")
M("knnpred-no-epsilon-is-different-formula", ["C14"], KNN,
  "                / (self.subgraph.max_density - self.subgraph.min_density + c.EPSILON)\n            ) + 1\n\n            for k in range(best_k):\n                if distances[k] != c.FLOAT_MAX:\n                    neighbour = int(neighbours_idx[k])\n\n                    temp_cost = np.minimum(self.subgraph.nodes[neighbour].cost, density)\n                    if temp_cost > cost:\n                        cost = temp_cost\n\n                        pred_subgraph.nodes[i].predicted_label = self.subgraph.nodes[\n                            neighbour\n                        ].predicted_label\n\n        preds",
  "                / (self.subgraph.max_density + self.subgraph.min_density + c.EPSILON)\n            ) + 1\n\n            for k in range(best_k):\n                if distances[k] != c.FLOAT_MAX:\n                    neighbour = int(neighbours_idx[k])\n\n                    temp_cost = np.minimum(self.subgraph.nodes[neighbour].cost, density)\n                    if temp_cost > cost:\n                        cost = temp_cost\n\n                        pred_subgraph.nodes[i].predicted_label = self.subgraph.nodes[\n                            neighbour\n                        ].predicted_label\n\n        preds")
M("knnpred-argmax-max", ["C14"], KNN,
  "                    temp_cost = np.minimum(self.subgraph.nodes[neighbour].cost, density)\n                    if temp_cost > cost:\n                        cost = temp_cost\n\n                        pred_subgraph.nodes[i].predicted_label = self.subgraph.nodes[\n                            neighbour\n                        ].predicted_label\n\n        preds",
  "                    temp_cost = np.maximum(self.subgraph.nodes[neighbour].cost, density)\n                    if temp_cost > cost:\n                        cost = temp_cost\n\n                        pred_subgraph.nodes[i].predicted_label = self.subgraph.nodes[\n                            neighbour\n                        ].predicted_label\n\n        preds")
M("knnpred-label-outside-accept", ["C14"], KNN,
  "                    if temp_cost > cost:\n                        cost = temp_cost\n\n                        pred_subgraph.nodes[i].predicted_label = self.subgraph.nodes[\n                            neighbour\n                        ].predicted_label\n\n        preds",
  "                    if temp_cost > cost:\n                        cost = temp_cost\n\n                    pred_subgraph.nodes[i].predicted_label = self.subgraph.nodes[\n                        neighbour\n                    ].predicted_label\n\n        preds")
M("knnpred-ranks-skip-first", ["C14"], KNN,
  "            for k in range(best_k):\n                if distances[k] != c.FLOAT_MAX:\n                    neighbour = int(neighbours_idx[k])\n\n                    temp_cost = np.minimum(self.subgraph.nodes[neighbour].cost, density)\n                    if temp_cost > cost:\n                        cost = temp_cost\n\n                        pred_subgraph.nodes[i].predicted_label = self.subgraph.nodes[\n                            neighbour\n                        ].predicted_label\n\n        preds",
  "            for k in range(1, best_k):\n                if distances[k] != c.FLOAT_MAX:\n                    neighbour = int(neighbours_idx[k])\n\n                    temp_cost = np.minimum(self.subgraph.nodes[neighbour].cost, density)\n                    if temp_cost > cost:\n                        cost = temp_cost\n\n                        pred_subgraph.nodes[i].predicted_label = self.subgraph.nodes[\n                            neighbour\n                        ].predicted_label\n\n        preds")
M("unspred-cluster-from-other", ["C14"], UNS,
  "                        pred_subgraph.nodes[i].cluster_label = self.subgraph.nodes[\n                            neighbour\n                        ].cluster_label",
  "                        pred_subgraph.nodes[i].cluster_label = self.subgraph.nodes[\n                            int(neighbours_idx[0])\n                        ].cluster_label")
M("unspred-buffer-short", ["C14"], UNS,
  "        distances = np.zeros(best_k + 1)\n        neighbours_idx = np.zeros(best_k + 1)\n\n        for i in range(pred_subgraph.n_nodes):\n            cost = -c.FLOAT_MAX",
  "        distances = np.zeros(best_k + 1)\n        neighbours_idx = np.zeros(best_k)\n\n        for i in range(pred_subgraph.n_nodes):\n            cost = -c.FLOAT_MAX")
M("unspred-bubble-direction", ["C14"], UNS,
  "                while cur_k > 0 and distances[cur_k] < distances[cur_k - 1]:\n                    distances[cur_k], distances[cur_k - 1] = (\n                        distances[cur_k - 1],\n                        distances[cur_k],\n                    )\n\n                    neighbours_idx[cur_k], neighbours_idx[cur_k - 1] = (\n                        neighbours_idx[cur_k - 1],\n                        neighbours_idx[cur_k],\n                    )\n\n                    cur_k -= 1\n\n            density = 0.0",
  "                while cur_k > 0 and distances[cur_k] > distances[cur_k - 1]:\n                    distances[cur_k], distances[cur_k - 1] = (\n                        distances[cur_k - 1],\n                        distances[cur_k],\n                    )\n\n                    neighbours_idx[cur_k], neighbours_idx[cur_k - 1] = (\n                        neighbours_idx[cur_k - 1],\n                        neighbours_idx[cur_k],\n                    )\n\n                    cur_k -= 1\n\n            density = 0.0")
M("knnpred-accept-nonstrict", ["~C14", "~C09"], KNN,
  "                    if temp_cost > cost:\n                        cost = temp_cost\n\n                        pred_subgraph.nodes[i].predicted_label",
  "                    if temp_cost >= cost:\n                        cost = temp_cost\n\n                        pred_subgraph.nodes[i].predicted_label")
M("knnpred-neg-floatmax-spelling", ["~C14", "~C09"], KNN,
  "            cost = c.FLOAT_MAX * -1\n\n            distances.fill", "            cost = -c.FLOAT_MAX\n\n            distances.fill")

# ---------------------------------------------------------------------------
# ownership / determinism (C07)
# ---------------------------------------------------------------------------
M("dec-revert-f1", ["C07", "C09"], DEC,
  "        x = x + c.EPSILON\n        y = y + c.EPSILON\n", "        x += c.EPSILON\n        y += c.EPSILON\n")
M("dec-inplace-add-out", ["C07"], DEC,
  "        x = x + c.EPSILON\n", "        x = np.add(x, c.EPSILON, out=x)\n")
M("metric-inplace-sub", ["C07"], DIST,
  "    dist = np.fabs(x - y)\n\n    return np.amax(dist)", "    x -= y\n    dist = np.fabs(x)\n\n    return np.amax(dist)")
M("metric-elem-store", ["C07"], DIST,
  "    dist = np.zeros(x.shape[0])\n\n    # Creates a binary mask", "    dist = np.zeros(x.shape[0])\n    x[0] = x[0] + 0.0\n\n    # Creates a binary mask")
M("node-normalises-features-inplace", ["C07"], NODE,
  "        self.features = np.asarray(features)\n", "        self.features = np.asarray(features)\n        self.features -= 0.0\n")
M("build-sorts-rows", ["C07"], SUBG,
  "        for i, (feature, label) in enumerate(zip(X, Y)):\n", "        for i, (feature, label) in enumerate(zip(X, Y)):\n            feature.sort()\n")
M("fit-shuffles-input", ["C07"], SUP,
  "        self.subgraph = Subgraph(X_train, Y_train, I=I_train)\n", "        np.random.shuffle(X_train)\n        self.subgraph = Subgraph(X_train, Y_train, I=I_train)\n")
M("predict-centers-queries", ["C07"], KNN,
  "        pred_subgraph = KNNSubgraph(X_test, I=I_test)\n", "        X_test -= X_test.mean(axis=0)\n        pred_subgraph = KNNSubgraph(X_test, I=I_test)\n")
M("metric-call-counter", ["C07"], DIST,
  "    dist = (x - y) ** 2\n\n    return np.sum(dist) ** 0.5\n\n\n@njit(cache=True)\ndef gaussian",
  "    global _CALLS\n    _CALLS = 1\n    dist = (x - y) ** 2\n\n    return np.sum(dist) ** 0.5\n\n\n@njit(cache=True)\ndef gaussian")
M("registry-mutated", ["C07"], OPFC,
  "        self.distance_fn = d.DISTANCES[distance]\n", "        d.DISTANCES[distance] = d.DISTANCES[distance]\n        self.distance_fn = d.DISTANCES[distance]\n")
M("fit-random-tiebreak", ["C07"], SUP,
  "        h = Heap(self.subgraph.n_nodes)\n\n        self.subgraph.nodes[0].pred = c.NIL\n\n        h.insert(0)",
  "        h = Heap(self.subgraph.n_nodes)\n        start = int(np.random.randint(0, 1))\n\n        self.subgraph.nodes[start].pred = c.NIL\n\n        h.insert(start)")
M("fit-time-in-state", ["C07"], SUP,
  "        train_time = end - start\n\n        logger.info(\"Classifier has been fitted.\")",
  "        train_time = end - start\n        self.subgraph.nodes[0].radius = train_time\n\n        logger.info(\"Classifier has been fitted.\")")
M("dec-copy-then-inplace", ["~C07", "~C09"], DEC,
  "        x = x + c.EPSILON\n        y = y + c.EPSILON\n", "        x = x.copy()\n        x += c.EPSILON\n        y = y + c.EPSILON\n")
M("metric-local-inplace", ["~C07", "~C06", "~C08"], DIST,
  "    dist = np.fabs(x - y)\n\n    return np.amax(dist)", "    dist = x - y\n    dist = np.fabs(dist)\n\n    return np.amax(dist)")

# ---------------------------------------------------------------------------
# non-interference (C09)
# ---------------------------------------------------------------------------
M("pred-writes-model-cost", ["C09"], SUP,
  "                    min_cost = temp_min_cost\n                    conqueror = l\n",
  "                    min_cost = temp_min_cost\n                    self.subgraph.nodes[l].cost = temp_min_cost\n                    conqueror = l\n")
M("pred-caches-label-on-model", ["C09"], SUP,
  "            pred_subgraph.nodes[i].predicted_label = current_label\n",
  "            pred_subgraph.nodes[i].predicted_label = current_label\n            self.subgraph.nodes[conqueror].predicted_label = current_label\n")
M("mark-nodes-cuts-path", ["C09", "C17"], SUBG,
  "            self.nodes[i].relevant = c.RELEVANT\n            i = self.nodes[i].pred\n",
  "            self.nodes[i].relevant = c.RELEVANT\n            j = self.nodes[i].pred\n            self.nodes[i].pred = c.NIL\n            i = j\n")
M("pred-label-sticky", ["C09", "C03"], SUP,
  "            # The current label will be `k` node's predicted label\n            current_label = self.subgraph.nodes[k].predicted_label\n",
  "            if i == 0:\n                current_label = self.subgraph.nodes[k].predicted_label\n")
M("unspred-reads-unfilled-slot", ["C09", "C14"], UNS,
  "            for k in range(best_k):\n                if distances[k] != c.FLOAT_MAX:\n                    neighbour = int(neighbours_idx[k])\n",
  "            for k in range(best_k):\n                if True:\n                    neighbour = int(neighbours_idx[k])\n")
M("knnpred-buffers-inside-loop", ["~C09", "~C14"], KNN,
  "            cost = c.FLOAT_MAX * -1\n\n            distances.fill(c.FLOAT_MAX)\n",
  "            cost = c.FLOAT_MAX * -1\n\n            distances.fill(c.FLOAT_MAX)\n            neighbours_idx.fill(0)\n")

# ---------------------------------------------------------------------------
# metrics (C06, C08, C11)
# ---------------------------------------------------------------------------
M("chord-revert-f2", ["C08", "C04"], DIST, "    return max(dist, 0.0) ** 0.5", "    return dist**0.5")
M("gower-hardcoded-dim", ["C06"], DIST, "    return np.sum(dist) / x.shape[0]", "    return np.sum(dist) / 4")
M("canberra-fabs-dropped", ["C06", "C08"], DIST,
  "    dist = np.fabs(x - y) / (np.fabs(x) + np.fabs(y))", "    dist = (x - y) / (np.fabs(x) + np.fabs(y))")
M("chi-squared-constant", ["C06"], DIST, "    return 0.5 * np.sum(dist)\n\n\n@d.avoid_zero_division\n@njit(cache=True)\ndef chord",
  "    return 1.0 * np.sum(dist)\n\n\n@d.avoid_zero_division\n@njit(cache=True)\ndef chord")
M("registry-swapped", ["C06"], DIST,
  "    \"neyman\": neyman_distance,", "    \"neyman\": pearson_distance,")
M("chebyshev-sum-for-max", ["C06"], DIST, "    return np.amax(dist)", "    return np.sum(dist)")
M("hassanat-branch-edited", ["C06"], DIST,
  "            dist[i] = 1 - (1 + np.minimum(x[i], y[i])) / (1 + np.maximum(x[i], y[i]))",
  "            dist[i] = 1 - (1 + np.minimum(x[i], y[i])) / (2 + np.maximum(x[i], y[i]))")
M("lorentzian-plus-two", ["C06", "C08"], DIST, "    dist = np.log(1 + np.fabs(x - y))", "    dist = np.log(2 + np.fabs(x - y))")
M("squared-decorator-removed", ["C06", "C08"], DIST,
  "@d.avoid_zero_division\n@njit(cache=True)\ndef squared_distance", "@njit(cache=True)\ndef squared_distance")
M("whitelist-entry-dropped", ["C06"], OPFC, "            \"vicis_symmetric3\",\n            \"vicis_wave_hedges\",\n        ]:",
  "            \"vicis_symmetric3\",\n        ]:")
M("registry-entry-dropped", ["C06"], DIST, "    \"vicis_wave_hedges\": vicis_wave_hedges_distance,\n", "")
M("knn-ctor-hardcodes-distance", ["C06"], KNN,
  "        super(KNNSupervisedOPF, self).__init__(distance, pre_computed_distance)",
  "        super(KNNSupervisedOPF, self).__init__(\"log_squared_euclidean\", pre_computed_distance)")
M("opf-lookup-default", ["C06"], OPFC, "        self.distance_fn = d.DISTANCES[distance]",
  "        self.distance_fn = d.DISTANCES[\"log_squared_euclidean\"]")
M("kl-args-swapped", ["C06"], DIST, "    dist = x * np.log(x / y)\n\n    return np.sum(dist)\n\n\n@njit(cache=True)\ndef log_euclidean",
  "    dist = y * np.log(y / x)\n\n    return np.sum(dist)\n\n\n@njit(cache=True)\ndef log_euclidean")
M("bray-curtis-asymmetric", ["C06", "C08"], DIST, "    dist = np.sum(np.fabs(x - y)) / np.sum(x + y)", "    dist = np.sum(np.fabs(x - y)) / np.sum(x + x)")
M("hellinger-missing-two", ["C06"], DIST, "    dist = 2 * (x**0.5 - y**0.5) ** 2", "    dist = (x**0.5 - y**0.5) ** 2")
M("cosine-offset", ["C06", "C08"], DIST,
  "    dist = 1 - (np.sum(x * y) / (np.sum(x**2) ** 0.5 * np.sum(y**2) ** 0.5))\n\n    return dist",
  "    dist = 1.5 - (np.sum(x * y) / (np.sum(x**2) ** 0.5 * np.sum(y**2) ** 0.5))\n\n    return dist")
M("euclid-log-of-difference", ["C08"], DIST,
  "    dist = euclidean_distance(x, y)\n\n    return c.MAX_ARC_WEIGHT * math.log(dist + 1)",
  "    dist = euclidean_distance(x, y)\n\n    return c.MAX_ARC_WEIGHT * math.log(dist + 1 - 1e-12)")
M("log-sq-euclid-not-monotone", ["C11", "C06"], DIST,
  "    dist = squared_euclidean_distance(x, y)\n\n    return c.MAX_ARC_WEIGHT * math.log(dist + 1)",
  "    dist = squared_euclidean_distance(x, y)\n\n    return c.MAX_ARC_WEIGHT * math.log(dist + 1) - dist")
M("avg-euclid-plus-const", ["C11", "C06", "C08"], DIST,
  "    return (dist / x.shape[0]) ** 0.5\n", "    return (dist / x.shape[0]) ** 0.5 + 1\n")
M("max-arc-weight-negative", ["C11"], CONST, "MAX_ARC_WEIGHT = 100000", "MAX_ARC_WEIGHT = -100000")
# benign rewrites
M("sangvi-sum-of-double", ["~C06", "~C08"], DIST,
  "    dist = (x - y) ** 2 / (x + y)\n\n    return 2 * np.sum(dist)", "    dist = 2 * (x - y) ** 2 / (x + y)\n\n    return np.sum(dist)")
M("euclid-swapped-difference", ["~C06", "~C08", "~C11"], DIST,
  "    dist = (x - y) ** 2\n\n    return np.sum(dist) ** 0.5\n\n\n@njit(cache=True)\ndef gaussian",
  "    dist = (y - x) ** 2\n\n    return np.sum(dist) ** 0.5\n\n\n@njit(cache=True)\ndef gaussian")
M("kl-log-difference", ["~C06", "~C08"], DIST,
  "    dist = x * np.log(x / y)\n\n    return np.sum(dist)\n\n\n@njit(cache=True)\ndef log_euclidean",
  "    dist = x * (np.log(x) - np.log(y))\n\n    return np.sum(dist)\n\n\n@njit(cache=True)\ndef log_euclidean")
M("manhattan-np-abs", ["~C06", "~C08"], DIST,
  "    dist = np.fabs(x - y)\n\n    return np.sum(dist)\n\n\n@njit(cache=True)\ndef matusita",
  "    dist = np.abs(y - x)\n\n    return np.sum(dist)\n\n\n@njit(cache=True)\ndef matusita")

# ---------------------------------------------------------------------------
# pre-computed distances (C10)
# ---------------------------------------------------------------------------
M("sel-idx-dropped", ["C10"], SUP,
  "                            weight = self.pre_distances[self.subgraph.nodes[p].idx][\n                                self.subgraph.nodes[q].idx\n                            ]\n                        else:\n                            weight = self.distance_fn(\n                                self.subgraph.nodes[p].features,\n                                self.subgraph.nodes[q].features,\n                            )\n\n                        if weight < h.cost[q]:",
  "                            weight = self.pre_distances[p][\n                                self.subgraph.nodes[q].idx\n                            ]\n                        else:\n                            weight = self.distance_fn(\n                                self.subgraph.nodes[p].features,\n                                self.subgraph.nodes[q].features,\n                            )\n\n                        if weight < h.cost[q]:")
M("sel-predict-transposed", ["C10"], SUP,
  "                weight = self.pre_distances[self.subgraph.nodes[k].idx][\n                    pred_subgraph.nodes[i].idx\n                ]",
  "                weight = self.pre_distances[pred_subgraph.nodes[i].idx][\n                    self.subgraph.nodes[k].idx\n                ]")
M("sel-predict-wrong-node", ["C10"], SUP,
  "                    weight = self.pre_distances[self.subgraph.nodes[l].idx][\n                        pred_subgraph.nodes[i].idx\n                    ]",
  "                    weight = self.pre_distances[self.subgraph.nodes[k].idx][\n                        pred_subgraph.nodes[i].idx\n                    ]")
M("sel-flag-inverted", ["C10"], KSUB,
  "                if pre_computed_distance:\n                    distance = pre_distances[self.nodes[i].idx][self.nodes[j].idx]\n\n                else:",
  "                if not pre_computed_distance:\n                    distance = pre_distances[self.nodes[i].idx][self.nodes[j].idx]\n\n                else:")
M("sel-createarcs-self-pair", ["C10"], KSUB,
  "                        distances[k] = pre_distances[self.nodes[i].idx][\n                            self.nodes[j].idx\n                        ]",
  "                        distances[k] = pre_distances[self.nodes[i].idx][\n                            self.nodes[i].idx\n                        ]")
M("sel-cut-uses-train-pos", ["C10"], UNS,
  "                    distance = self.pre_distances[self.subgraph.nodes[i].idx][\n                        self.subgraph.nodes[j].idx\n                    ]",
  "                    distance = self.pre_distances[i][j]")
M("knn-forward-swapped", ["C10"], KNN,
  "        self.subgraph.create_arcs(\n            self.subgraph.best_k,\n            self.distance_fn,\n            self.pre_computed_distance,\n            self.pre_distances,\n        )",
  "        self.subgraph.create_arcs(\n            self.subgraph.best_k,\n            self.distance_fn,\n            False,\n            self.pre_distances,\n        )")
M("build-ignores-index", ["C10"], SUBG,
  "                node = Node(I[i].item(), label.item(), feature)", "                node = Node(i, label.item(), feature)")
M("build-index-off-by-one", ["C10"], SUBG,
  "                node = Node(I[i].item(), label.item(), feature)", "                node = Node(I[i - 1].item(), label.item(), feature)")
M("fit-drops-index", ["C10"], SUP,
  "        self.subgraph = Subgraph(X_train, Y_train, I=I_train)", "        self.subgraph = Subgraph(X_train, Y_train)")
M("predict-uses-train-index", ["C10"], UNS,
  "        pred_subgraph = KNNSubgraph(X_val, I=I_val)", "        pred_subgraph = KNNSubgraph(X_val, I=None)")
M("semi-revert-n1", ["C10"], SEMI,
  "            if I_unlabeled is not None:\n                node = Node(I_unlabeled[i].item(), 0, feature)\n            else:\n                node = Node(current_n_nodes + i, 0, feature)\n",
  "            node = Node(current_n_nodes + i, 0, feature)\n")
M("precompute-transposed", ["C10"], GEN,
  "            distances[i][j] = d.DISTANCES[distance](data[i], data[j])", "            distances[j][i] = d.DISTANCES[distance](data[i], data[j])")
M("precompute-upper-only", ["C10"], GEN,
  "        for j in range(size):\n            distances[i][j] = d.DISTANCES", "        for j in range(i, size):\n            distances[i][j] = d.DISTANCES")
M("precompute-revert-f4", ["C10"], GEN,
  "    np.savetxt(output, distances, delimiter=delimiter)", "    np.savetxt(output, distances)")
M("precompute-lossy-fmt", ["C10"], GEN,
  "    np.savetxt(output, distances, delimiter=delimiter)", "    np.savetxt(output, distances, delimiter=delimiter, fmt=\"%.6f\")")
M("loader-csv-semicolon", ["C10", "C18"], LOAD, "        csv = np.loadtxt(csv_path, delimiter=\",\")", "        csv = np.loadtxt(csv_path, delimiter=\";\")")
M("get-distances-normalize-by-max", ["C10"], OPFC,
  "            return (distances - distances.min()) / (\n                distances.max() - distances.min()\n            )",
  "            return (distances - distances.min()) / (\n                distances.max()\n            )")
M("get-distances-swapped-pair", ["C10"], OPFC,
  "                distances[i][j] = self.distance_fn(\n                    self.subgraph.nodes[i].features, self.subgraph.nodes[j].features\n                )",
  "                distances[i][j] = self.distance_fn(\n                    self.subgraph.nodes[j].features, self.subgraph.nodes[i].features\n                )")
M("precompute-delimiter-conditional-flipped", ["~C10"], GEN,
  "    delimiter = \",\" if output.split(\".\")[-1] == \"csv\" else \" \"", "    delimiter = \" \" if output.split(\".\")[-1] != \"csv\" else \",\"")
M("precompute-explicit-fmt-18e", ["~C10"], GEN,
  "    np.savetxt(output, distances, delimiter=delimiter)", "    np.savetxt(output, distances, delimiter=delimiter, fmt=\"%.18e\")")

# ---------------------------------------------------------------------------
# k-NN graph and density (C12)
# ---------------------------------------------------------------------------
M("arcs-revert-f7", ["C12"], KSUB, "        max_distances = np.zeros(k)\n\n        self.density = 0.0\n", "        max_distances = np.zeros(k)\n")
M("arcs-radius-not-reset", ["C12"], KSUB, "            self.nodes[i].radius = 0.0\n            self.nodes[i].n_plateaus = 0\n", "            self.nodes[i].n_plateaus = 0\n")
M("arcs-no-self-skip", ["C12"], KSUB,
  "            for j in range(self.n_nodes):\n                if j != i:\n                    if pre_computed_distance:\n                        distances[k] = pre_distances",
  "            for j in range(self.n_nodes):\n                if True:\n                    if pre_computed_distance:\n                        distances[k] = pre_distances")
M("arcs-readout-skips-rank0", ["C12"], KSUB, "            for l in range(k - 1, -1, -1):", "            for l in range(k - 1, 0, -1):")
M("arcs-append-on-descending", ["C12"], KSUB,
  "                    self.nodes[i].adjacency.insert(0, neighbours_idx[l])", "                    self.nodes[i].adjacency.append(neighbours_idx[l])")
M("arcs-radius-min", ["C12"], KSUB,
  "                    if distances[l] > self.nodes[i].radius:", "                    if distances[l] < self.nodes[i].radius:")
M("arcs-maxima-wrong-rank", ["C12"], KSUB,
  "                    if distances[l] > max_distances[l]:\n                        max_distances[l] = distances[l]",
  "                    if distances[l] > max_distances[l]:\n                        max_distances[0] = distances[l]")
M("arcs-fallback-inside-loop", ["C12"], KSUB,
  "        if self.density < 0.00001:\n            self.density = 1\n\n        return max_distances",
  "            if self.density < 0.00001:\n                self.density = 1\n\n        return max_distances")
M("arcs-index-from-distance-slot", ["C12"], KSUB,
  "                    neighbours_idx[k] = j\n                    cur_k = k", "                    neighbours_idx[k - 1] = j\n                    cur_k = k")
M("arcs-no-valid-guard", ["C12"], KSUB,
  "            for l in range(k - 1, -1, -1):\n                if distances[l] != c.FLOAT_MAX:", "            for l in range(k - 1, -1, -1):\n                if True:")
M("pdf-constant-changed", ["C12"], KSUB, "        self.constant = 2 * self.density / 9", "        self.constant = 2 * self.density / 3")
M("pdf-divide-by-k", ["C12"], KSUB, "            n_pdf = 1\n", "            n_pdf = 0\n")
M("pdf-cost-is-density", ["C12"], KSUB,
  "                self.nodes[i].cost = self.nodes[i].density - 1", "                self.nodes[i].cost = self.nodes[i].density")
M("pdf-minmax-before-division", ["C12"], KSUB,
  "            pdf[i] /= n_pdf\n\n            if pdf[i] < self.min_density:\n                self.min_density = pdf[i]\n            if pdf[i] > self.max_density:\n                self.max_density = pdf[i]\n",
  "            if pdf[i] < self.min_density:\n                self.min_density = pdf[i]\n            if pdf[i] > self.max_density:\n                self.max_density = pdf[i]\n\n            pdf[i] /= n_pdf\n")
M("arcs-maxdist-empty", ["C07", "C12"], KSUB, "        max_distances = np.zeros(k)\n", "        max_distances = np.empty(k)\n")
M("arcs-scratch-empty", ["~C07", "~C12"], KSUB, "        distances = np.zeros(k + 1)\n", "        distances = np.empty(k + 1)\n")
M("arcs-drop-zero-length", ["C12"], KSUB, "                if distances[l] != c.FLOAT_MAX:\n", "                if 0 < distances[l] < c.FLOAT_MAX:\n")
M("arcs-valid-lt", ["~C12"], KSUB, "                if distances[l] != c.FLOAT_MAX:\n", "                if distances[l] < c.FLOAT_MAX:\n")
M("pdf-max-sentinel-zero", ["C12"], KSUB, "        self.max_density = -c.FLOAT_MAX", "        self.max_density = 0.0")
M("pdf-neighbour-of-neighbour", ["C12", "C10"], KSUB,
  "                    distance = distance_function(\n                        self.nodes[i].features, self.nodes[j].features\n                    )",
  "                    distance = distance_function(\n                        self.nodes[j].features, self.nodes[j].features\n                    )")
M("pdf-equal-case-cost", ["C12"], KSUB,
  "                self.nodes[i].density = c.MAX_DENSITY\n                self.nodes[i].cost = c.MAX_DENSITY - 1",
  "                self.nodes[i].density = c.MAX_DENSITY\n                self.nodes[i].cost = c.MAX_DENSITY")
M("elim-guard-nonneg", ["C12"], KSUB, "        if height > 0:", "        if height >= -1:")
M("elim-no-clamp", ["C12"], KSUB,
  "                self.nodes[i].cost = np.maximum(self.nodes[i].density - height, 0)", "                self.nodes[i].cost = self.nodes[i].density - height")
M("knn-learn-no-destroy", ["C12"], KNN, "            logger.info(\"Accuracy over k = %d: %s\", k, acc)\n\n            self.subgraph.destroy_arcs()\n",
  "            logger.info(\"Accuracy over k = %d: %s\", k, acc)\n")
M("arcs-ascending-append", ["~C12"], KSUB,
  "            for l in range(k - 1, -1, -1):\n                if distances[l] != c.FLOAT_MAX:\n                    if distances[l] > self.density:\n                        self.density = distances[l]\n                    if distances[l] > self.nodes[i].radius:\n                        self.nodes[i].radius = distances[l]\n                    if distances[l] > max_distances[l]:\n                        max_distances[l] = distances[l]\n\n                    self.nodes[i].adjacency.insert(0, neighbours_idx[l])",
  "            for l in range(k):\n                if distances[l] != c.FLOAT_MAX:\n                    if distances[l] > self.density:\n                        self.density = distances[l]\n                    if distances[l] > self.nodes[i].radius:\n                        self.nodes[i].radius = distances[l]\n                    if distances[l] > max_distances[l]:\n                        max_distances[l] = distances[l]\n\n                    self.nodes[i].adjacency.append(neighbours_idx[l])")
M("pdf-constant-rewritten", ["~C12"], KSUB, "        self.constant = 2 * self.density / 9", "        self.constant = self.density * (2 / 9)")

# ---------------------------------------------------------------------------
# k selection (C16)
# ---------------------------------------------------------------------------
M("learn-revert-f5", ["C16"], KNN, "        max_acc = -1.0\n", "        max_acc = 0.0\n")
M("learn-nonstrict", ["C16"], KNN, "            if acc > max_acc:\n                max_acc = acc\n                best_k = k",
  "            if acc >= max_acc:\n                max_acc = acc\n                best_k = k")
M("learn-range-excludes-max", ["C16"], KNN, "        for k in range(1, self.max_k + 1):", "        for k in range(1, self.max_k):")
M("learn-swapped-accuracy-args", ["C16"], KNN, "            acc = g.opf_accuracy(Y_val, preds)", "            acc = g.opf_accuracy(preds, Y_val)")
M("learn-train-accuracy", ["C16"], KNN, "            preds = self.predict(X_val, I_val)\n\n            acc = g.opf_accuracy(Y_val, preds)",
  "            preds = self.predict(X_train, I_train)\n\n            acc = g.opf_accuracy(Y_train, preds)")
M("learn-bestk-not-updated", ["C16"], KNN, "                max_acc = acc\n                best_k = k\n", "                max_acc = acc\n            best_k = k\n")
M("learn-pdf-stale-k", ["C16"], KNN,
  "            self.subgraph.calculate_pdf(\n                k, self.distance_fn, self.pre_computed_distance, self.pre_distances\n            )\n\n            self._clustering()",
  "            self.subgraph.calculate_pdf(\n                1, self.distance_fn, self.pre_computed_distance, self.pre_distances\n            )\n\n            self._clustering()")
M("learn-final-uses-max-k", ["C16"], KNN,
  "        self.subgraph.create_arcs(\n            self.subgraph.best_k,\n            self.distance_fn,", "        self.subgraph.create_arcs(\n            self.max_k,\n            self.distance_fn,")
M("learn-install-last-k", ["C16"], KNN, "        self.subgraph.best_k = best_k\n\n    def fit(", "        self.subgraph.best_k = k\n\n    def fit(")
M("learn-predict-before-cluster", ["C16"], KNN,
  "            self._clustering()\n\n            preds = self.predict(X_val, I_val)\n", "            preds = self.predict(X_val, I_val)\n\n            self._clustering()\n")
M("cut-nonstrict", ["C16"], UNS, "                if cut < min_cut:", "                if cut <= min_cut:")
M("cut-sentinel-zero", ["C16"], UNS, "        min_cut = c.FLOAT_MAX\n", "        min_cut = 0.0\n")
M("cut-range-off", ["C16"], UNS, "        for k in range(min_k, max_k + 1):", "        for k in range(min_k + 1, max_k + 1):")
M("cut-stop-when-small", ["C16"], UNS, "            if min_cut != 0.0:", "            if min_cut > 0.5:")
M("cut-density-rank-shift", ["C16"], UNS, "                self.subgraph.density = max_distances[k - 1]", "                self.subgraph.density = max_distances[k - 2]")
M("cut-clustering-stale-k", ["C16"], UNS, "                self._clustering(k)\n\n                cut = self._normalized_cut(k)",
  "                self._clustering(min_k)\n\n                cut = self._normalized_cut(k)")
M("cut-final-max-k", ["C16"], UNS, "        self.subgraph.best_k = best_k\n\n        self.subgraph.create_arcs(\n            best_k,",
  "        self.subgraph.best_k = best_k\n\n        self.subgraph.create_arcs(\n            max_k,")
M("fit-final-clustering-min-k", ["C16"], UNS, "        self._clustering(self.subgraph.best_k)\n", "        self._clustering(self.min_k)\n")
M("learn-bestk-preinit", ["~C16"], KNN, "        max_acc = -1.0\n", "        max_acc = 0.0\n        best_k = 1\n")

# ---------------------------------------------------------------------------
# learn / relevance / prune (C17)
# ---------------------------------------------------------------------------
M("learn-revert-view-swap", ["C17"], SUP,
  "                        X_train[j, :], X_val[err, :] = (\n                            X_val[err, :].copy(),\n                            X_train[j, :].copy(),\n                        )",
  "                        X_train[j, :], X_val[err, :] = X_val[err, :], X_train[j, :]")
M("learn-copy-only-first", ["C17"], SUP,
  "                            X_val[err, :].copy(),\n                            X_train[j, :].copy(),\n",
  "                            X_val[err, :].copy(),\n                            X_train[j, :],\n")
M("learn-revert-self-rebind", ["C17"], SUP, "                self.__dict__.update(best_opf.__dict__)", "                self = best_opf")
M("learn-snapshot-after-exchange", ["C17"], SUP,
  '            if acc > max_acc:\n                max_acc = acc\n                best_opf = copy.deepcopy(self)\n                best_t = t\n\n            errors = np.argwhere(Y_val != preds).flatten()\n\n            non_prototypes = 0\n            for n in self.subgraph.nodes:\n                if n.status != c.PROTOTYPE:\n                    non_prototypes += 1\n\n            for err in errors:\n                ctr = non_prototypes\n\n                while ctr > 0:\n                    j = int(r.generate_uniform_random_number(0, len(X_train))[0])\n\n                    if self.subgraph.nodes[j].status != c.PROTOTYPE:\n                        X_train[j, :], X_val[err, :] = (\n                            X_val[err, :].copy(),\n                            X_train[j, :].copy(),\n                        )\n                        Y_train[j], Y_val[err] = Y_val[err], Y_train[j]\n\n                        non_prototypes -= 1\n                        ctr = 0\n\n                    else:\n                        ctr -= 1\n\n',
  '            errors = np.argwhere(Y_val != preds).flatten()\n\n            non_prototypes = 0\n            for n in self.subgraph.nodes:\n                if n.status != c.PROTOTYPE:\n                    non_prototypes += 1\n\n            for err in errors:\n                ctr = non_prototypes\n\n                while ctr > 0:\n                    j = int(r.generate_uniform_random_number(0, len(X_train))[0])\n\n                    if self.subgraph.nodes[j].status != c.PROTOTYPE:\n                        X_train[j, :], X_val[err, :] = (\n                            X_val[err, :].copy(),\n                            X_train[j, :].copy(),\n                        )\n                        Y_train[j], Y_val[err] = Y_val[err], Y_train[j]\n\n                        non_prototypes -= 1\n                        ctr = 0\n\n                    else:\n                        ctr -= 1\n\n            if acc > max_acc:\n                max_acc = acc\n                best_opf = copy.deepcopy(self)\n                best_t = t\n\n')
M("learn-revert-sentinel", ["C17"], SUP, "        max_acc = -1\n", "        max_acc = 0\n")
M("learn-revert-int-array", ["C17"], SUP,
  "                    j = int(r.generate_uniform_random_number(0, len(X_train))[0])", "                    j = int(r.generate_uniform_random_number(0, len(X_train)))")
M("learn-revert-argwhere", ["C17"], SUP, "            errors = np.argwhere(Y_val != preds).flatten()", "            errors = np.argwhere(Y_val != preds)")
M("learn-labels-one-way", ["C17"], SUP,
  "                        Y_train[j], Y_val[err] = Y_val[err], Y_train[j]", "                        Y_train[j] = Y_val[err]")
M("learn-label-rows-mismatch", ["C17"], SUP,
  "                        Y_train[j], Y_val[err] = Y_val[err], Y_train[j]", "                        Y_train[j], Y_val[err] = Y_val[err], Y_train[j - 1]")
M("learn-snapshot-alias", ["C17"], SUP, "                best_opf = copy.deepcopy(self)", "                best_opf = self")
M("learn-keeps-worst", ["C17"], SUP, "            if acc > max_acc:\n                max_acc = acc\n                best_opf",
  "            if acc < max_acc:\n                max_acc = acc\n                best_opf")
M("learn-install-last", ["C17"], SUP, "                self.__dict__.update(best_opf.__dict__)", "                self.__dict__.update(self.__dict__)")
M("predict-revert-f6", ["C17"], SUP, "            k = self.subgraph.idx_nodes[j]\n            conqueror = k\n", "            k = self.subgraph.idx_nodes[j]\n            conqueror = -1\n")
M("predict-conqueror-stale", ["C17"], SUP, "                    conqueror = l\n", "                    conqueror = k\n")
M("predict-mark-skipped-for-protos", ["C17"], SUP,
  "            if conqueror > -1:\n                self.subgraph.mark_nodes(conqueror)",
  "            if conqueror > -1 and self.subgraph.nodes[conqueror].pred != c.NIL:\n                self.subgraph.mark_nodes(conqueror)")
M("mark-nodes-skips-root", ["C17"], SUBG,
  "            i = self.nodes[i].pred\n\n        self.nodes[i].relevant = c.RELEVANT\n", "            i = self.nodes[i].pred\n")
M("mark-nodes-skips-start", ["C17"], SUBG,
  "        while self.nodes[i].pred != c.NIL:\n            self.nodes[i].relevant = c.RELEVANT\n            i = self.nodes[i].pred\n",
  "        while self.nodes[i].pred != c.NIL:\n            i = self.nodes[i].pred\n            self.nodes[i].relevant = c.RELEVANT\n")
M("prune-label-other-row", ["C17"], SUP, "                    Y_temp.append(Y_train[j])", "                    Y_temp.append(Y_train[j - 1])")
M("prune-keeps-irrelevant", ["C17"], SUP, "                if n.relevant != c.IRRELEVANT:", "                if n.relevant == c.IRRELEVANT:")
M("prune-lists-not-reset", ["C17"], SUP,
  "        for t in range(n_iterations):\n            logger.info(\"Running iteration %d/%d ...\", t + 1, n_iterations)\n\n            X_temp, Y_temp = [], []\n",
  "        X_temp, Y_temp = [], []\n        for t in range(n_iterations):\n            logger.info(\"Running iteration %d/%d ...\", t + 1, n_iterations)\n\n")
M("prune-label-unconditional", ["C17"], SUP,
  "                    X_temp.append(X_train[j, :])\n                    Y_temp.append(Y_train[j])", "                    X_temp.append(X_train[j, :])\n                Y_temp.append(Y_train[j])")
M("learn-np-copy", ["~C17"], SUP,
  "                            X_val[err, :].copy(),\n                            X_train[j, :].copy(),\n",
  "                            np.copy(X_val[err, :]),\n                            np.copy(X_train[j, :]),\n")

# ---------------------------------------------------------------------------
# stream utilities (C18)
# ---------------------------------------------------------------------------
M("split-second-permutation", ["C18"], SPLIT,
  "    X_1, X_2 = X[idx[:halt], :], X[idx[halt:], :]\n    Y_1, Y_2 = Y[idx[:halt]], Y[idx[halt:]]",
  "    X_1, X_2 = X[idx[:halt], :], X[idx[halt:], :]\n    idx = np.random.permutation(X.shape[0])\n    Y_1, Y_2 = Y[idx[:halt]], Y[idx[halt:]]")
M("split-overlap", ["C18"], SPLIT,
  "    I_1, I_2 = idx[:halt], idx[halt:]", "    I_1, I_2 = idx[:halt], idx[halt - 1:]")
M("split-seed-after-draw", ["C18"], SPLIT,
  "    np.random.seed(random_state)\n\n    if X.shape[0] != Y.shape[0]:\n        raise e.SizeError(\"`X` and `Y` should have the same amount of samples\")\n\n    idx = np.random.permutation(X.shape[0])\n    halt = int(len(X) * percentage)\n\n    X_1, X_2 = X[idx[:halt], :], X[idx[halt:], :]",
  "    if X.shape[0] != Y.shape[0]:\n        raise e.SizeError(\"`X` and `Y` should have the same amount of samples\")\n\n    idx = np.random.permutation(X.shape[0])\n    np.random.seed(random_state)\n    halt = int(len(X) * percentage)\n\n    X_1, X_2 = X[idx[:halt], :], X[idx[halt:], :]")
M("split-halt-rounds-up", ["C18"], SPLIT,
  "    halt = int(len(X) * percentage)\n\n    X_1, X_2 = X[idx[:halt], :], X[idx[halt:], :]", "    halt = int(len(X) * percentage + 0.5)\n\n    X_1, X_2 = X[idx[:halt], :], X[idx[halt:], :]")
M("split-labels-unpermuted", ["C18"], SPLIT,
  "    Y_1, Y_2 = Y[idx[:halt]], Y[idx[halt:]]", "    Y_1, Y_2 = Y[:halt], Y[halt:]")
M("split-index-sorted", ["C18"], SPLIT, "    I_1, I_2 = idx[:halt], idx[halt:]\n    X_1, X_2 = X[I_1, :], X[I_2, :]",
  "    I_1, I_2 = idx[:halt], idx[halt:]\n    X_1, X_2 = X[np.sort(I_1), :], X[I_2, :]")
M("merge-labels-reversed", ["C18"], SPLIT, "    Y = np.hstack((Y_1, Y_2))", "    Y = np.hstack((Y_2, Y_1))")
M("parser-features-from-col1", ["C18"], PARSE, "        X = data[:, 2:]", "        X = data[:, 1:]")
M("parser-check-dropped", ["C18"], PARSE, "        if len(counts) != (np.max(Y) + 1):", "        if len(counts) > (np.max(Y) + 1):")
M("conv-csv-label-not-shifted", ["C18"], CONV,
  "            samples.append((data[0], data[1] - 1, *data[2:]))\n\n    if not output_file:\n        output_file = opf_path.split(\".\")[0] + \".csv\"",
  "            samples.append((data[0], data[1], *data[2:]))\n\n    if not output_file:\n        output_file = opf_path.split(\".\")[0] + \".csv\"")
M("conv-json-features-skip-one", ["C18"], CONV, "\"features\": list(data[2:])}", "\"features\": list(data[3:])}")
M("conv-txt-features-from-header1", ["C18"], CONV,
  "        n_samples = header_data[0]\n        n_features = header_data[2]\n\n        file_format = \"<ii\"\n        for _ in range(n_features):\n            file_format += \"f\"\n\n        data_size = struct.calcsize(file_format)\n\n        samples = []\n        for _ in range(n_samples):\n            data = struct.unpack(file_format, f.read(data_size))\n\n            # Note that we subtract 1 from `labels` column\n            samples.append((data[0], data[1] - 1, *data[2:]))\n\n    if not output_file:\n        output_file = opf_path.split(\".\")[0] + \".txt\"",
  "        n_samples = header_data[0]\n        n_features = header_data[1]\n\n        file_format = \"<ii\"\n        for _ in range(n_features):\n            file_format += \"f\"\n\n        data_size = struct.calcsize(file_format)\n\n        samples = []\n        for _ in range(n_samples):\n            data = struct.unpack(file_format, f.read(data_size))\n\n            # Note that we subtract 1 from `labels` column\n            samples.append((data[0], data[1] - 1, *data[2:]))\n\n    if not output_file:\n        output_file = opf_path.split(\".\")[0] + \".txt\"")
M("conv-txt-lossy-fmt", ["C18"], CONV, "    np.savetxt(output_file, samples, delimiter=\" \")", "    np.savetxt(output_file, samples, delimiter=\" \", fmt=\"%.4f\")")
M("loader-json-label-id-swapped", ["C18"], LOAD, "        meta = np.asarray([d[\"id\"], d[\"label\"]])", "        meta = np.asarray([d[\"label\"], d[\"id\"]])")
M("loader-txt-tab", ["C18"], LOAD, "        txt = np.loadtxt(txt_path, delimiter=\" \")", "        txt = np.loadtxt(txt_path, delimiter=\"\\t\")")
M("subgraph-load-txt-as-csv", ["C18"], SUBG, "        elif extension == \"txt\":\n            data = loader.load_txt(file_path)", "        elif extension == \"txt\":\n            data = loader.load_csv(file_path)")
M("split-len-y", ["~C18"], SPLIT, "    idx = np.random.permutation(X.shape[0])\n    halt = int(len(X) * percentage)\n\n    I_1",
  "    idx = np.random.permutation(len(X))\n    halt = int(len(X) * percentage)\n\n    I_1")

# ---------------------------------------------------------------------------
# save / load (C19)
# ---------------------------------------------------------------------------
M("save-dumps-subgraph-only", ["C19"], OPFC, "            pickle.dump(self, dest_file)", "            pickle.dump(self.subgraph, dest_file)")
M("save-append-mode", ["C19"], OPFC, "        with open(file_name, \"wb\") as dest_file:", "        with open(file_name, \"ab\") as dest_file:")
M("save-resets-model", ["C19"], OPFC, "        with open(file_name, \"wb\") as dest_file:\n            pickle.dump(self, dest_file)",
  "        with open(file_name, \"wb\") as dest_file:\n            pickle.dump(self, dest_file)\n        self.subgraph.reset()")
M("load-only-subgraph", ["C19"], OPFC, "            self.__dict__.update(opf.__dict__)", "            self.subgraph = opf.subgraph")
M("load-keeps-own-distance", ["C19"], OPFC, "            self.__dict__.update(opf.__dict__)",
  "            state = {k: v for k, v in opf.__dict__.items() if k != \"_distance_fn\"}\n            self.__dict__.update(state)")
M("load-rebinds-metric-from-self", ["C19"], OPFC, "            self.__dict__.update(opf.__dict__)",
  "            opf.distance_fn = d.DISTANCES[self.distance]\n            self.__dict__.update(opf.__dict__)")
M("opf-getstate-drops-distances", ["C19"], OPFC, "    def fit(self, X: np.array, Y: np.array) -> None:",
  "    def __getstate__(self):\n        state = dict(self.__dict__)\n        state[\"_pre_distances\"] = None\n        return state\n\n    def fit(self, X: np.array, Y: np.array) -> None:")
M("decorator-wraps-removed", ["C19"], DEC, "    @wraps(f)\n    def _avoid_zero_division", "    def _avoid_zero_division")
M("knnsubgraph-class-level-best-k", ["C19"], KSUB, "class KNNSubgraph(Subgraph):\n    \"\"\"A KNNSubgraph is used to implement a k-nearest neightbours subgraph.\"\"\"\n",
  "class KNNSubgraph(Subgraph):\n    \"\"\"A KNNSubgraph is used to implement a k-nearest neightbours subgraph.\"\"\"\n\n    shared_constant = 0.0\n")
M("opf-lambda-distance", ["C19"], OPFC, "        self.distance_fn = d.DISTANCES[distance]", "        self.distance_fn = d.DISTANCES[distance]\n        self._scale = lambda v: v")
M("registry-lambda-entry", ["C19", "C06"], DIST, "    \"manhattan\": manhattan_distance,", "    \"manhattan\": lambda x, y: manhattan_distance(x, y),")

# ---------------------------------------------------------------------------
# measures (C20)
# ---------------------------------------------------------------------------
M("acc-swapped-columns", ["C20"], GEN, "            errors[pred][0] += 1\n            errors[label][1] += 1", "            errors[label][0] += 1\n            errors[pred][1] += 1")
M("acc-denominators-swapped", ["C20"], GEN, "    errors[:, 1] /= counts\n    errors[:, 0] /= np.nansum(counts) - counts", "    errors[:, 0] /= counts\n    errors[:, 1] /= np.nansum(counts) - counts")
M("acc-divide-by-k", ["C20"], GEN, "    accuracy = 1 - (np.sum(errors) / (2 * n_class))", "    accuracy = 1 - (np.sum(errors) / n_class)")
M("acc-counts-from-preds", ["C20"], GEN, "    counts = np.bincount(labels)", "    counts = np.bincount(preds)")
M("acc-counts-all-pairs", ["C20"], GEN, "        if label != pred:\n            errors[pred][0] += 1\n            errors[label][1] += 1", "        if True:\n            errors[pred][0] += 1\n            errors[label][1] += 1")
M("cm-transposed", ["C20"], GEN, "        c_matrix[label][pred] += 1", "        c_matrix[pred][label] += 1")
M("cm-classes-from-preds", ["C20"], GEN,
  "    n_class = np.max(labels) + 1\n\n    c_matrix = np.zeros((n_class, n_class))", "    n_class = np.max(preds) + 1\n\n    c_matrix = np.zeros((n_class, n_class))")
M("perlabel-counts-pred-errors", ["C20"], GEN, "        if label != pred:\n            errors[label] += 1", "        if label != pred:\n            errors[pred] += 1")
M("purity-axis1", ["C20"], GEN, "    _purity = np.sum(np.max(c_matrix, axis=0)) / len(labels)", "    _purity = np.sum(np.max(c_matrix, axis=1)) / len(labels)")
M("purity-swapped-args", ["C20"], GEN, "    c_matrix = confusion_matrix(labels, preds)\n    _purity", "    c_matrix = confusion_matrix(preds, labels)\n    _purity")
M("normalize-global-std", ["C20"], GEN, "    std = np.std(array, axis=0)", "    std = np.std(array)")
M("normalize-minmax", ["C20"], GEN, "    norm_array = (array - mean) / std", "    norm_array = (array - mean) / (std + 1)")
M("acc-len-for-total", ["~C20"], GEN, "    errors[:, 0] /= np.nansum(counts) - counts", "    errors[:, 0] /= len(labels) - counts")

# ---------------------------------------------------------------------------
# benign refactorings (must stay silent everywhere they are evaluated)
# ---------------------------------------------------------------------------
_FIT_W = ("                        if self.pre_computed_distance:\n                            weight = self.pre_distances[self.subgraph.nodes[p].idx][\n"
          "                                self.subgraph.nodes[q].idx\n                            ]\n                        else:\n"
          "                            weight = self.distance_fn(\n                                self.subgraph.nodes[p].features,\n"
          "                                self.subgraph.nodes[q].features,\n                            )\n\n"
          "                        # The current cost will be the maximum")
M("benign-fit-weight-helper", ["~C01", "~C02", "~C10", "~C11", "~C15", "~C04", "~C05"], SUP,
  _FIT_W + " cost between the node's and its weight (arc)\n                        current_cost = np.maximum(h.cost[p], weight)\n\n                        if current_cost < h.cost[q]:\n                            self.subgraph.nodes[q].pred = p\n                            self.subgraph.nodes[\n                                q\n                            ].predicted_label = self.subgraph.nodes[p].predicted_label\n\n                            h.update(q, current_cost)\n\n        self.subgraph.trained = True\n",
  "                        weight = self._arc_weight(p, q)\n\n                        # The current cost will be the maximum cost between the node's and its weight (arc)\n                        current_cost = np.maximum(h.cost[p], weight)\n\n                        if current_cost < h.cost[q]:\n                            self.subgraph.nodes[q].pred = p\n                            self.subgraph.nodes[\n                                q\n                            ].predicted_label = self.subgraph.nodes[p].predicted_label\n\n                            h.update(q, current_cost)\n\n        self.subgraph.trained = True\n\n    def _arc_weight(self, a, b):\n        if self.pre_computed_distance:\n            return self.pre_distances[self.subgraph.nodes[a].idx][self.subgraph.nodes[b].idx]\n\n        return self.distance_fn(self.subgraph.nodes[a].features, self.subgraph.nodes[b].features)\n")
M("benign-fit-seed-enumerate", ["~C01", "~C02", "~C04", "~C11"], SUP,
  "        for i in range(self.subgraph.n_nodes):\n            if self.subgraph.nodes[i].status == c.PROTOTYPE:\n                self.subgraph.nodes[i].pred = c.NIL\n                self.subgraph.nodes[i].predicted_label = self.subgraph.nodes[i].label\n\n                h.cost[i] = 0\n                h.insert(i)\n            else:\n                h.cost[i] = c.FLOAT_MAX\n\n        while not h.is_empty():\n            p = h.remove()\n\n            self.subgraph.idx_nodes.append(p)",
  "        for i, node in enumerate(self.subgraph.nodes):\n            if node.status == c.PROTOTYPE:\n                node.pred = c.NIL\n                node.predicted_label = node.label\n\n                h.cost[i] = 0\n                h.insert(i)\n            else:\n                h.cost[i] = c.FLOAT_MAX\n\n        while not h.is_empty():\n            p = h.remove()\n\n            self.subgraph.idx_nodes.append(p)")
M("benign-fit-continue-style", ["~C01", "~C05", "~C11", "~C10"], SUP,
  "            for q in range(self.subgraph.n_nodes):\n                if p != q:\n                    if h.cost[p] < h.cost[q]:\n                        if self.pre_computed_distance:\n                            weight = self.pre_distances[self.subgraph.nodes[p].idx][\n                                self.subgraph.nodes[q].idx\n                            ]\n                        else:\n                            weight = self.distance_fn(\n                                self.subgraph.nodes[p].features,\n                                self.subgraph.nodes[q].features,\n                            )\n\n                        # The current cost will be the maximum cost between the node's and its weight (arc)\n                        current_cost = np.maximum(h.cost[p], weight)\n\n                        if current_cost < h.cost[q]:\n                            self.subgraph.nodes[q].pred = p\n                            self.subgraph.nodes[\n                                q\n                            ].predicted_label = self.subgraph.nodes[p].predicted_label\n\n                            h.update(q, current_cost)\n\n        self.subgraph.trained = True",
  "            for q in range(self.subgraph.n_nodes):\n                if p == q or not h.cost[p] < h.cost[q]:\n                    continue\n\n                node_p, node_q = self.subgraph.nodes[p], self.subgraph.nodes[q]\n                if self.pre_computed_distance:\n                    weight = self.pre_distances[node_p.idx][node_q.idx]\n                else:\n                    weight = self.distance_fn(node_p.features, node_q.features)\n\n                current_cost = weight if weight > h.cost[p] else h.cost[p]\n                if not current_cost < h.cost[q]:\n                    continue\n\n                node_q.pred = p\n                node_q.predicted_label = node_p.predicted_label\n                h.update(q, current_cost)\n\n        self.subgraph.trained = True")
M("benign-heap-last-test", ["~C01", "~C02", "~C05"], SUP,
  "        while not h.is_empty():\n            p = h.remove()\n\n            self.subgraph.idx_nodes.append(p)",
  "        while h.last > -1:\n            p = h.remove()\n\n            self.subgraph.idx_nodes.append(p)")

# ---------------------------------------------------------------------------
# premises (transparent properties, constants, defaults, entry conditions, fresh graph, configuration)
# ---------------------------------------------------------------------------
M("node-cost-setter-rounds", ["C01", "C03", "C13", "C14"], NODE,
  "        self._cost = cost\n", "        self._cost = round(cost, 6)\n")
M("node-pred-getter-shifted", ["C01", "C02", "C13", "C17"], NODE,
  "        return self._pred\n", "        return max(self._pred, -1)\n")
M("heap-cost-setter-copies", ["C05"], HEAP,
  "        self._cost = cost\n", "        self._cost = list(cost)\n")
M("const-gray-equals-white", ["C05", "C01", "C13"], CONST, "GRAY = 1\n", "GRAY = 0\n")
M("const-nil-zero", ["C01", "C02", "C13", "C17"], CONST, "NIL = -1\n", "NIL = 0\n")
M("node-default-relevant", ["C17"], NODE, "        self.relevant = c.IRRELEVANT\n", "        self.relevant = c.RELEVANT\n")
M("node-default-pred-zero", ["C01", "C02"], NODE, "        self.pred = c.NIL\n        self.relevant", "        self.pred = 0\n        self.relevant")
M("heap-default-policy-max", ["C01", "C02", "C05"], HEAP,
  "    def __init__(self, size: int = 1, policy: str = \"min\") -> None:", "    def __init__(self, size: int = 1, policy: str = \"max\") -> None:")
M("fit-early-return-small", ["C01"], SUP,
  "        self._find_prototypes()\n\n        h = Heap(size=self.subgraph.n_nodes)\n\n        for i in range(self.subgraph.n_nodes):\n            if self.subgraph.nodes[i].status == c.PROTOTYPE:",
  "        self._find_prototypes()\n\n        if self.subgraph.n_nodes < 3:\n            self.subgraph.trained = True\n            return\n\n        h = Heap(size=self.subgraph.n_nodes)\n\n        for i in range(self.subgraph.n_nodes):\n            if self.subgraph.nodes[i].status == c.PROTOTYPE:")
M("fit-reuses-subgraph", ["C01", "C07"], SUP,
  "        self.subgraph = Subgraph(X_train, Y_train, I=I_train)\n\n        self._find_prototypes()",
  "        if self.subgraph is None or self.subgraph.n_nodes != len(X_train):\n            self.subgraph = Subgraph(X_train, Y_train, I=I_train)\n\n        self._find_prototypes()")
M("uns-fit-clamps-max-k", ["C07"], UNS,
  "        self.subgraph = KNNSubgraph(X_train, Y_train, I_train)\n\n        self._best_minimum_cut(self.min_k, self.max_k)",
  "        self.subgraph = KNNSubgraph(X_train, Y_train, I_train)\n        self.max_k = min(self.max_k, self.subgraph.n_nodes - 1)\n\n        self._best_minimum_cut(self.min_k, self.max_k)")
M("heap-remove-skips-sift", ["C05"], HEAP,
  "            self.last -= 1\n\n            self.go_down(0)\n", "            self.last -= 1\n\n            if self.left_son(0) < self.last:\n                self.go_down(0)\n")
M("heap-remove-sift-when-nonempty", ["~C05"], HEAP,
  "            self.last -= 1\n\n            self.go_down(0)\n", "            self.last -= 1\n\n            if self.last > 0:\n                self.go_down(0)\n")
M("heap-update-early-exit", ["C05"], HEAP,
  "        self.cost[p] = cost\n\n        if self.color[p] == c.BLACK:", "        if self.cost[p] == cost:\n            return\n\n        self.cost[p] = cost\n\n        if self.color[p] == c.BLACK:")
M("build-nan-to-num-inplace", ["C07"], SUBG,
  "        for i, (feature, label) in enumerate(zip(X, Y)):\n", "        for i, (feature, label) in enumerate(zip(X, Y)):\n            feature = np.nan_to_num(feature, copy=False)\n")
M("knn-learn-no-destroy-2", ["C12", "C13", "C16"], KNN,
  "            logger.info(\"Accuracy over k = %d: %s\", k, acc)\n\n            self.subgraph.destroy_arcs()\n", "            logger.info(\"Accuracy over k = %d: %s\", k, acc)\n")

# ---------------------------------------------------------------------------
# round-3 seeded defects that led to new rules
# ---------------------------------------------------------------------------
M("hassanat-negative-branch-max", ["C06"], DIST,
  ") / (1 + np.maximum(x[i], y[i]) + np.fabs(np.minimum(x[i], y[i])))",
  ") / (1 + np.maximum(x[i], y[i]) + np.fabs(np.maximum(x[i], y[i])))")
M("decorator-identity-cache-used", ["C07", "C06", "C08"], DEC,
  '    @wraps(f)\n    def _avoid_zero_division(x: np.array, y: np.array) -> callable:\n        """Wraps the function for adjusting its arguments.\n\n        Args:\n            x: N-dimensional array.\n            y: N-dimensional array.\n\n        Returns:\n            (callable): The function itself.\n\n        """\n\n        x = x + c.EPSILON\n        y = y + c.EPSILON\n\n        return f(x, y)\n',
  '    last = [None, None]\n\n    @wraps(f)\n    def _avoid_zero_division(x: np.array, y: np.array) -> callable:\n        """Wraps the function for adjusting its arguments.\n\n        Args:\n            x: N-dimensional array.\n            y: N-dimensional array.\n\n        Returns:\n            (callable): The function itself.\n\n        """\n\n        if x is not last[0]:\n            last[0], last[1] = x, x + c.EPSILON\n        y = y + c.EPSILON\n\n        return f(last[1], y)\n')
M("decorator-unused-local", ["~C07"], DEC,
  '    @wraps(f)\n    def _avoid_zero_division(x: np.array, y: np.array) -> callable:\n        """Wraps the function for adjusting its arguments.\n\n        Args:\n            x: N-dimensional array.\n            y: N-dimensional array.\n\n        Returns:\n            (callable): The function itself.\n\n        """\n\n        x = x + c.EPSILON\n        y = y + c.EPSILON\n\n        return f(x, y)\n',
  '    scratch = [None, None]\n\n    @wraps(f)\n    def _avoid_zero_division(x: np.array, y: np.array) -> callable:\n        """Wraps the function for adjusting its arguments.\n\n        Args:\n            x: N-dimensional array.\n            y: N-dimensional array.\n\n        Returns:\n            (callable): The function itself.\n\n        """\n\n        x = x + c.EPSILON\n        y = y + c.EPSILON\n\n        return f(x, y)\n')
M("knn-learn-running-best-dedented", ["C16"], KNN,
  "            if acc > max_acc:\n                max_acc = acc\n                best_k = k\n",
  "            if acc > max_acc:\n                best_k = k\n            max_acc = acc\n")

# ---------------------------------------------------------------------------
# unrelated edits every check must stay silent on (logging, assertions, annotations, new members)
# ---------------------------------------------------------------------------
M("benign-debug-log-in-accepted-branch", (), SUP,
  "                            h.update(q, current_cost)\n",
  "                            h.update(q, current_cost)\n                            logger.debug(\"node %d conquered by %d\", q, p)\n")
M("benign-debug-fstring-after-removal", (), SUP,
  "            self.subgraph.idx_nodes.append(p)\n            self.subgraph.nodes[p].cost = h.cost[p]",
  "            self.subgraph.idx_nodes.append(p)\n            logger.debug(f\"removed {p} with cost {h.cost[p]}\")\n            self.subgraph.nodes[p].cost = h.cost[p]")
M("benign-assert-in-fit", (), SUP,
  "        h = Heap(size=self.subgraph.n_nodes)\n\n        for i in range(self.subgraph.n_nodes):\n            if self.subgraph.nodes[i].status == c.PROTOTYPE:",
  "        h = Heap(size=self.subgraph.n_nodes)\n        assert self.subgraph.n_nodes > 0\n\n        for i in range(self.subgraph.n_nodes):\n            if self.subgraph.nodes[i].status == c.PROTOTYPE:")
M("benign-annotated-local", (), SUP,
  "                        current_cost = np.maximum(h.cost[p], weight)\n\n                        if current_cost < h.cost[q]:\n                            self.subgraph.nodes[q].pred = p",
  "                        current_cost: float = np.maximum(h.cost[p], weight)\n\n                        if current_cost < h.cost[q]:\n                            self.subgraph.nodes[q].pred = p")
M("benign-new-public-method-on-model", (), SUP,
  "    def predict(self, X_val: np.array, I_val: Optional[np.array] = None) -> List[int]:",
  "    def n_prototypes(self) -> int:\n        \"\"\"Number of prototypes of the fitted classifier.\"\"\"\n\n        return sum(1 for n in self.subgraph.nodes if n.status == c.PROTOTYPE)\n\n    def predict(self, X_val: np.array, I_val: Optional[np.array] = None) -> List[int]:")
M("benign-heap-repr", (), HEAP,
  "    def remove(self) -> int:",
  "    def __repr__(self) -> str:\n        return f\"Heap(size={self.size}, policy={self.policy!r}, last={self.last})\"\n\n    def remove(self) -> int:")
M("benign-heap-pass-and-comment", (), HEAP,
  "        if not self.is_empty():\n            p = self.p[0]\n",
  "        if not self.is_empty():\n            # the root is the extremal element\n            pass\n            p = self.p[0]\n")
M("benign-knn-log-per-node", (), KSUB,
  "            self.nodes[i].radius = 0.0\n",
  "            logger.debug(\"neighbours of node %d found\", i)\n            self.nodes[i].radius = 0.0\n")
M("benign-unsup-info-log", (), UNS,
  "            self.subgraph.idx_nodes.append(p)\n",
  "            self.subgraph.idx_nodes.append(p)\n            logger.debug(\"node %d leaves the queue\", p)\n")
M("benign-general-log-in-confusion-matrix", (), GEN,
  "    n_class = np.max(labels) + 1\n\n    c_matrix = np.zeros((n_class, n_class))",
  "    n_class = np.max(labels) + 1\n    logger.debug(\"%d classes\", n_class)\n\n    c_matrix = np.zeros((n_class, n_class))")

# ---------------------------------------------------------------------------
# round-4 seeded defects that led to new rules / premises
# ---------------------------------------------------------------------------
M("destroy-arcs-skips-last-node", ["C12", "C13", "C16"], SUBG,
  "        for i in range(self.n_nodes):\n            self.nodes[i].n_plateaus = 0\n",
  "        for i in range(self.n_nodes - 1):\n            self.nodes[i].n_plateaus = 0\n")
M("subgraph-init-drops-index-array", ["C10", "C09"], SUBG,
  "            self._build(X, Y, I)\n", "            self._build(X, Y, None)\n")
M("knn-predict-early-break-on-exact-match", ["C14", "C09"], KNN,
  "                neighbours_idx[best_k] = j\n                cur_k = best_k\n",
  "                neighbours_idx[best_k] = j\n                if distances[best_k] == 0:\n                    break\n                cur_k = best_k\n")
M("create-arcs-distance-to-i", ["C12"], KSUB,
  "                        distances[k] = pre_distances[self.nodes[i].idx][\n                            self.nodes[j].idx\n                        ]\n                    else:\n                        distances[k] = distance_function(\n                            self.nodes[i].features, self.nodes[j].features\n                        )",
  "                        distances[k] = pre_distances[self.nodes[j].idx][\n                            self.nodes[i].idx\n                        ]\n                    else:\n                        distances[k] = distance_function(\n                            self.nodes[j].features, self.nodes[i].features\n                        )")
M("learn-shallow-snapshot", ["C17", "C01", "C02"], SUP,
  "                best_opf = copy.deepcopy(self)", "                best_opf = copy.copy(self)")
M("decorator-inplace-shift-premise", ["C01", "C02", "C03", "C12", "C13", "C14"], DEC,
  "        x = x + c.EPSILON\n        y = y + c.EPSILON\n", "        x += c.EPSILON\n        y += c.EPSILON\n")
