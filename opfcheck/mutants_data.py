"""The corpus itself.  `()` properties = benign twin for every check; `("~C01",)` = benign twin
evaluated only by C01."""

from .mutants import (CONST, CONV, DEC, DIST, GEN, HEAP, KNN, KSUB, LOAD, M, NODE, OPFC, PARSE, SEMI,
                      SPLIT, SUBG, SUP, UNS)

# ---------------------------------------------------------------------------
# supervised fit (C01)
# ---------------------------------------------------------------------------
M("fit-sum-for-max", ["C01", "C11"], SUP,
  "current_cost = np.maximum(h.cost[p], weight)", "current_cost = h.cost[p] + weight")
M("fit-accept-flipped", ["C01", "C05"], SUP,
  "if current_cost < h.cost[q]:\n                            self.subgraph.nodes[q].pred = p",
  "if current_cost > h.cost[q]:\n                            self.subgraph.nodes[q].pred = p")
M("fit-pred-dropped", ["C01"], SUP,
  "                            self.subgraph.nodes[q].pred = p\n                            self.subgraph.nodes[\n",
  "                            self.subgraph.nodes[\n")
M("fit-pred-from-q", ["C01"], SUP,
  "self.subgraph.nodes[q].pred = p\n                            self.subgraph.nodes[\n",
  "self.subgraph.nodes[q].pred = q\n                            self.subgraph.nodes[\n")
M("fit-label-from-true-label", ["C01"], SUP,
  "].predicted_label = self.subgraph.nodes[p].predicted_label\n\n                            h.update(q, current_cost)",
  "].predicted_label = self.subgraph.nodes[p].label\n\n                            h.update(q, current_cost)")
M("fit-append-conditional", ["C01", "C03"], SUP,
  "            self.subgraph.idx_nodes.append(p)\n            self.subgraph.nodes[p].cost = h.cost[p]",
  "            if self.subgraph.nodes[p].status != c.PROTOTYPE:\n                self.subgraph.idx_nodes.append(p)\n            self.subgraph.nodes[p].cost = h.cost[p]")
M("fit-cost-from-zero", ["C01"], SUP,
  "            self.subgraph.idx_nodes.append(p)\n            self.subgraph.nodes[p].cost = h.cost[p]",
  "            self.subgraph.idx_nodes.append(p)\n            self.subgraph.nodes[p].cost = h.cost[0]")
M("fit-range-skips-first", ["C01"], SUP,
  "            self.subgraph.nodes[p].cost = h.cost[p]\n\n            for q in range(self.subgraph.n_nodes):",
  "            self.subgraph.nodes[p].cost = h.cost[p]\n\n            for q in range(1, self.subgraph.n_nodes):")
M("fit-max-heap", ["C01"], SUP,
  "        h = Heap(size=self.subgraph.n_nodes)\n\n        for i in range(self.subgraph.n_nodes):\n            if self.subgraph.nodes[i].status == c.PROTOTYPE:",
  "        h = Heap(size=self.subgraph.n_nodes, policy=\"max\")\n\n        for i in range(self.subgraph.n_nodes):\n            if self.subgraph.nodes[i].status == c.PROTOTYPE:")
M("fit-update-other-value", ["C01", "C05"], SUP,
  "                            h.update(q, current_cost)", "                            h.update(q, weight)")
M("fit-nonstrict-both", ["C01"], SUP,
  "                    if h.cost[p] < h.cost[q]:\n                        if self.pre_computed_distance:\n                            weight = self.pre_distances[self.subgraph.nodes[p].idx][\n                                self.subgraph.nodes[q].idx\n                            ]\n                        else:\n                            weight = self.distance_fn(\n                                self.subgraph.nodes[p].features,\n                                self.subgraph.nodes[q].features,\n                            )\n\n                        # The current cost will be the maximum cost between the node's and its weight (arc)\n                        current_cost = np.maximum(h.cost[p], weight)\n\n                        if current_cost < h.cost[q]:",
  "                    if h.cost[p] <= h.cost[q]:\n                        if self.pre_computed_distance:\n                            weight = self.pre_distances[self.subgraph.nodes[p].idx][\n                                self.subgraph.nodes[q].idx\n                            ]\n                        else:\n                            weight = self.distance_fn(\n                                self.subgraph.nodes[p].features,\n                                self.subgraph.nodes[q].features,\n                            )\n\n                        # The current cost will be the maximum cost between the node's and its weight (arc)\n                        current_cost = np.maximum(h.cost[p], weight)\n\n                        if current_cost <= h.cost[q]:")
M("seed-cost-one", ["C01", "C02"], SUP,
  "                h.cost[i] = 0\n                h.insert(i)", "                h.cost[i] = 1\n                h.insert(i)")
M("seed-pred-not-reset", ["C01", "C02"], SUP,
  "                self.subgraph.nodes[i].pred = c.NIL\n                self.subgraph.nodes[i].predicted_label = self.subgraph.nodes[i].label\n\n                h.cost[i] = 0",
  "                self.subgraph.nodes[i].predicted_label = self.subgraph.nodes[i].label\n\n                h.cost[i] = 0")
M("seed-everyone-queued", ["C01"], SUP,
  "            else:\n                h.cost[i] = c.FLOAT_MAX\n\n        while not h.is_empty():\n            p = h.remove()\n\n            self.subgraph.idx_nodes.append(p)",
  "            else:\n                h.cost[i] = c.FLOAT_MAX\n                h.insert(i)\n\n        while not h.is_empty():\n            p = h.remove()\n\n            self.subgraph.idx_nodes.append(p)")
M("fit-weight-in-arith", ["C11", "C01"], SUP,
  "                        if current_cost < h.cost[q]:\n                            self.subgraph.nodes[q].pred = p",
  "                        if current_cost < h.cost[q] - 1e-9:\n                            self.subgraph.nodes[q].pred = p")
# benign twins (accepted family)
M("fit-outer-guard-removed", ["~C01", "~C11", "~C05"], SUP,
  "                    if h.cost[p] < h.cost[q]:\n                        if self.pre_computed_distance:\n                            weight = self.pre_distances[self.subgraph.nodes[p].idx][\n                                self.subgraph.nodes[q].idx\n                            ]\n                        else:\n                            weight = self.distance_fn(\n                                self.subgraph.nodes[p].features,\n                                self.subgraph.nodes[q].features,\n                            )\n\n                        # The current cost",
  "                    if True:\n                        if self.pre_computed_distance:\n                            weight = self.pre_distances[self.subgraph.nodes[p].idx][\n                                self.subgraph.nodes[q].idx\n                            ]\n                        else:\n                            weight = self.distance_fn(\n                                self.subgraph.nodes[p].features,\n                                self.subgraph.nodes[q].features,\n                            )\n\n                        # The current cost")
M("fit-builtin-max", ["~C01", "~C11"], SUP,
  "current_cost = np.maximum(h.cost[p], weight)", "current_cost = max(weight, h.cost[p])")
M("fit-flipped-compare-text", ["~C01", "~C05", "~C11"], SUP,
  "if current_cost < h.cost[q]:\n                            self.subgraph.nodes[q].pred = p",
  "if h.cost[q] > current_cost:\n                            self.subgraph.nodes[q].pred = p")
M("fit-alias-nodes", ["~C01", "~C02", "~C10", "~C11"], SUP,
  "        h = Heap(size=self.subgraph.n_nodes)\n\n        for i in range(self.subgraph.n_nodes):\n            if self.subgraph.nodes[i].status == c.PROTOTYPE:",
  "        h = Heap(size=self.subgraph.n_nodes)\n        nodes = self.subgraph.nodes\n\n        for i in range(self.subgraph.n_nodes):\n            if nodes[i].status == c.PROTOTYPE:")

# ---------------------------------------------------------------------------
# Prim (C02)
# ---------------------------------------------------------------------------
M("prim-one-endpoint", ["C02"], SUP,
  "                    if self.subgraph.nodes[pred].status != c.PROTOTYPE:\n                        self.subgraph.nodes[pred].status = c.PROTOTYPE\n                        prototypes.append(pred)\n",
  "")
M("prim-same-label", ["C02"], SUP,
  "if self.subgraph.nodes[p].label != self.subgraph.nodes[pred].label:",
  "if self.subgraph.nodes[p].label == self.subgraph.nodes[pred].label:")
M("prim-key-accumulates", ["C02"], SUP,
  "                        if weight < h.cost[q]:\n                            self.subgraph.nodes[q].pred = p\n\n                            h.update(q, weight)",
  "                        weight = np.maximum(h.cost[p], weight)\n                        if weight < h.cost[q]:\n                            self.subgraph.nodes[q].pred = p\n\n                            h.update(q, weight)")
M("prim-pred-dropped", ["C02"], SUP,
  "                        if weight < h.cost[q]:\n                            self.subgraph.nodes[q].pred = p\n\n                            h.update(q, weight)",
  "                        if weight < h.cost[q]:\n                            h.update(q, weight)")
M("prim-marks-q", ["C02"], SUP,
  "                        self.subgraph.nodes[pred].status = c.PROTOTYPE\n",
  "                        self.subgraph.nodes[p].status = c.PROTOTYPE\n")
M("prim-nonstrict", ["~C02", "~C01", "~C05"], SUP,
  "                        if weight < h.cost[q]:\n                            self.subgraph.nodes[q].pred = p\n\n                            h.update(q, weight)",
  "                        if weight <= h.cost[q]:\n                            self.subgraph.nodes[q].pred = p\n\n                            h.update(q, weight)")
M("prim-no-colour-guard", ["~C02"], SUP,
  "                if h.color[q] != c.BLACK:\n                    if p != q:\n                        if self.pre_computed_distance:\n                            weight = self.pre_distances[self.subgraph.nodes[p].idx][",
  "                if True:\n                    if p != q:\n                        if self.pre_computed_distance:\n                            weight = self.pre_distances[self.subgraph.nodes[p].idx][")
