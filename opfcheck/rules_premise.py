"""Premises shared by the model checks: things every schema rule silently relies on.

* transparent properties: every @property getter returns its private twin and every setter only
  validates (raise) and stores its argument unchanged - otherwise a field read/write is not what the
  rules think it is;
* constants: sentinels and enumerations keep the relations the code relies on;
* Node defaults: a fresh node has no predecessor, is STANDARD, IRRELEVANT, has an empty private
  adjacency list and zero plateaus;
* entry conditions: a schema's loop is reached on every call (only argument-validation raises may
  precede it).
"""

from __future__ import annotations

import ast
from typing import Dict, List

from .core import AnalysisError, Repo, unparse
from .ir import Walker, facts, mk_not, show

DERIVED_GETTERS = {("Subgraph", "n_nodes"): "len(self.nodes)"}


def _body(fn: ast.FunctionDef) -> List[ast.stmt]:
    b = list(fn.body)
    if b and isinstance(b[0], ast.Expr) and isinstance(b[0].value, ast.Constant) and isinstance(b[0].value.value, str):
        b = b[1:]
    return b


def _only_raises(stmts: List[ast.stmt], mi=None, depth: int = 0) -> bool:
    for s in stmts:
        if isinstance(s, ast.Raise):
            continue
        if isinstance(s, ast.If):
            if not _only_raises(s.body, mi, depth) or not _only_raises(s.orelse, mi, depth):
                return False
            continue
        if isinstance(s, ast.Expr) and isinstance(s.value, ast.Call) and isinstance(s.value.func, ast.Name) \
                and mi is not None and s.value.func.id in mi.functions and depth < 2:
            # a validation helper of the same module that itself only raises
            if _only_raises(_body(mi.functions[s.value.func.id].node), mi, depth + 1):
                continue
        return False
    return True


def check_transparent_properties(rep, repo: Repo, pre: str = "") -> int:
    n = 0
    for mi in repo.modules.values():
        for ci in mi.classes.values():
            for name, g in ci.getters.items():
                n += 1
                body = _body(g.node)
                want = DERIVED_GETTERS.get((ci.name, name), f"self._{name}")
                ok = len(body) == 1 and isinstance(body[0], ast.Return) and body[0].value is not None \
                    and unparse(body[0].value) == want
                rep.fn(pre + "PROP-getter", g, f"{ci.name}.{name} getter returns {want}", ok,
                       f"the getter returns '{unparse(body[0].value) if body and isinstance(body[0], ast.Return) and body[0].value is not None else '...'}': "
                       "reads of this field are not the stored value")
            for name, st in ci.setters.items():
                n += 1
                body = _body(st.node)
                params = st.params
                ok = False
                detail = "a setter may only validate (raise) and then store its argument unchanged"
                if len(params) == 2 and body:
                    last = body[-1]
                    checks = body[:-1]
                    okstore = isinstance(last, ast.Assign) and len(last.targets) == 1 \
                        and unparse(last.targets[0]) == f"self._{name}" and unparse(last.value) == params[1]
                    rebinds = [x for x in ast.walk(st.node) if isinstance(x, (ast.Assign, ast.AugAssign))
                               and x is not last]
                    ok = okstore and _only_raises(checks, mi) and not rebinds
                    if not okstore:
                        detail = f"the setter stores '{unparse(last)[:80]}' instead of `self._{name} = {params[1]}`"
                rep.fn(pre + "PROP-setter", st, f"{ci.name}.{name} setter stores its argument unchanged", ok, detail)
    return n


def check_constants(rep, repo: Repo, pre: str = "") -> None:
    c = repo.constants
    fi = repo.need_method("OPF", "__init__")
    mi = repo.module("opfython.utils.constants")

    def ob(name, ok, detail):
        rep.chk.ob(pre + "CONST", "opfython.utils.constants", name, ok, detail, file=mi.relpath, line=1)

    colours = [c.get("WHITE"), c.get("GRAY"), c.get("BLACK")]
    ob("WHITE, GRAY, BLACK are pairwise distinct", len(set(colours)) == 3 and None not in colours,
       f"colours are {colours}: the heap's typestate collapses")
    ob("NIL == -1", c.get("NIL") == -1, f"NIL is {c.get('NIL')!r}: it must not be a valid node index (>= 0)")
    ob("STANDARD != PROTOTYPE", c.get("STANDARD") != c.get("PROTOTYPE") and c.get("PROTOTYPE") is not None, "status flags coincide")
    ob("IRRELEVANT != RELEVANT", c.get("IRRELEVANT") != c.get("RELEVANT") and c.get("RELEVANT") is not None, "relevance flags coincide")
    ob("FLOAT_MAX = sys.float_info.max", c.get("FLOAT_MAX") == ("expr", "sys.float_info.max"),
       f"FLOAT_MAX is {c.get('FLOAT_MAX')!r}: it must dominate every attainable cost and distance")
    md = c.get("MAX_DENSITY")
    ob("MAX_DENSITY > 1", isinstance(md, (int, float)) and md > 1, f"MAX_DENSITY is {md!r}")
    eps = c.get("EPSILON")
    ob("0 < EPSILON <= 1e-6", isinstance(eps, float) and 0 < eps <= 1e-6, f"EPSILON is {eps!r}")
    k = c.get("MAX_ARC_WEIGHT")
    ob("MAX_ARC_WEIGHT > 0", isinstance(k, (int, float)) and k > 0, f"MAX_ARC_WEIGHT is {k!r}")


NODE_DEFAULTS = {"pred": "c.NIL", "status": "c.STANDARD", "relevant": "c.IRRELEVANT", "adjacency": "[]",
                 "n_plateaus": "0"}


def check_node_defaults(rep, repo: Repo, pre: str = "", fields=None) -> None:
    fi = repo.need_method("Node", "__init__")
    found: Dict[str, str] = {}
    for s in fi.node.body:
        if isinstance(s, ast.Assign) and len(s.targets) == 1 and unparse(s.targets[0]).startswith("self."):
            found[unparse(s.targets[0])[5:]] = unparse(s.value)
    for f, want in NODE_DEFAULTS.items():
        if fields is not None and f not in fields:
            continue
        rep.fn(pre + "NODE-default", fi, f"a fresh node has {f} = {want}", found.get(f) == want,
               f"Node.__init__ sets {f} = {found.get(f)!r}")
    a = fi.node.args
    for p, d in zip(reversed(a.args), reversed(a.defaults)):
        if isinstance(d, (ast.List, ast.Dict, ast.Set)):
            rep.fn(pre + "NODE-shared-default", fi, f"parameter {p.arg} has a mutable default", False,
                   "a mutable default argument is shared by every node created without that argument")


def raise_conditions(w: Walker):
    """Positive facts under which the entry function raises (argument / state validation)."""
    out = set()
    for e in w.events:
        if e.kind == "raise":
            for f in facts(e.guards):
                out.add(f)
    return out


def check_entry_unconditional(rep, w: Walker, guards, rule: str, what: str, line: int = 0) -> None:
    """`guards` dominate a schema construct: each must be the negation of a validation test that raises."""
    rc = raise_conditions(w)
    bad = [f for f in facts(guards) if mk_not(f) not in rc]
    rep.fn(rule, w.entry, f"{what} is reached on every valid call", not bad,
           "" if not bad else f"{what} is skipped when not ({show(bad[0])[:120]}): an early exit / extra condition leaves the "
           "schema unexecuted on some inputs", line=line or w.entry.node.lineno)


def heap_default_policy(repo: Repo) -> str:
    fi = repo.need_method("Heap", "__init__")
    a = fi.node.args
    for p, d in zip(reversed(a.args), reversed(a.defaults)):
        if p.arg == "policy" and isinstance(d, ast.Constant):
            return d.value
    raise AnalysisError("Heap.__init__: default policy not found")
