"""Premises shared by the model checks: things every schema rule silently relies on.

* transparent properties: every @property getter returns its private twin and every setter only
  validates (raise) and stores its argument unchanged - otherwise a field read/write is not what the
  rules think it is;
* constants: sentinels and enumerations keep the relations the code relies on;
* Node defaults: a fresh node has no predecessor, is STANDARD, IRRELEVANT, has an empty private
  adjacency list and zero plateaus;
* entry conditions: a schema's loop is reached on every call (only argument-validation raises may
  precede it).
"""

from __future__ import annotations

import ast
from typing import Dict, List

from .core import AnalysisError, Repo, unparse
from .ir import Walker, facts, mk_not, show

DERIVED_GETTERS = {("Subgraph", "n_nodes"): "len(self.nodes)"}


def _body(fn: ast.FunctionDef) -> List[ast.stmt]:
    b = list(fn.body)
    if b and isinstance(b[0], ast.Expr) and isinstance(b[0].value, ast.Constant) and isinstance(b[0].value.value, str):
        b = b[1:]
    return [x for x in b if not isinstance(x, ast.Pass)]


def _only_raises(stmts: List[ast.stmt], mi=None, depth: int = 0) -> bool:
    for s in stmts:
        if isinstance(s, ast.Raise):
            continue
        if isinstance(s, ast.If):
            if not _only_raises(s.body, mi, depth) or not _only_raises(s.orelse, mi, depth):
                return False
            continue
        if isinstance(s, ast.Expr) and isinstance(s.value, ast.Call) and isinstance(s.value.func, ast.Name) \
                and mi is not None and s.value.func.id in mi.functions and depth < 2:
            # a validation helper of the same module that itself only raises
            if _only_raises(_body(mi.functions[s.value.func.id].node), mi, depth + 1):
                continue
        return False
    return True


_RECORD_CLASSES: set = set()  # NamedTuple / frozen dataclass classes of the tree under analysis (building one is pure)
PURE_CALLS = {"len", "bool", "int", "float", "abs", "min", "max", "tuple", "isinstance", "sum"}


def _pure_expr(e) -> bool:
    for n in ast.walk(e):
        if isinstance(n, ast.Call):
            f = n.func
            if not (isinstance(f, ast.Name) and (f.id in PURE_CALLS or f.id in _RECORD_CLASSES)):
                return False
        if isinstance(n, (ast.Lambda, ast.NamedExpr, ast.Yield, ast.YieldFrom, ast.Await, ast.ListComp, ast.GeneratorExp)):
            return False
    return True


def _pure_stmts(stmts) -> bool:
    for st in stmts:
        if isinstance(st, ast.Return):
            if st.value is not None and not _pure_expr(st.value):
                return False
        elif isinstance(st, ast.If):
            if not _pure_expr(st.test) or not _pure_stmts(st.body) or not _pure_stmts(st.orelse):
                return False
        elif isinstance(st, ast.Pass) or (isinstance(st, ast.Expr) and isinstance(st.value, ast.Constant)):
            continue
        else:
            return False
    return True


def _pure_view(body, ci, name) -> bool:
    """A getter that only tests and returns pure expressions of other fields, for a name without a private twin."""
    if not body or not any(isinstance(x, ast.Return) for x in ast.walk(ast.Module(body=list(body), type_ignores=[]))):
        return False
    twin = "_" + name
    for n in ast.walk(ci.node):
        if isinstance(n, ast.Attribute) and n.attr == twin:
            return False  # a private twin exists: this is a stored property and must be transparent
    return _pure_stmts(body)


def _unread_accessor(repo: Repo, g, name: str) -> bool:
    from .ir import api_signature
    if api_signature(g) is not None:
        return False
    key = ("attr_loads", name)
    if key not in repo.memo:
        n = 0
        for mi in repo.modules.values():
            for node in ast.walk(mi.tree):
                if isinstance(node, ast.Attribute) and node.attr == name and isinstance(node.ctx, ast.Load):
                    n += 1
                if isinstance(node, ast.Call) and isinstance(node.func, ast.Name) and node.func.id in ("getattr", "hasattr") \
                        and len(node.args) >= 2 and isinstance(node.args[1], ast.Constant) and node.args[1].value == name:
                    n += 1
        repo.memo[key] = n
    return repo.memo[key] == 0


def check_mutable_defaults(rep, repo: Repo, pre: str = "") -> int:
    """MUTABLE-default: a parameter whose default is a list / dict / set display (one object for all calls) and that is
    stored on an object, appended to or returned makes every object built with the default share - and accumulate in -
    that one container."""
    n = 0
    # the same for the default of a record field (`class Doc(NamedTuple): data: list = []`): one list for every record built
    # without that field; filled through any of them it is seen by all
    from .ir import named_tuple_fields
    for mi in repo.modules.values():
        for cname, ci in mi.classes.items():
            for fname, d in named_tuple_fields(repo, cname) or ():
                if d is None or not (isinstance(d, (ast.List, ast.Dict, ast.Set)) or (
                        isinstance(d, ast.Call) and isinstance(d.func, ast.Name) and d.func.id in ("list", "dict", "set") and not d.args)):
                    continue
                n += 1
                fill = None
                for m2 in repo.modules.values():
                    for node in ast.walk(m2.tree):
                        if isinstance(node, ast.Call) and isinstance(node.func, ast.Attribute) and isinstance(node.func.value, ast.Attribute) \
                                and node.func.value.attr == fname and node.func.attr in ("append", "extend", "insert", "update", "add", "setdefault"):
                            fill = node
                        if isinstance(node, ast.Subscript) and isinstance(node.ctx, ast.Store) and isinstance(node.value, ast.Attribute) \
                                and node.value.attr == fname:
                            fill = node
                getter = None
                if fill is not None:
                    getter = next((f for f in repo.all_functions() if any(x is fill for x in ast.walk(f.node))), None)
                getter = getter or next(iter(ci.methods.values()), None) or next(iter(mi.functions.values()), None) \
                    or next(iter(repo.all_functions()))
                rep.fn(pre + "MUTABLE-default", getter, f"default of record field {cname}.{fname} ({unparse(d)}) is never filled", fill is None,
                       f"'{unparse(fill)[:70] if fill is not None else ''}' fills the one default object shared by every {cname} built "
                       "without that field: what one call collects is still there for the next",
                       line=getattr(fill, "lineno", ci.node.lineno))
    for fi in repo.all_functions():
        a = fi.node.args
        pos = a.posonlyargs + a.args
        pairs = list(zip([x.arg for x in reversed(pos)], reversed(a.defaults))) + \
            [(x.arg, d) for x, d in zip(a.kwonlyargs, a.kw_defaults) if d is not None]
        for name, d in pairs:
            mutable = isinstance(d, (ast.List, ast.Dict, ast.Set)) or (
                isinstance(d, ast.Call) and isinstance(d.func, ast.Name) and d.func.id in ("list", "dict", "set") and not d.args)
            if not mutable:
                continue
            n += 1
            escapes = None
            for node in ast.walk(fi.node):
                if isinstance(node, ast.Assign) and isinstance(node.value, ast.Name) and node.value.id == name and any(
                        isinstance(t, (ast.Attribute, ast.Subscript)) for t in node.targets):
                    escapes = node
                if isinstance(node, ast.Return) and isinstance(node.value, ast.Name) and node.value.id == name:
                    escapes = node
                if isinstance(node, ast.Call) and isinstance(node.func, ast.Attribute) and isinstance(node.func.value, ast.Name) \
                        and node.func.value.id == name and node.func.attr in ("append", "extend", "insert", "update", "add", "setdefault"):
                    escapes = node
            rep.fn(pre + "MUTABLE-default", fi, f"default of '{name}' ({unparse(d)}) does not escape {fi.qual}", escapes is None,
                   f"'{unparse(escapes)[:70] if escapes is not None else ''}' keeps / fills the one default object shared by all calls: "
                   "every object built with the default shares (and accumulates in) the same container",
                   line=getattr(escapes, "lineno", fi.node.lineno))
    return n


def check_transparent_properties(rep, repo: Repo, pre: str = "") -> int:
    n = 0
    from .ir import named_tuple_fields
    _RECORD_CLASSES.clear()
    _RECORD_CLASSES.update(cn for mi in repo.modules.values() for cn in mi.classes if named_tuple_fields(repo, cn) is not None)
    for mi in repo.modules.values():
        for ci in mi.classes.values():
            for name, g in ci.getters.items():
                n += 1
                body = _body(g.node)
                want = DERIVED_GETTERS.get((ci.name, name), f"self._{name}")
                ok = len(body) == 1 and isinstance(body[0], ast.Return) and body[0].value is not None \
                    and unparse(body[0].value) in (want, want.replace("self.", "self._"))  # (the field read directly)
                if not ok and name not in ci.setters and _pure_view(body, ci, name):
                    # a read-only, computed view of other fields (no setter, no private twin written anywhere): it cannot
                    # make a stored field differ from what was stored
                    ok = True
                    want = "a pure expression of other fields (read-only view)"
                if not ok and name not in ci.setters and _unread_accessor(repo, g, name):
                    # an accessor the documented API does not have and no library code reads: what it returns cannot
                    # reach any of the algorithms
                    ok = True
                    want = "whatever it likes (new read-only accessor that no library code reads)"
                rep.fn(pre + "PROP-getter", g, f"{ci.name}.{name} getter returns {want}", ok,
                       f"the getter returns '{unparse(body[0].value) if body and isinstance(body[0], ast.Return) and body[0].value is not None else '...'}': "
                       "reads of this field are not the stored value")
            for name, st in ci.setters.items():
                n += 1
                body = _body(st.node)
                params = st.params
                ok = False
                detail = "a setter may only validate (raise) and then store its argument unchanged"
                if len(params) == 2 and body:
                    last = body[-1]
                    checks = body[:-1]
                    okstore = isinstance(last, ast.Assign) and len(last.targets) == 1 \
                        and unparse(last.targets[0]) == f"self._{name}" and unparse(last.value) == params[1]
                    rebinds = [x for x in ast.walk(st.node) if isinstance(x, (ast.Assign, ast.AugAssign))
                               and x is not last]
                    ok = okstore and _only_raises(checks, mi) and not rebinds
                    if not okstore:
                        detail = f"the setter stores '{unparse(last)[:80]}' instead of `self._{name} = {params[1]}`"
                if not ok:
                    ok2, d2 = _setter_semantic(repo, ci, name, st)
                    if ok2:
                        ok = True
                    elif d2:
                        detail = d2
                rep.fn(pre + "PROP-setter", st, f"{ci.name}.{name} setter stores its argument unchanged", ok, detail)
    return n


def _truth(t, env):
    if t[0] == "and":
        return all(_truth(x, env) for x in t[1])
    if t[0] == "or":
        return any(_truth(x, env) for x in t[1])
    if t[0] == "not":
        return not _truth(t[1], env)
    if t[0] == "const":
        return bool(t[1])
    return env[t]


def _atoms(t, out):
    if t[0] in ("and", "or"):
        for x in t[1]:
            _atoms(x, out)
    elif t[0] == "not":
        _atoms(t[1], out)
    elif t[0] != "const":
        out.add(t)


def _setter_semantic(repo: Repo, ci, name: str, st) -> tuple:
    """Path-wise reading of a setter written with guard clauses / early returns: on every path that does not raise,
    exactly the argument is stored into the private twin, nothing else is stored, and no loop or call with effects
    intervenes. Decided by enumerating the truth assignments of the (at most 8) guard atoms of the loop-free body."""
    import itertools
    params = st.params
    if len(params) != 2:
        return False, ""
    try:
        w = Walker(repo, st, self_class=ci.name, inline=lambda f: f.cls is None and f.module == ci.module
                   and f.name.startswith("_") and not f.name.startswith("__"))
    except AnalysisError:
        return False, ""
    if w.loops:
        return False, "a setter may not loop"
    twin = ("attr", ("self",), "_" + name)
    arg = ("param", params[1])
    stores = [e for e in w.events if e.kind == "store"]
    def unwrap(v):
        # `value.item()` is the same number as a Python scalar; a selection whose arms are both the argument is the argument
        if v[0] == "call" and v[1] == ("attr", arg, "item") and not v[2] and not v[3]:
            return arg
        if v[0] == "sel":
            a, b = unwrap(v[2]), unwrap(v[3])
            if a == b:
                return a
        return v

    def same_as_arg(e):
        if e.value == arg or unwrap(e.value) == arg:
            return True
        if e.value[0] == "const":  # `if x is None: self._x = None`: the constant IS the argument on that path
            for f in facts(e.guards):
                if f[0] == "cmp" and f[1] in ("is", "==") and {f[2], f[3]} == {arg, e.value}:
                    return True
        return False

    def never_read(e):
        # a store into a field that nothing in the library ever loads (a bookkeeping twin kept in step): unobservable
        t = e.target
        if not (t[0] == "attr" and t[1] == ("self",) and t != twin):
            return False
        key = ("attr_loads", t[2])
        if key not in repo.memo:
            repo.memo[key] = sum(1 for mi in repo.modules.values() for n in ast.walk(mi.tree)
                                 if isinstance(n, ast.Attribute) and n.attr == t[2] and isinstance(n.ctx, ast.Load))
        return repo.memo[key] == 0

    def flag_as_bool(e):
        # `bool(flag)` after `isinstance(flag, (bool, np.bool_))` was enforced: the same truth value
        v = e.value
        if not (v[0] == "call" and v[1] == ("builtin", "bool") and v[2] == (arg,) and not v[3]):
            return False
        for r in w.events:
            if r.kind == "raise":
                for g, pol in r.guards:
                    t = g if pol else mk_not(g)
                    if t[0] == "not" and t[1][0] == "call" and t[1][1] == ("builtin", "isinstance") and t[1][2][:1] == (arg,):
                        types = t[1][2][1]
                        names = [types] if types[0] != "tuple" else list(types[1])
                        if names and all(x in (("builtin", "bool"), ("mod", "numpy.bool_"), ("mod", "numpy.bool")) for x in names):
                            return True
        return False

    def derived_twin(e):
        # `self._flag = f(arg)` next to the store of the argument, with f built from the argument and constants only and
        # the field written nowhere else in the class: a cached function of the stored value, always in step with it
        t = e.target
        if not (t[0] == "attr" and t[1] == ("self",) and t != twin) or e.aug or e.guards != next(
                (x.guards for x in stores if x.target == twin), None):
            return False
        from .ir import subterms
        leaves = [u for u in subterms(e.value) if u[0] in ("param", "attr", "idx", "call", "phi", "iter", "free", "alloc", "new")]
        if any(u != arg for u in leaves):
            return False
        for fi in list(ci.methods.values()) + list(ci.setters.values()):
            if fi is st:
                continue
            for n in ast.walk(fi.node):
                if isinstance(n, ast.Attribute) and n.attr == t[2] and isinstance(n.ctx, (ast.Store, ast.Del)):
                    return False
        return True

    stores = [e for e in stores if not never_read(e) and not derived_twin(e)]
    if any(e.target != twin or not (same_as_arg(e) or flag_as_bool(e)) or e.aug for e in stores):
        bad = next(e for e in stores if e.target != twin or not (same_as_arg(e) or flag_as_bool(e)) or e.aug)
        return False, f"the setter stores '{bad.text()[:80]}' (only `self._{name} = {params[1]}` is allowed)"
    if any(e.kind == "bind" and e.name == params[1] for e in w.events):
        return False, f"the setter rebinds its argument '{params[1]}' before storing it"
    atoms = set()
    for e in w.events:
        for g, _ in e.guards:
            _atoms(g, atoms)
    atoms = sorted(atoms, key=repr)
    if len(atoms) > 8:
        return False, ""
    for bits in itertools.product((False, True), repeat=len(atoms)):
        env = dict(zip(atoms, bits))
        live = [e for e in w.events if all(_truth(g, env) == pol for g, pol in e.guards)]
        if any(e.kind == "raise" for e in live):
            continue
        n = sum(1 for e in live if e.kind == "store" and not never_read(e) and not derived_twin(e))
        if n != 1:
            return False, (f"on the path where {', '.join(show(a)[:40] + '=' + str(b) for a, b in env.items())} the argument is stored "
                           f"{n} times")
    return True, ""


def check_constants(rep, repo: Repo, pre: str = "") -> None:
    c = repo.constants
    fi = repo.need_method("OPF", "__init__")
    mi = repo.module("opfython.utils.constants")

    def ob(name, ok, detail):
        rep.chk.ob(pre + "CONST", "opfython.utils.constants", name, ok, detail, file=mi.relpath, line=1)

    colours = [c.get("WHITE"), c.get("GRAY"), c.get("BLACK")]
    ob("WHITE, GRAY, BLACK are pairwise distinct", len(set(colours)) == 3 and None not in colours,
       f"colours are {colours}: the heap's typestate collapses")
    ob("NIL == -1", c.get("NIL") == -1, f"NIL is {c.get('NIL')!r}: it must not be a valid node index (>= 0)")
    ob("STANDARD != PROTOTYPE", c.get("STANDARD") != c.get("PROTOTYPE") and c.get("PROTOTYPE") is not None, "status flags coincide")
    ob("IRRELEVANT != RELEVANT", c.get("IRRELEVANT") != c.get("RELEVANT") and c.get("RELEVANT") is not None, "relevance flags coincide")
    ob("FLOAT_MAX = sys.float_info.max", c.get("FLOAT_MAX") == ("expr", "sys.float_info.max"),
       f"FLOAT_MAX is {c.get('FLOAT_MAX')!r}: it must dominate every attainable cost and distance")
    md = c.get("MAX_DENSITY")
    ob("MAX_DENSITY > 1", isinstance(md, (int, float)) and md > 1, f"MAX_DENSITY is {md!r}")
    eps = c.get("EPSILON")
    ob("0 < EPSILON <= 1e-6", isinstance(eps, float) and 0 < eps <= 1e-6, f"EPSILON is {eps!r}")
    k = c.get("MAX_ARC_WEIGHT")
    ob("MAX_ARC_WEIGHT > 0", isinstance(k, (int, float)) and k > 0, f"MAX_ARC_WEIGHT is {k!r}")


NODE_DEFAULTS = {"pred": "c.NIL", "status": "c.STANDARD", "relevant": "c.IRRELEVANT", "adjacency": "[]",
                 "n_plateaus": "0"}


def check_node_defaults(rep, repo: Repo, pre: str = "", fields=None) -> None:
    fi = repo.need_method("Node", "__init__")
    found: Dict[str, str] = {}
    for s in fi.node.body:
        if isinstance(s, ast.Assign) and len(s.targets) == 1 and unparse(s.targets[0]).startswith("self."):
            found[unparse(s.targets[0])[5:]] = unparse(s.value)
    # defaults assigned in a private helper that __init__ calls unconditionally (`self._reset_forest_state()`)
    from .ir import api_signature, show
    w = Walker(repo, fi, self_class="Node", inline=lambda f: f.cls == "Node" and not f.name.startswith("__") and (
        f.name.startswith("_") or (api_signature(f) is None and not f.decorators)))
    terms: Dict[str, object] = {}
    for e in w.events:
        if e.kind == "store" and not e.guards and not e.loops and not e.aug \
                and e.target[0] == "attr" and e.target[1] == ("self",):
            terms[e.target[2].lstrip("_")] = e.value
            if isinstance(e.stmt, ast.Assign) and len(e.stmt.targets) == 1 and not isinstance(e.stmt.targets[0], ast.Tuple):
                found[e.target[2]] = unparse(e.stmt.value)
    WANT_TERMS = {"pred": [("K", "NIL")], "status": [("K", "STANDARD")], "relevant": [("K", "IRRELEVANT")],
                  "n_plateaus": [("const", 0)]}
    for f, want in NODE_DEFAULTS.items():
        if fields is not None and f not in fields:
            continue
        ok = found.get(f) == want
        if not ok and f in terms:
            v = terms[f]
            if f == "adjacency":
                ok = v[0] == "alloc" and v[1] in ("list", "builtin.list") and not v[2]  # a list created by this call
            else:
                ok = v in WANT_TERMS.get(f, [])
        rep.fn(pre + "NODE-default", fi, f"a fresh node has {f} = {want}", ok,
               f"Node.__init__ sets {f} = {found.get(f) or (show(terms[f]) if f in terms else None)!r}")
    a = fi.node.args
    for p, d in zip(reversed(a.args), reversed(a.defaults)):
        if isinstance(d, (ast.List, ast.Dict, ast.Set)):
            rep.fn(pre + "NODE-shared-default", fi, f"parameter {p.arg} has a mutable default", False,
                   "a mutable default argument is shared by every node created without that argument")


def raise_conditions(w: Walker):
    """Positive facts under which the entry function raises (argument / state validation)."""
    out = set()
    for e in w.events:
        if e.kind == "raise":
            for f in facts(e.guards):
                out.add(f)
    return out


def validation_guard(exits, g, pol) -> bool:
    """(g, pol) is the complement of a test whose other arm leaves the function (one of `exits`): `if bad: raise` puts
    (bad, False) on everything after it; `if a or b: raise` puts (a, False) and (b, False)."""
    for r in exits:
        for rg, rp in r.guards:
            if (rg, rp) == (g, not pol):
                return True
            if rp and not pol and rg[0] == "or" and g in rg[1]:
                return True
            if rp and pol and rg[0] == "or" and any(mk_not(part) == g for part in rg[1]):
                return True  # `if not a or not b: raise` puts (a, True) and (b, True) on what follows
    return False


def values_of(t):
    """The value of a term, through conversions that keep every element as it is: np.asarray(v) / np.asanyarray(v) /
    np.array(v) without a dtype are v; v.reshape(0, ...) is v (it exists only for a v without elements); a selection
    whose arms agree is that arm."""
    if not isinstance(t, tuple) or not t:
        return t
    t = tuple(values_of(x) if isinstance(x, tuple) else x for x in t)
    if t[0] == "call" and t[1] in (("mod", "numpy.asarray"), ("mod", "numpy.asanyarray")) and len(t[2]) == 1 and not t[3]:
        return t[2][0]
    if t[0] == "alloc" and t[1] in ("numpy.array", "numpy.asarray") and len(t[2]) == 1 and not t[3]:
        return t[2][0]
    if t[0] == "call" and t[1][0] == "attr" and t[1][2] == "reshape" and t[2] and t[2][0] == ("const", 0) and not t[3]:
        return t[1][1]
    if t[0] == "sel" and t[2] == t[3]:
        return t[2]
    if t[0] == "sel" and t[1][0] == "call" and t[1][1] == ("builtin", "isinstance") and len(t[1][2]) == 2 \
            and t[1][2][0] == t[2] and t[1][2][1] == ("mod", "numpy.ndarray"):
        return t[2]  # `x if isinstance(x, np.ndarray) else <coerced x>`: the inputs the properties speak of are arrays
    if t[0] == "sel" and t[1][0] == "call" and t[1][1] == ("builtin", "hasattr") and len(t[1][2]) == 2 \
            and t[1][2][1] in (("const", "to_numpy"), ("const", "values"), ("const", "tolist")) and t[1][2][0] == t[3]:
        return t[3]  # `x.to_numpy() if hasattr(x, "to_numpy") else x`: arrays and lists have no such method
    if t[0] == "old":
        return t[1]
    return t


def _rejections(w):
    """Exits that reject an input before the algorithm starts: raises, and the entry function's early return for an
    empty argument (`if len(X) == 0: return []`) - the inputs the properties quantify over are not empty."""
    out = [e for e in w.events if e.kind == "raise"]
    for e in w.events:
        if is_empty_exit(w, e):
            out.append(e)
    return out


def values_view(w):
    """without_validation + values_of on every term of every event."""
    import dataclasses
    import types
    raises = _rejections(w)
    keep = lambda gs: tuple((values_of(g), pl) for g, pl in gs if not validation_guard(raises, g, pl))
    view = types.SimpleNamespace(
        entry=w.entry, repo=getattr(w, "repo", None),
        loops={lid: dataclasses.replace(li, guards=keep(li.guards), domain=values_of(li.domain)) for lid, li in w.loops.items()},
        events=[dataclasses.replace(e, target=values_of(e.target), value=values_of(e.value),
                                    args=tuple(values_of(a) for a in (e.args or ())), guards=keep(e.guards)) for e in w.events])
    return view


def without_validation(w):
    """View of a walk in which the complements of `if bad: raise` tests are dropped from every event's and loop's guards:
    validation dominates the body without being part of the algorithm (on the inputs it rejects there is no result at all)."""
    import dataclasses
    import types
    raises = _rejections(w)
    if not raises:
        return w
    keep = lambda gs: tuple((g, pl) for g, pl in gs if not validation_guard(raises, g, pl))
    view = types.SimpleNamespace(entry=w.entry, repo=getattr(w, "repo", None),
                                 loops={lid: dataclasses.replace(li, guards=keep(li.guards)) for lid, li in w.loops.items()},
                                 events=[dataclasses.replace(e, guards=keep(e.guards)) for e in w.events])
    for name in ("lists", "mut_tables"):
        if hasattr(w, name):
            setattr(view, name, getattr(w, name))
    return view


def empty_input_test(g, pol) -> bool:
    """`len(arg) == 0` / `arg is None` / `arg.size == 0` / `not len(arg)`: the test of an empty argument."""
    t = g if pol else mk_not(g)
    def sized(x):
        if x[0] == "sel" and x[1][0] == "cmp" and x[1][1] in ("is", "is not") and ("const", None) in x[1][2:] \
                and ("const", 0) in x[2:4]:
            other = x[3] if x[2] == ("const", 0) else x[2]  # 0 if arg is None else len(arg)
            return sized(other)
        return (x[0] == "call" and x[1] == ("builtin", "len") and len(x[2]) == 1 and x[2][0][0] == "param") or \
            (x[0] == "attr" and x[2] == "size" and x[1][0] == "param") or \
            (x[0] == "idx" and x[1][0] == "attr" and x[1][2] == "shape" and x[1][1][0] == "param" and x[2] == ("const", 0))
    if t[0] == "cmp" and t[1] == "==" and ((sized(t[2]) and t[3] == ("const", 0)) or (sized(t[3]) and t[2] == ("const", 0))):
        return True
    if t[0] == "cmp" and t[1] in ("<", "<=") and sized(t[2]) and t[3] in (("const", 1), ("const", 0)):
        return t[1] == "<" or t[3] == ("const", 0)
    if t[0] == "cmp" and t[1] == "is" and {t[2][0], t[3][0]} == {"param", "const"} and ("const", None) in (t[2], t[3]):
        return True
    if t[0] == "not" and sized(t[1]):
        return True
    if t[0] == "or":
        return all(empty_input_test(x, True) for x in t[1])
    if t[0] == "and":
        # `X is not None and len(X) == 0`
        given = [x for x in t[1] if x[0] == "cmp" and x[1] == "is not" and {x[2][0], x[3][0]} == {"param", "const"}
                 and ("const", None) in (x[2], x[3])]
        rest = [x for x in t[1] if x not in given]
        return bool(rest) and all(empty_input_test(x, True) for x in rest)
    return False


def is_empty_exit(w, e) -> bool:
    """A return of the entry function taken for an empty argument: its innermost test is the emptiness test, the tests
    around it are validation complements or `arg is not None`."""
    if not (e.kind == "return" and e.fn is w.entry and not e.loops and e.guards):
        return False
    g, pol = e.guards[-1]
    if not empty_input_test(values_of(g), pol):
        return False
    raises = [r for r in w.events if r.kind == "raise"]
    for g2, p2 in e.guards[:-1]:
        t = g2 if p2 else mk_not(g2)
        given = t[0] == "cmp" and t[1] == "is not" and {t[2][0], t[3][0]} == {"param", "const"} and ("const", None) in (t[2], t[3])
        if not (given or validation_guard(raises, g2, p2)):
            return False
    return True


def main_returns(w: Walker):
    """Returns of the entry function, without early exits taken for an empty argument (`if len(X) == 0: return []`)."""
    out = []
    for e in w.events:
        if e.kind == "return" and e.fn is w.entry:
            if is_empty_exit(w, e):
                continue
            out.append(e)
    return out


def check_entry_unconditional(rep, w: Walker, guards, rule: str, what: str, line: int = 0) -> None:
    """`guards` dominate a schema construct: each must be the negation of a validation test that raises."""
    rc = raise_conditions(w)
    exits = [e for e in w.events if e.kind == "raise" or (e.kind == "return" and e.fn is w.entry and not e.loops)]

    empty_input = empty_input_test

    def validated(g, pol) -> bool:
        # the other arm of this very test leaves the function: by raising, or - for an empty argument - by returning
        for e in exits:
            if validation_guard([e], g, pol):
                if e.kind == "raise" or empty_input(g, not pol):
                    return True
        return False
    bad = [f for (g, pol) in guards for f in [g if pol else mk_not(g)] if not validated(g, pol)
           and not all(mk_not(x) in rc for x in facts(((g, pol),)))]
    rep.fn(rule, w.entry, f"{what} is reached on every valid call", not bad,
           "" if not bad else f"{what} is skipped when not ({show(bad[0])[:120]}): an early exit / extra condition leaves the "
           "schema unexecuted on some inputs", line=line or w.entry.node.lineno)


def heap_default_policy(repo: Repo) -> str:
    fi = repo.need_method("Heap", "__init__")
    a = fi.node.args
    for p, d in zip(reversed(a.args), reversed(a.defaults)):
        if p.arg == "policy" and isinstance(d, ast.Constant):
            return d.value
    raise AnalysisError("Heap.__init__: default policy not found")


def appended_results(w, per, x, value, fields=None):
    """The results collected by `out.append(x.field)` once per query: for each component of the returned value (a list created
    empty before the per-query loop) exactly one append, directly in that loop, under no test of its own, after every store
    to the query node x in the same round, with argument x.<field>.  Returns the list of fields in order, or None."""
    from .ir import facts
    comps = [value] if value[0] == "alloc" else (list(value[1]) if value[0] == "tuple" else [])
    out = []
    if not comps:
        return None
    for c in comps:
        if not (c[0] == "alloc" and c[1] == "list" and c[2] == ()):
            return None
        made = [e for e in w.events if e.kind == "call" and e.value == c]
        apps = [e for e in w.events if e.kind == "call" and e.target is not None and e.target[0] == "attr" and e.target[1] == c]
        if len(made) != 1 or per.lid in made[0].loops or made[0].seq > per.first_seq or len(apps) != 1:
            return None
        a = apps[0]
        if a.name != "append" or a.loops != per.loops + (per.lid,) or len(a.args) != 1 \
                or [f for f in facts(a.guards) if f not in facts(per.guards)]:
            return None
        v = a.args[0]
        if not (v[0] == "attr" and v[1] == x):
            return None
        later = [e for e in w.events if e.kind == "store" and e.seq > a.seq and per.lid in e.loops
                 and e.target[0] == "attr" and e.target[1] == x and e.target[2] == v[2]]
        if later:
            return None
        out.append(v[2])
    if fields is not None and out != list(fields):
        return None
    return out


TRANSPARENT_DECORATORS = {"njit", "jit", "avoid_zero_division", "property", "setter", "wraps", "staticmethod", "classmethod",
                          "abstractmethod", "dataclass", "contextmanager"}


def passthrough_decorator(repo: Repo, fi, deco: str):
    """Is `@deco` on fi a tracing / timing wrapper that calls the wrapped function exactly once with the arguments it was given
    and hands its result back?  (True, "") / (False, reason) / (None, reason) when the decorator cannot be read.
    The wrapper may time, log and warn; a library helper it calls must write nothing (effect summaries) and its value must
    not reach the wrapped call."""
    from .common import get_effects
    from .ir import write_summaries
    last = deco.split("(")[0].split(".")[-1]
    if last in TRANSPARENT_DECORATORS:
        return True, ""
    mi = repo.modules.get(fi.module)
    name = deco.split("(")[0]
    target = None
    if mi is not None and name in mi.functions:
        target = mi.functions[name]
    elif mi is not None and name.split(".")[0] in mi.imports and len(name.split(".")) == 2:
        m2 = repo.modules.get(mi.imports[name.split(".")[0]])
        target = m2.functions.get(name.split(".")[1]) if m2 is not None else None
    elif mi is not None and mi.imports.get(name, "").startswith("opfython."):
        mod, _, fn = mi.imports[name].rpartition(".")
        m2 = repo.modules.get(mod)
        target = m2.functions.get(fn) if m2 is not None else None
    if target is None and last in ("lru_cache", "cache", "cached_property", "memoize", "memoized", "singledispatch"):
        return False, (f"@{deco} keeps a table of earlier results: a later call with equal-looking arguments gets the stored answer, "
                       "whatever the objects hold by then")
    if target is None:
        return None, f"decorator '{deco}' is not a function of the library"
    node = target.node
    body = lambda n: [x for x in n.body if not (isinstance(x, ast.Expr) and isinstance(x.value, ast.Constant))]
    if "(" in deco:
        # a decorator factory: `def timed(label): def decorator(f): ...; return decorator`
        inner = [x for x in body(node) if isinstance(x, ast.FunctionDef)]
        rest = [x for x in body(node) if not isinstance(x, ast.FunctionDef)]
        if len(inner) != 1 or len(rest) != 1 or not isinstance(rest[0], ast.Return) or unparse(rest[0].value) != inner[0].name:
            return None, f"decorator factory '{name}' does not simply return one inner decorator"
        node = inner[0]
    params = [a.arg for a in node.args.args]
    if len(params) != 1 or node.args.vararg or node.args.kwarg:
        return None, f"'{name}' does not take exactly the wrapped function"
    fparam = params[0]
    inner = [x for x in body(node) if isinstance(x, ast.FunctionDef)]
    rest = [x for x in body(node) if not isinstance(x, ast.FunctionDef)]
    # (`signature = inspect.signature(f)` and the like before the wrapper: read once, changes nothing)
    rest = [x for x in rest if not (isinstance(x, ast.Assign) and len(x.targets) == 1 and isinstance(x.targets[0], ast.Name)
                                    and (isinstance(x.value, (ast.Constant, ast.Name, ast.Attribute))
                                         or (isinstance(x.value, ast.Call) and unparse(x.value.func) in
                                             ("inspect.signature", "signature", "logging.getLogger", "getattr")
                                             )))]
    if len(inner) != 1 or len(rest) != 1 or not isinstance(rest[0], ast.Return) or unparse(rest[0].value) != inner[0].name:
        return None, f"'{name}' does not simply define and return one wrapper"
    W = inner[0]
    for d in W.decorator_list:
        if unparse(d).split("(")[0].split(".")[-1] != "wraps":
            return None, f"the wrapper of '{name}' is itself decorated by {unparse(d)}"
    a = W.args
    pos = [x.arg for x in a.posonlyargs + a.args]
    if a.kwonlyargs or a.defaults or a.kw_defaults:
        return False, f"the wrapper of '{name}' gives its parameters defaults / keyword-only names: the call it makes is not the call it received"
    want = ", ".join(pos + (["*" + a.vararg.arg] if a.vararg else []) + (["**" + a.kwarg.arg] if a.kwarg else []))
    calls = [n for n in ast.walk(W) if isinstance(n, ast.Call) and isinstance(n.func, ast.Name) and n.func.id == fparam]
    if len(calls) != 1:
        return False, f"the wrapper of '{name}' calls the wrapped function {len(calls)} times"
    got = ", ".join([unparse(x) for x in calls[0].args] + [("**" + unparse(k.value)) if k.arg is None else f"{k.arg}={unparse(k.value)}"
                                                           for k in calls[0].keywords])
    if not (a.vararg and a.kwarg) and (a.vararg or a.kwarg):
        return False, f"the wrapper of '{name}' accepts ({want}): a call with the other kind of argument fails or is cut short"
    if got != want:
        return False, f"the wrapper of '{name}' receives ({want}) but calls the wrapped function with ({got}): arguments are dropped, reordered or replaced"
    # the result is handed back unchanged
    call = calls[0]
    res_names = set()
    ok_ret = False
    for n in ast.walk(W):
        if isinstance(n, ast.Return) and n.value is call:
            ok_ret = True
        if isinstance(n, ast.Assign) and n.value is call and len(n.targets) == 1 and isinstance(n.targets[0], ast.Name):
            res_names.add(n.targets[0].id)
    rets = [n for n in ast.walk(W) if isinstance(n, ast.Return)]
    if res_names:
        r = next(iter(res_names))
        rebinds = [n for n in ast.walk(W) if isinstance(n, ast.Name) and n.id == r and isinstance(n.ctx, ast.Store)]
        ok_ret = len(rebinds) == 1 and bool(rets) and all(isinstance(x.value, ast.Name) and x.value.id == r for x in rets)
    elif not (ok_ret and len(rets) == 1):
        ok_ret = False
    if not ok_ret:
        return False, f"the wrapper of '{name}' does not return the wrapped function's result as it is"
    # everything else: timing, logging, warnings, and library helpers that write nothing
    eff = get_effects(repo)
    ws = write_summaries(repo)
    for n in ast.walk(W):
        if isinstance(n, (ast.Global, ast.Nonlocal)):
            return False, f"the wrapper of '{name}' keeps state between calls ({unparse(n)})"
        if isinstance(n, (ast.Attribute, ast.Subscript)) and isinstance(n.ctx, (ast.Store, ast.Del)):
            return False, f"the wrapper of '{name}' writes '{unparse(n)[:60]}': state kept or changed around the call"
        if isinstance(n, ast.Call) and n is not call:
            ftxt = unparse(n.func)
            head = ftxt.split(".")[0]
            if isinstance(n.func, ast.Attribute) and n.func.attr in ("sort", "fill", "reverse", "append", "extend", "insert", "pop", "remove",
                                                                     "clear", "update", "setdefault", "resize", "put", "itemset", "partition"):
                return False, f"the wrapper of '{name}' calls the in-place method {ftxt}()"
            if head in ("logger", "logging", "warnings", "time", "functools", "inspect", "len", "isinstance", "str", "repr", "type",
                        "getattr", "hasattr", "float", "int", "round", "format", "min", "max", "sum", "np", "numpy", "signature",
                        "list", "tuple", "dict", "set", "sorted", "zip", "enumerate", "range", "bool", "abs", "any", "all", "id"):
                continue
            if ftxt.endswith((".bind", ".apply_defaults", ".get", ".items", ".keys", ".values", ".format", ".join", ".perf_counter")):
                continue
            callee = None
            if mi is not None and isinstance(n.func, ast.Name):
                callee = repo.modules[target.module].functions.get(n.func.id)
            elif isinstance(n.func, ast.Attribute) and unparse(n.func.value) in pos[:1]:
                cands = [f for f in repo.all_functions() if f.name == n.func.attr and f.cls is not None]
                callee = cands[0] if cands else None
                if ws.get(n.func.attr):
                    return False, (f"the wrapper of '{name}' calls {ftxt}(), which writes {sorted(ws[n.func.attr])[:4]}: "
                                   "the object is changed around every call")
            if callee is None:
                return None, f"the wrapper of '{name}' calls '{ftxt}', which cannot be resolved"
            w_h = eff.writes.get(callee.fq)
            if w_h is None:
                from .effects import Effects
                w_h = Effects(repo, roots=[callee]).writes.get(callee.fq, {})
            if w_h:
                p0, hits = next(iter(w_h.items()))
                return False, (f"the wrapper of '{name}' calls {callee.qual}, which writes through its argument '{p0}' "
                               f"({hits[0][1]}): the caller's data is changed before / after the wrapped call")
            if ws.get(callee.name):
                return False, f"the wrapper of '{name}' calls {callee.qual}, which writes {sorted(ws[callee.name])[:4]}"
    return True, ""


def check_decorators(rep, repo: Repo, pre: str = "") -> int:
    """DECORATOR: every decorator on a function of the library other than the known transparent ones is a pass-through
    wrapper (see passthrough_decorator); one that cannot be read is an analysis error."""
    from .core import AnalysisError
    n = 0
    for fi in repo.all_functions():
        for d in fi.decorators:
            if d.split("(")[0].split(".")[-1] in TRANSPARENT_DECORATORS or d.endswith((".setter", ".getter", ".deleter")):
                continue
            n += 1
            ok, why = passthrough_decorator(repo, fi, d)
            if ok is None:
                raise AnalysisError(f"{fi.qual}: @{d}: {why}")
            rep.fn(pre + "DECORATOR", fi, f"@{d} passes the call through unchanged", ok, why)
    return n


def view_root(t):
    """The array a term is a view of: through basic indexing, .T / .ravel() / .reshape() / .view() / .diagonal(),
    np.asarray / np.ravel / ... (no copy for an ndarray of the right type), a stale copy marker.  Copies (np.array, .copy(),
    .flatten(), sorted, list(...), arithmetic) end the chain: the term itself is returned."""
    from .effects import VIEW_FUNCS, VIEW_METHODS, is_basic_index
    for _ in range(40):
        if t[0] == "old":
            t = t[1]
        elif t[0] == "idx" and is_basic_index(t[2]) is not False:
            t = t[1]
        elif t[0] == "attr" and t[2] in VIEW_METHODS:
            t = t[1]
        elif t[0] == "call" and t[1][0] == "attr" and t[1][2] in (VIEW_METHODS | {"diagonal"}):
            t = t[1][1]
        elif t[0] == "call" and t[1][0] == "mod" and t[1][1] in (VIEW_FUNCS | {"numpy.diagonal", "numpy.diag"}) and t[2]:
            t = t[2][0]
        elif t[0] == "alloc" and t[1] in ("numpy.asarray", "numpy.asanyarray") and t[2]:
            t = t[2][0]
        else:
            break
    return t


def inplace_writes(w, protected):
    """Events of a walk that write IN PLACE into an array / list for which `protected(root)` holds, through any chain of
    views: a mutating method (.sort(), .reverse(), .fill(), ...), a numpy function that writes its first argument
    (np.fill_diagonal, np.put, ...), `out=`, a subscript store.  Yields (event, root, how)."""
    from .effects import ARRAY_MUTATORS, NP_INPLACE_FIRST_ARG
    for e in w.events:
        if e.kind == "call" and e.target is not None:
            tg = e.target
            if tg[0] == "attr" and tg[2] in ARRAY_MUTATORS:
                r = view_root(tg[1])
                if protected(r):
                    yield e, r, f"in-place method .{tg[2]}()"
            if tg[0] == "mod" and tg[1] in NP_INPLACE_FIRST_ARG and e.args:
                r = view_root(e.args[0])
                if protected(r):
                    yield e, r, f"{tg[1]} writes its first argument"
            for k, v in (e.kwargs or ()):
                if k == "out":
                    r = view_root(v)
                    if protected(r):
                        yield e, r, "out= writes into it"
        elif e.kind == "store" and e.target[0] == "idx":
            r = view_root(e.target[1])
            if protected(r):
                yield e, r, "subscript store"


def check_model_state_untouched(rep, repo: Repo, pre: str = "") -> int:
    """INPLACE: outside the documented writers nothing writes in place into the pre-computed matrix, the conquest order or
    an array the caller passed to fit / predict - not even through a view held by a diagnostic (`w = M.ravel(); w.sort()`).
    (learn / prune exchange rows of their training and validation arrays: documented, and decided by C17.)"""
    from .common import model_walk
    from .ir import show
    n = 0
    for cls in ("SupervisedOPF", "SemiSupervisedOPF", "KNNSupervisedOPF", "UnsupervisedOPF"):
        for m in ("fit", "predict"):
            fi = repo.method(cls, m)
            if fi is None or fi.cls != cls and (cls, m) != ("SemiSupervisedOPF", "predict"):
                pass
            try:
                w = model_walk(repo, cls, m)
            except Exception:
                continue
            if w.entry.cls != cls:
                continue  # inherited: analysed with the class that defines it
            n += 1

            def protected(r):
                if r[0] == "param":
                    return True
                if r[0] == "attr" and r[2] == "pre_distances":
                    return True
                return False
            for e, r, how in inplace_writes(w, protected):
                rep.ev(pre + "INPLACE", e, False,
                       f"{how} on '{show(r)[:60]}' (reached through a view): "
                       + ("the caller's array is changed" if r[0] == "param" else "the model's distance matrix is changed")
                       + " by a statement that is not one of the algorithm's documented writes")
            # the conquest order is only ever appended to
            for e in w.events:
                if e.kind == "call" and e.target is not None and e.target[0] == "attr" and e.target[2] != "append":
                    r = view_root(e.target[1])
                    from .effects import ARRAY_MUTATORS
                    if r[0] == "attr" and r[2] == "idx_nodes" and e.target[2] in ARRAY_MUTATORS:
                        rep.ev(pre + "INPLACE", e, False,
                               f".{e.target[2]}() on the conquest order idx_nodes: the order predict relies on is rearranged")
    return n


def check_alias_writeback(rep, repo: Repo, pre: str = "") -> int:
    """ALIAS-writeback: `np.fill_diagonal(M, d)` / `np.copyto(M, v)` / `np.put(M, ix, v)` where the value written is a VIEW of
    the array written (`d = M.diagonal()`, no copy): whatever was stored into M since the view was taken is what gets written
    back - a save-and-restore that restores nothing.  Checked in every function of the library."""
    from .effects import NP_INPLACE_FIRST_ARG
    from .ir import Walker, show
    n = 0
    key = ("alias_writeback",)
    if key not in repo.memo:
        found = []
        for fi in repo.all_functions():
            src = repo.modules[fi.module].source if hasattr(repo.modules[fi.module], "source") else ""
            txt = unparse(fi.node)
            if not any(k.rsplit(".", 1)[1] in txt for k in NP_INPLACE_FIRST_ARG):
                continue
            try:
                w = Walker(repo, fi, self_class=fi.cls)
            except Exception:
                continue
            for e in w.events:
                if e.kind == "call" and e.target is not None and e.target[0] == "mod" and e.target[1] in NP_INPLACE_FIRST_ARG \
                        and len(e.args) >= 2:
                    dst = view_root(e.args[0])
                    for v in e.args[1:]:
                        if isinstance(v, tuple) and v and v[0] not in ("const", "K") and view_root(v) == dst and v != e.args[0]:
                            found.append((e, show(v)[:60], show(dst)[:40]))
        repo.memo[key] = found
    for e, v, dst in repo.memo[key]:
        n += 1
        rep.ev(pre + "ALIAS-writeback", e, False,
               f"the value written, '{v}', is a view of the array it is written into ('{dst}'): it holds what was stored there "
               "in the meantime, not what was there when it was taken (take a copy)")
    return n


def check_function_inplace(rep, w, rule: str, what: str) -> int:
    """Nothing writes in place (through any view) into an argument of the function or into an array it returns, except plain
    subscript stores into arrays the function allocated itself (those are how it builds its results)."""
    from .ir import show
    rets = [e for e in w.events if e.kind == "return" and e.fn is w.entry and e.value is not None]
    result_roots = set()
    for r in rets:
        comps = list(r.value[1]) if r.value[0] == "tuple" else [r.value]
        for c in comps:
            result_roots.add(view_root(c))

    def protected(r):
        return r[0] == "param" or r in result_roots
    n = 0
    for e, r, how in inplace_writes(w, protected):
        if e.kind == "store" and r[0] != "param":
            continue  # filling one's own result element by element
        if how.startswith("in-place method") and r[0] != "param" and e.target[2] in ("append", "extend", "insert"):
            continue  # collecting results in a list of one's own
        n += 1
        rep.ev(rule, e, False, f"{how} on '{show(r)[:60]}' ({'an argument' if r[0] == 'param' else 'an array that is returned'} of {what}, "
               "reached through a view): the caller's data / the result is rearranged by a statement that only meant to inspect it")
    return n
