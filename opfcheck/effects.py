"""E4: effect / ownership / determinism analysis.

* write-through summaries: for every function, the parameters through which it may write
  (directly, or by passing them to a callee that does), computed to a fixpoint over a
  name-resolved call graph, flow-sensitively per function on the IR (so `x = x + e`
  followed by `x += 1` is *not* a write through the parameter x);
* fields that hold borrowed (caller-owned) arrays;
* reachability over the call graph;
* nondeterminism sources and module-state accesses.
"""

from __future__ import annotations

import ast
from typing import Dict, List, Optional, Set, Tuple

from .core import FunctionInfo, Repo, unparse
from .ir import Event, Term, Walker, show, subterms

ARRAY_MUTATORS = {"fill", "sort", "put", "resize", "partition", "itemset", "setfield", "setflags", "byteswap",
                  "append", "extend", "insert", "pop", "remove", "clear", "reverse", "update", "__setitem__"}
NP_INPLACE_FIRST_ARG = {"numpy.copyto", "numpy.put", "numpy.place", "numpy.putmask", "numpy.fill_diagonal",
                        "numpy.random.shuffle", "random.shuffle", "numpy.put_along_axis"}
VIEW_FUNCS = {"numpy.asarray", "numpy.asanyarray", "numpy.ravel", "numpy.reshape", "numpy.transpose",
              "numpy.squeeze", "numpy.atleast_1d", "numpy.atleast_2d", "numpy.ascontiguousarray"}
VIEW_METHODS = {"view", "reshape", "ravel", "squeeze", "transpose", "swapaxes", "T"}
SCALAR_ANN = ("int", "float", "str", "bool", "callable", "Optional[str]", "Optional[int]", "Optional[bool]")
NONDET = ("numpy.random.", "random.", "time.", "os.urandom", "uuid.", "secrets.", "datetime.")


def array_params(fi: FunctionInfo) -> List[str]:
    out = []
    a = fi.node.args
    for p in a.posonlyargs + a.args + a.kwonlyargs:
        if p.arg == "self":
            continue
        ann = unparse(p.annotation) if p.annotation is not None else ""
        if ann in SCALAR_ANN:
            continue
        out.append(p.arg)
    if a.vararg is not None:
        out.append(a.vararg.arg)
    return out


def bind_args(callee: FunctionInfo, ev: Event) -> List[Tuple[str, Term]]:
    """(parameter of the callee, argument term) pairs of a call event; surplus positionals go to `*args`."""
    a = callee.node.args
    pos = [p.arg for p in a.posonlyargs + a.args if p.arg != "self"]
    bound = list(zip(pos, ev.args))
    if a.vararg is not None:
        bound += [(a.vararg.arg, x) for x in ev.args[len(pos):]]
    names = set(callee.params)
    bound += [(k, v) for k, v in ev.kwargs if k in names]
    return bound


def is_array_valued(t: Term) -> bool:
    """Evidently an array / list (so that using it as an index makes a copy)."""
    while t[0] in ("idx", "old"):
        if t[0] == "idx" and t[2][0] != "slice":
            return False
        t = t[1]
    if t[0] == "alloc":
        return True
    if t[0] == "call" and t[1][0] == "mod" and t[1][1].startswith("numpy."):
        return True
    if t[0] in ("list", "listcomp"):
        return True
    return False


def is_basic_index(ix: Term):
    """True: basic indexing (a view).  False: evidently an array index (a copy).  None: unknown."""
    if ix[0] == "slice":
        return True
    if ix[0] == "tuple":
        parts = [is_basic_index(x) for x in ix[1]]
        if any(p is False for p in parts):
            return False
        return True if all(p is True for p in parts) else None
    if ix[0] == "const" and isinstance(ix[1], int):
        return True
    if is_array_valued(ix):
        return False
    return None


class Effects:
    def __init__(self, repo: Repo, roots: List[FunctionInfo] = None):
        self.repo = repo
        self.roots = roots or []
        self.borrowed_params: Set[Tuple[str, str]] = set()
        self.funcs: Dict[str, FunctionInfo] = {}
        for fi in repo.all_functions():
            self.funcs[fi.fq] = fi
        self.by_name: Dict[str, List[FunctionInfo]] = {}
        for fi in self.funcs.values():
            self.by_name.setdefault(fi.name, []).append(fi)
        self.walkers: Dict[str, Walker] = {}
        self.borrow_fields: Set[str] = set()
        self.writes: Dict[str, Dict[str, List[Tuple[Event, str]]]] = {}  # fq -> param -> [(event, how)]
        self._compute()

    # -- walking ---------------------------------------------------------------
    def walker(self, fi: FunctionInfo) -> Walker:
        if fi.fq not in self.walkers:
            self.walkers[fi.fq] = Walker(self.repo, fi, self_class=fi.cls, inline=lambda f: False)
            # nested closures (decorators) are analysed as functions of their own
        return self.walkers[fi.fq]

    def nested_functions(self, fi: FunctionInfo) -> List[FunctionInfo]:
        out = []
        for n in ast.walk(fi.node):
            if isinstance(n, ast.FunctionDef) and n is not fi.node:
                out.append(FunctionInfo(fi.module, fi.cls, f"{fi.name}.<locals>.{n.name}", n,
                                        [unparse(d) for d in n.decorator_list]))
        return out

    # -- borrowed values -----------------------------------------------------------
    def root_param(self, t: Term, depth: int = 0) -> Optional[str]:
        """Name of the parameter whose storage t (may) alias, or None.
        '<field>' is returned for values read from a borrow-holding field."""
        if depth > 30:
            return None
        tag = t[0]
        if tag == "param":
            return t[1]
        if tag == "old":
            return self.root_param(t[1], depth + 1)
        if tag == "idx":
            r = self.root_param(t[1], depth + 1)
            if r is None:
                return None
            b = is_basic_index(t[2])
            if b is False:
                return None
            return r
        if tag == "attr":
            if t[2] in self.borrow_fields:
                return "<field " + t[2] + ">"
            if t[2] in VIEW_METHODS:
                return self.root_param(t[1], depth + 1)
            return None
        if tag in ("iter",):
            return self.root_param(t[1], depth + 1)
        if tag == "iterproj":
            dom = t[1]
            if dom[0] == "call" and dom[1] in (("builtin", "zip"), ("builtin", "enumerate")):
                args = dom[2]
                path = t[3]
                if dom[1] == ("builtin", "enumerate"):
                    if path and path[0] == 1 and args:
                        inner = args[0]
                        if len(path) > 1 and inner[0] == "call" and inner[1] == ("builtin", "zip"):
                            k = path[1]
                            return self.root_param(inner[2][k], depth + 1) if k < len(inner[2]) else None
                        return self.root_param(inner, depth + 1)
                    return None
                k = path[0] if path else None
                if k is not None and k < len(args):
                    return self.root_param(args[k], depth + 1)
            return None
        if tag == "call":
            f = t[1]
            if f[0] == "mod" and f[1] in VIEW_FUNCS and t[2]:
                return self.root_param(t[2][0], depth + 1)
            if f[0] == "attr" and f[2] in VIEW_METHODS:
                return self.root_param(f[1], depth + 1)
            if f[0] == "attr" and f[2] == "astype" and (dict(t[3]).get("copy") == ("const", False) or
                                                        (len(t[2]) >= 5 and t[2][4] == ("const", False))):
                return self.root_param(f[1], depth + 1)  # no copy when the type already matches
            if f[0] == "mod" and f[1] in ("numpy.array", "numpy.asarray", "numpy.asanyarray") and t[2] and (
                    f[1] != "numpy.array" or dict(t[3]).get("copy") == ("const", False)):
                return self.root_param(t[2][0], depth + 1)  # asarray / array(copy=False) hand back the argument itself
            return None
        if tag == "listcomp":
            # a list of views: its elements alias whatever the element expression aliases
            return self.root_param(t[1], depth + 1)
        if tag == "alloc" and t[1] in ("list", "builtin.list", "tuple", "builtin.tuple") and t[2]:
            for x in t[2]:
                r = self.root_param(x, depth + 1)
                if r is not None:
                    return r
            return None
        if tag == "star":
            return self.root_param(t[1], depth + 1)
        if tag == "tuple":
            for x in t[1]:
                r = self.root_param(x, depth + 1)
                if r is not None:
                    return r
            return None
        if tag == "sel":
            return self.root_param(t[2], depth + 1) or self.root_param(t[3], depth + 1)
        if tag == "phi":
            li = None
            return None
        return None

    # -- per-function direct writes ---------------------------------------------------
    def _direct(self, fi: FunctionInfo) -> Dict[str, List[Tuple[Event, str]]]:
        w = self.walker(fi)
        out: Dict[str, List[Tuple[Event, str]]] = {}

        def add(p, ev, how):
            if p is not None:
                out.setdefault(p, []).append((ev, how))

        arrs = set(array_params(fi))
        for ev in w.events:
            if ev.kind == "bind" and ev.aug and isinstance(ev.stmt, ast.AugAssign) and not getattr(ev.stmt, "_from_assign", False):
                # x += e on an ndarray is in place; the old value is the left operand of the new term
                new = ev.value
                old = None
                if new[0] == "bin":
                    cands = [new[2], new[3]]
                    old = next((c for c in cands if self.root_param(c) is not None), None)
                if old is not None:
                    p = self.root_param(old)
                    if p in arrs or (p or "").startswith("<field"):
                        add(p, ev, f"in-place '{ev.aug}=' on an array that aliases caller data")
            elif ev.kind == "store":
                tgt = ev.target
                if tgt[0] == "idx":
                    p = self.root_param(tgt[1])
                    if p in arrs or (p or "").startswith("<field"):
                        add(p, ev, "subscript store into an array that aliases caller data")
                elif tgt[0] == "attr" and ev.aug:
                    # obj.f += e with f holding a borrowed array
                    if tgt[2] in self.borrow_fields:
                        add("<field " + tgt[2] + ">", ev, "in-place update of a field that aliases caller data")
            elif ev.kind == "call":
                tgt = ev.target
                if tgt is not None and tgt[0] == "attr" and tgt[2] in ARRAY_MUTATORS:
                    p = self.root_param(tgt[1])
                    if p in arrs or (p or "").startswith("<field"):
                        add(p, ev, f"in-place method .{tgt[2]}() on an array that aliases caller data")
                if tgt is not None and tgt[0] == "mod" and tgt[1] in NP_INPLACE_FIRST_ARG and ev.args:
                    p = self.root_param(ev.args[0])
                    if p in arrs or (p or "").startswith("<field"):
                        add(p, ev, f"{tgt[1]} writes its first argument, which aliases caller data")
                if tgt is not None and tgt[0] == "mod" and tgt[1] in ("numpy.nan_to_num",) and ev.args \
                        and dict(ev.kwargs).get("copy") == ("const", False):
                    p = self.root_param(ev.args[0])
                    if p in arrs or (p or "").startswith("<field"):
                        add(p, ev, f"{tgt[1]}(..., copy=False) rewrites its argument, which aliases caller data")
                for k, v in ev.kwargs:
                    if k == "out":
                        p = self.root_param(v)
                        if p in arrs or (p or "").startswith("<field"):
                            add(p, ev, "out= targets an array that aliases caller data")
        return out

    def callees(self, ev: Event, fi: FunctionInfo) -> List[FunctionInfo]:
        """Repository functions an event may call (name-based over-approximation)."""
        tgt = ev.target
        if tgt is None:
            return []
        if ev.name == "__new__" and ev.value is not None and ev.value[0] == "new":
            m = self.repo.method(ev.value[1], "__init__")
            return [m] if m else []
        if tgt[0] == "mod" and tgt[1].startswith("opfython"):
            mod, _, name = tgt[1].rpartition(".")
            mi = self.repo.modules.get(mod)
            if mi and name in mi.functions:
                return [mi.functions[name]]
            return []
        if tgt[0] == "attr":
            meth = tgt[2]
            recv = tgt[1]
            if recv == ("self",) and fi.cls:
                m = self.repo.method(fi.cls, meth)
                # subclasses may override
                outs = [m] if m else []
                for f2 in self.by_name.get(meth, []):
                    if f2.cls and f2 not in outs and fi.cls in [c.name for c in self.repo.mro(f2.cls)]:
                        outs.append(f2)
                return outs
            if recv[0] == "call" and recv[1] == ("builtin", "super"):
                if fi.cls:
                    for ci in self.repo.mro(fi.cls)[1:]:
                        if meth in ci.methods:
                            return [ci.methods[meth]]
                    return []
                return [f for f in self.by_name.get(meth, []) if f.cls]
            if meth in ("distance_fn",) or (recv[0] == "idx" and recv[1] == ("mod", "opfython.math.distance.DISTANCES")):
                return self.registry_functions()
            return [f for f in self.by_name.get(meth, []) if f.cls]
        if tgt[0] == "param" and tgt[1] in ("distance_function", "distance_fn", "f"):
            return self.registry_functions()
        if tgt[0] == "free" and ".<locals>." in fi.name:
            outer = fi.name.split(".<locals>.")[0]
            return [f for f in self.funcs.values()
                    if any(d.split("(")[0].split(".")[-1] == outer for d in f.decorators)]
        if tgt[0] == "idx" and tgt[1] == ("mod", "opfython.math.distance.DISTANCES"):
            return self.registry_functions()
        return []

    _registry: Optional[List[FunctionInfo]] = None

    def registry_functions(self) -> List[FunctionInfo]:
        if self._registry is None:
            mi = self.repo.module("opfython.math.distance")
            self._registry = [f for n, f in mi.functions.items() if n.endswith("_distance")]
        return self._registry

    def _compute(self) -> None:
        # fixpoint 1: borrow-holding fields
        all_fis = list(self.funcs.values())
        for fi in list(all_fis):
            for nf in self.nested_functions(fi):
                self.funcs[nf.fq] = nf
                all_fis.append(nf)
        # propagate "carries caller data" from the array parameters of the entry points
        work = []
        for r in self.roots:
            for p in array_params(r):
                if (r.fq, p) not in self.borrowed_params:
                    self.borrowed_params.add((r.fq, p))
                    work.append(r)
        rounds = 0
        while work and rounds < 2000:
            rounds += 1
            fi = work.pop()
            mine = {p for (fq, p) in self.borrowed_params if fq == fi.fq}
            w = self.walker(fi)

            def borrowed(t):
                p = self.root_param(t)
                return p is not None and (p in mine or p.startswith("<field"))

            for ev in w.events:
                if ev.kind == "store" and ev.target[0] == "attr" and not ev.aug and borrowed(ev.value):
                    f = ev.target[2].lstrip("_")
                    if f not in self.borrow_fields:
                        self.borrow_fields.add(f)
                        self.borrow_fields.add("_" + f)
                        self.walkers.clear()
                        work.extend(self.funcs.values())
                if ev.kind == "call":
                    for callee in self.callees(ev, fi):
                        bound = bind_args(callee, ev)
                        for cp, arg in bound:
                            if borrowed(arg) and (callee.fq, cp) not in self.borrowed_params:
                                self.borrowed_params.add((callee.fq, cp))
                                work.append(callee)
            # nested closures see the enclosing function's parameters
            for nf in self.nested_functions(fi):
                pass
        self.walkers.clear()
        # direct writes
        for fi in all_fis:
            self.writes[fi.fq] = self._direct(fi)
        # fixpoint 2: transitive through calls
        changed = True
        rounds = 0
        while changed and rounds < 10:
            changed = False
            rounds += 1
            for fi in all_fis:
                w = self.walker(fi)
                arrs = set(array_params(fi))
                for ev in w.events:
                    if ev.kind != "call":
                        continue
                    for callee in self.callees(ev, fi):
                        cw = self.writes.get(callee.fq, {})
                        if not cw:
                            continue
                        bound = bind_args(callee, ev)
                        for cp, arg in bound:
                            if cp in cw:
                                p = self.root_param(arg)
                                if p is not None and (p in arrs or p.startswith("<field")):
                                    lst = self.writes[fi.fq].setdefault(p, [])
                                    how = f"passed to {callee.qual}, which writes through its parameter '{cp}'"
                                    if not any(e is ev and h == how for e, h in lst):
                                        lst.append((ev, how))
                                        changed = True

    # -- reachability ------------------------------------------------------------------
    def reachable(self, roots: List[FunctionInfo]) -> List[FunctionInfo]:
        seen: Dict[str, FunctionInfo] = {}
        todo = list(roots)
        while todo:
            fi = todo.pop()
            if fi.fq in seen:
                continue
            seen[fi.fq] = fi
            w = self.walker(fi)
            for ev in w.events:
                if ev.kind == "call":
                    for c in self.callees(ev, fi):
                        if c.fq not in seen:
                            todo.append(c)
            for nf in self.nested_functions(fi):
                if nf.fq not in seen:
                    todo.append(self.funcs.get(nf.fq, nf))
            # decorators applied to this function run around it
            for d in fi.decorators:
                name = d.split("(")[0].split(".")[-1]
                for f2 in self.by_name.get(name, []):
                    if f2.fq not in seen:
                        todo.append(f2)
        return list(seen.values())

    # -- nondeterminism -----------------------------------------------------------------
    def inlined_walker(self, fi: FunctionInfo) -> Walker:
        """fi with its private same-class / same-module helpers inlined (value flow across an extracted helper)."""
        key = "inl:" + fi.fq
        if key not in self.walkers:
            def private(f, fi=fi):
                return f.name.startswith("_") and not f.name.startswith("__") and f.module == fi.module \
                    and (f.cls is None or f.cls == fi.cls or (fi.cls and f.cls in [c.name for c in self.repo.mro(fi.cls)]))
            self.walkers[key] = Walker(self.repo, fi, self_class=fi.cls, inline=private)
        return self.walkers[key]

    def nondet_calls(self, fi: FunctionInfo, inlined: bool = False) -> List[Event]:
        out = []
        for ev in (self.inlined_walker(fi) if inlined else self.walker(fi)).events:
            if ev.kind == "call" and ev.target is not None and ev.target[0] == "mod":
                if any(ev.target[1].startswith(p) for p in NONDET):
                    out.append(ev)
            if ev.kind == "call" and ev.target in (("builtin", "id"), ("builtin", "hash")):
                out.append(ev)
        return out

    def flows_only_to_logger(self, fi: FunctionInfo, src: Event, inlined: bool = False) -> Tuple[bool, str]:
        """Does the value produced by `src` reach anything but logger arguments (and locals)?"""
        w = self.inlined_walker(fi) if inlined else self.walker(fi)
        val = src.value
        for ev in w.events:
            if ev is src or ev.kind == "bind":
                continue
            if inlined and ((ev.kind == "return" and ev.fn is not w.entry) or (ev.kind == "call" and ev.name == "<inline>")):
                continue  # handed to / back from an inlined private helper: its uses there are events of this walk
            tops = [x for x in (ev.target, ev.value) if x is not None] + list(ev.args) + [v for _, v in ev.kwargs]
            tops += [g for g, _ in ev.guards]
            hit = any(val == s for top in tops for s in subterms(top))
            if not hit:
                continue
            if ev.kind == "call" and ev.target is not None and show(ev.target).startswith("logger."):
                continue
            if ev.kind == "call" and ev.value == val:
                continue
            return False, ev.text()
        return True, ""
