"""Best-so-far scans (R-BEST): extraction of the running optimum, its companions and the
position variable from a loop's carried variables."""

from __future__ import annotations

from dataclasses import dataclass, field
from typing import Dict, List, Optional, Tuple

from .ir import LoopInfo, Term, Walker, conj, show
from .rules_heap import _sub, lin, lin_eq


@dataclass
class BestScan:
    loop: LoopInfo
    best: str
    init: Term
    cand: Term
    cond: Term  # canonical cmp term of the acceptance
    relation: str  # 'cand<best', 'cand<=best', 'best<cand', 'best<=cand'
    companions: Dict[str, Tuple[Term, Term]] = field(default_factory=dict)  # name -> (init, value on accept)
    others: Dict[str, Tuple[Term, Term]] = field(default_factory=dict)
    outer_guards: List[Term] = field(default_factory=list)  # guards around the acceptance test


def find_best_scans(w: Walker, li: LoopInfo) -> List[BestScan]:
    out = []
    from .ir import mk_not

    def orient(t, phi):
        """sel(g, phi, X) (a `continue` / skipped path keeps the old value) is sel(not g, X, phi)."""
        if t[0] == "sel" and t[2] == phi and t[3] != phi:
            return ("sel", mk_not(t[1]), t[3], phi)
        return t

    def orient_all(t, phi):
        t = orient(t, phi)
        if t[0] == "sel" and t[3] == phi:
            return ("sel", t[1], orient_all(t[2], phi), phi)
        return t

    for name, (init, end) in li.carried.items():
        phi = ("phi", li.lid, name)
        end = orient_all(end, phi)
        if end[0] != "sel" or end[3] != phi:
            continue
        outer = []
        # peel guards wrapped around the acceptance: sel(g, sel(acc, cand, phi), phi)
        while end[0] == "sel" and end[3] == phi and end[2][0] == "sel" and end[2][3] == phi:
            outer.append(end[1])
            end = end[2]
        c, cand = end[1], end[2]
        if c[0] != "cmp" or c[1] not in ("<", "<="):
            continue
        if (c[2], c[3]) == (cand, phi):
            rel = "cand" + c[1] + "best"
        elif (c[2], c[3]) == (phi, cand):
            rel = "best" + c[1] + "cand"
        else:
            continue
        bs = BestScan(li, name, init, cand, c, rel)
        bs.outer_guards = outer
        for n2, (i2, e2) in li.carried.items():
            if n2 == name:
                continue
            phi2 = ("phi", li.lid, n2)
            e2 = orient_all(e2, phi2)
            for g in outer:
                if e2[0] == "sel" and e2[1] == g and e2[3] == phi2:
                    e2 = e2[2]
            if e2[0] == "sel" and e2[1] == c and e2[3] == phi2:
                bs.companions[n2] = (i2, e2[2])
            else:
                bs.others[n2] = (i2, e2)
        out.append(bs)
    return out


def find_detached_scans(w: Walker, li: LoopInfo):
    """A companion is updated under a comparison with a carried value that is itself NOT updated exactly in that
    branch (the running optimum was moved out of / dropped from the accepted branch): [(name, test, end value)]."""
    out = []
    for m, (init, end) in li.carried.items():
        phi = ("phi", li.lid, m)
        for n2, (i2, e2) in li.carried.items():
            if n2 == m:
                continue
            t = e2
            while t[0] == "sel":
                c = t[1]
                if c[0] == "cmp" and c[1] in ("<", "<=") and phi in (c[2], c[3]):
                    cand = c[3] if c[2] == phi else c[2]
                    exact = end[0] == "sel" and end[1] == c and end[3] == phi and end[2] == cand
                    if not exact and (m, c) not in [(a, b) for a, b, _ in out]:
                        out.append((m, c, end))
                t = t[2] if t[3] == ("phi", li.lid, n2) else t[3]
    return out


def position_vars(li: LoopInfo) -> Dict[str, Term]:
    """Variables advanced unconditionally by +1 per iteration: name -> init."""
    out = {}
    for name, (init, end) in li.carried.items():
        phi = ("phi", li.lid, name)
        if lin_eq(lin(end), {phi: 1, 1: 1}):
            out[name] = init
    return out


@dataclass
class OrderedScan:
    """A scan over consecutive positions of an order: one view of `while j < n - 1 ... j += 1` (the element
    examined is j + 1) and of `for j in range(a, n): ... break` (the element examined is j)."""

    bs: BestScan
    form: str  # 'while' | 'for'
    pos: Term  # position examined in an iteration
    prev: Optional[Term]  # position examined in the previous iteration (while form: j)
    first: Optional[Term]  # first position examined
    problems: List[Tuple[str, str]] = field(default_factory=list)  # (rule suffix, detail)
    bound: List[Tuple[Term, bool]] = field(default_factory=list)  # (test, exact?)
    exits: List[Term] = field(default_factory=list)  # continuation tests other than the bound
    posname: str = ""
    element: Optional[Term] = None  # element form (`for t in order`): the term of the element examined

    def examined(self, order: Term) -> Term:
        """The element of `order` examined in an iteration."""
        return self.element if self.element is not None else ("idx", order, self.pos)


def _loop_exits(w: Walker, li: LoopInfo) -> List[Term]:
    """Continuation tests spelt as `if c: break` in a for loop."""
    from .ir import facts, mk_not
    out = []
    base = set(facts(li.guards))
    for e in w.events:
        if e.kind == "break" and e.loops and e.loops[-1] == li.lid:
            own = [f for f in facts(e.guards) if f not in base]
            if len(own) == 1:
                out.append(mk_not(own[0]))
            else:
                out.append(("not", ("and", tuple(own))))
    return out


def ordered_scan(w: Walker, bs: BestScan, sizes: List[Term], orders: Tuple[Term, ...] = ()) -> OrderedScan:
    """`sizes`: terms denoting the number of elements of the order scanned; `orders`: the sequences whose element loop
    (`for t in order`) is a scan of all positions from 0."""
    from .ir import facts, mk_not
    li = bs.loop
    if li.kind == "for" and li.domain in orders:
        P = ("iter", li.domain, li.lid)
        v = OrderedScan(bs, "for", ("undef",), None, ("const", 0), posname=show(P), element=P)
        v.bound.append((("cmp", "<", ("undef",), ("call", ("builtin", "len"), (li.domain,), ())), True))
        v.exits = _loop_exits(w, li)
        return v
    if li.kind == "while":
        pos = position_vars(li)
        if len(pos) != 1:
            v = OrderedScan(bs, "while", ("undef",), None, None)
            v.problems.append(("position", f"position variables found: {sorted(pos)}"))
            return v
        jname, jinit = next(iter(pos.items()))
        J = ("phi", li.lid, jname)
        nxt = ("bin", "+", *sorted([("const", 1), J], key=repr))
        first = ("const", jinit[1] + 1) if jinit[0] == "const" and isinstance(jinit[1], int) else None
        # which position does a round examine?  `while j < n - 1: ... order[j + 1]` looks one ahead of the counter;
        # `j = 1; while j < n: ... order[j]` looks at the counter itself - told apart by the bound
        own = False
        for c in conj(li.cond):
            if c[0] == "cmp" and c[1] == "<" and any(lin_eq(_sub(lin(c[3]), lin(c[2])), {n: 1, J: -1}) for n in sizes):
                own = True
        if own:
            v = OrderedScan(bs, "while", J, None, jinit if jinit[0] == "const" else None, posname=jname)
            if jinit[0] != "const":
                v.problems.append(("start", f"{jname} starts at {show(jinit)}"))
            for c in conj(li.cond):
                if c[0] == "cmp" and c[1] == "<" and any(lin_eq(_sub(lin(c[3]), lin(c[2])), {n: 1, J: -1}) for n in sizes):
                    v.bound.append((c, True))
                elif c[0] == "cmp" and c[1] in ("<", "<=") and lin(c[3]) is not None and lin(c[2]) is not None \
                        and J in (_sub(lin(c[3]), lin(c[2])) or {}) and any(n in (_sub(lin(c[3]), lin(c[2])) or {}) for n in sizes):
                    v.bound.append((c, False))
                else:
                    v.exits.append(c)
            return v
        v = OrderedScan(bs, "while", nxt, J, first, posname=jname)
        if first is None:
            v.problems.append(("start", f"{jname} starts at {show(jinit)}"))
        for c in conj(li.cond):
            if c[0] == "cmp" and c[1] in ("<", "<="):
                d = _sub(lin(c[3]), lin(c[2]))
                hit = False
                for n in sizes:
                    if lin_eq(d, {n: 1, J: -1, 1: -1 if c[1] == "<" else -2}):
                        v.bound.append((c, True))
                        hit = True
                        break
                    if d is not None and J in d and n in d:
                        v.bound.append((c, False))
                        hit = True
                        break
                if hit:
                    continue
            v.exits.append(c)
        return v
    if li.kind == "for":
        d = li.domain
        if d is None or d[0] != "call" or d[1] != ("builtin", "range") or d[3] or not 1 <= len(d[2]) <= 3:
            v = OrderedScan(bs, "for", ("undef",), None, None)
            v.problems.append(("position", f"the scan domain '{show(d) if d else '?'}' is not a range of positions"))
            return v
        a = d[2]
        lo, hi = (("const", 0), a[0]) if len(a) == 1 else (a[0], a[1])
        P = ("iter", d, li.lid)
        # `for j in range(1, n)` examines position j; `for j in range(n - 1)` examines position j + 1
        shift = 0
        exact = hi in sizes
        if not exact and any(lin_eq(_sub(lin(hi), lin(n)), {1: -1}) for n in sizes):
            shift, exact = 1, True
        pos = P if shift == 0 else ("bin", "+", *sorted([("const", 1), P], key=repr))
        first = lo if shift == 0 else (("const", lo[1] + 1) if lo[0] == "const" and isinstance(lo[1], int) else None)
        v = OrderedScan(bs, "for", pos, P if shift else None, first, posname=show(P))
        if len(a) == 3 and a[2] != ("const", 1):
            v.problems.append(("position", f"the scan advances by {show(a[2])} positions per iteration"))
        c = ("cmp", "<", P, hi)
        v.bound.append((c, exact))
        v.exits = _loop_exits(w, li)
        return v
    v = OrderedScan(bs, li.kind, ("undef",), None, None)
    v.problems.append(("position", f"unsupported scan loop kind {li.kind}"))
    return v
