"""Best-so-far scans (R-BEST): extraction of the running optimum, its companions and the
position variable from a loop's carried variables."""

from __future__ import annotations

from dataclasses import dataclass, field
from typing import Dict, List, Optional, Tuple

from .ir import LoopInfo, Term, Walker, conj, show
from .rules_heap import _sub, lin, lin_eq


@dataclass
class BestScan:
    loop: LoopInfo
    best: str
    init: Term
    cand: Term
    cond: Term  # canonical cmp term of the acceptance
    relation: str  # 'cand<best', 'cand<=best', 'best<cand', 'best<=cand'
    companions: Dict[str, Tuple[Term, Term]] = field(default_factory=dict)  # name -> (init, value on accept)
    others: Dict[str, Tuple[Term, Term]] = field(default_factory=dict)
    outer_guards: List[Term] = field(default_factory=list)  # guards around the acceptance test


def find_best_scans(w: Walker, li: LoopInfo) -> List[BestScan]:
    out = []
    for name, (init, end) in li.carried.items():
        phi = ("phi", li.lid, name)
        if end[0] != "sel" or end[3] != phi:
            continue
        outer = []
        # peel guards wrapped around the acceptance: sel(g, sel(acc, cand, phi), phi)
        while end[0] == "sel" and end[3] == phi and end[2][0] == "sel" and end[2][3] == phi:
            outer.append(end[1])
            end = end[2]
        c, cand = end[1], end[2]
        if c[0] != "cmp" or c[1] not in ("<", "<="):
            continue
        if (c[2], c[3]) == (cand, phi):
            rel = "cand" + c[1] + "best"
        elif (c[2], c[3]) == (phi, cand):
            rel = "best" + c[1] + "cand"
        else:
            continue
        bs = BestScan(li, name, init, cand, c, rel)
        bs.outer_guards = outer
        for n2, (i2, e2) in li.carried.items():
            if n2 == name:
                continue
            phi2 = ("phi", li.lid, n2)
            for g in outer:
                if e2[0] == "sel" and e2[1] == g and e2[3] == phi2:
                    e2 = e2[2]
            if e2[0] == "sel" and e2[1] == c and e2[3] == phi2:
                bs.companions[n2] = (i2, e2[2])
            else:
                bs.others[n2] = (i2, e2)
        out.append(bs)
    return out


def position_vars(li: LoopInfo) -> Dict[str, Term]:
    """Variables advanced unconditionally by +1 per iteration: name -> init."""
    out = {}
    for name, (init, end) in li.carried.items():
        phi = ("phi", li.lid, name)
        if lin_eq(lin(end), {phi: 1, 1: 1}):
            out[name] = init
    return out
