"""E3: schema extraction (relational, not textual).

Locates, by shape, the constructs the rules talk about:
  * competition loops   `while not H.is_empty(): p = H.remove() ...`
  * arc-weight selectors `W(a, b)`: one term with a pre-computed arm and a metric arm
  * k-nearest insertion scans
and returns records whose fields are IR terms, so that rules can relate terms of
the same construct (the compared term is the stored term, ...).
"""

from __future__ import annotations

from dataclasses import dataclass, field
from typing import Dict, List, Optional, Tuple

from .ir import Event, LoopInfo, Term, Walker, facts, mk_not, show, subterms
from .kinds import Kinds, count_of, node_of, nodes_of


# ---------------------------------------------------------------------------
# loops over all nodes of a graph
# ---------------------------------------------------------------------------


def node_loop(li: LoopInfo):
    """(G, index term or None, node term) when the for-loop visits every node of graph G once, in
    ascending order: `for i in range(G.n_nodes)`, `for n in G.nodes`, `for i, n in enumerate(G.nodes)`."""
    if li.kind != "for" or li.domain is None:
        return None
    dom = li.domain
    if dom[0] == "call" and dom[1] == ("builtin", "range") and not dom[3]:
        args = dom[2]
        if len(args) == 1 or (len(args) == 2 and args[0] == ("const", 0)):
            g = count_of(args[-1])
            if g is not None:
                ix = ("iter", dom, li.lid)
                return g, ix, ("idx", ("attr", g, "nodes"), ix)
        return None
    g = nodes_of(dom)
    if g is not None:
        return g, None, ("iter", dom, li.lid)
    if dom[0] == "call" and dom[1] == ("builtin", "enumerate") and len(dom[2]) == 1 and not dom[3]:
        g = nodes_of(dom[2][0])
        if g is not None:
            ix = ("iterproj", dom, li.lid, (0,))
            return g, ix, ("idx", ("attr", g, "nodes"), ix)
    if dom[0] == "call" and dom[1] == ("builtin", "zip") and len(dom[2]) >= 2 and not dom[3]:
        # zip stops at the shortest operand: every other operand must have (at least) one entry per node
        gs = [nodes_of(a) for a in dom[2]]
        hit = [g for g in gs if g is not None]
        if len(hit) >= 1:
            g = hit[0]
            rest_ok = True
            for a, ga in zip(dom[2], gs):
                if ga == g:
                    continue
                if a[0] == "alloc" and a[1] in ("numpy.zeros", "numpy.empty", "numpy.ones", "numpy.full") and a[2] \
                        and count_of(a[2][0]) == g:
                    continue
                rest_ok = False
            if rest_ok:
                ix = ("iterproj", dom, li.lid, ("pos",))
                return g, ix, ("idx", ("attr", g, "nodes"), ix)
    return None


# ---------------------------------------------------------------------------
# arc-weight selector
# ---------------------------------------------------------------------------


@dataclass
class Selector:
    term: Term
    flag: Term
    pre: Term  # M[a][b]
    fn: Term  # distance_fn(fa, fb)
    event: Event

    @property
    def matrix(self) -> Term:
        return self.pre[1][1]

    @property
    def row(self) -> Term:
        return self.pre[1][2]

    @property
    def col(self) -> Term:
        return self.pre[2]


def is_flag(t: Term) -> bool:
    return (t[0] == "attr" and t[2] == "pre_computed_distance") or (
        t[0] == "param" and t[1] == "pre_computed_distance"
    )


def is_matrix(t: Term) -> bool:
    return (t[0] == "attr" and t[2] == "pre_distances") or (t[0] == "param" and t[1] == "pre_distances")


def is_metric_call(t: Term) -> bool:
    if t[0] != "call":
        return False
    f = t[1]
    if f[0] == "attr" and f[2] in ("distance_fn",):
        return True
    if f[0] == "param" and f[1] in ("distance_function", "distance_fn"):
        return True
    if f[0] == "idx" and f[1] == ("mod", "opfython.math.distance.DISTANCES"):
        return True
    return False


def is_matrix_read(t: Term) -> bool:
    return t[0] == "idx" and t[1][0] == "idx" and is_matrix(t[1][1])


def as_selector(t: Term) -> Optional[Tuple[Term, Term, Term]]:
    """(flag, pre_arm, fn_arm) when t is `pre if flag else fn` in either polarity."""
    if t[0] != "sel":
        return None
    c, a, b = t[1], t[2], t[3]
    if c[0] == "not":
        c, a, b = c[1], b, a
    if is_matrix_read(a) and is_metric_call(b):
        return c, a, b
    if is_matrix_read(b) and is_metric_call(a):
        return ("not", c), b, a
    return None


def weight_names_pair(W: Term, a: Term, b: Term) -> bool:
    """Every arm of the arc weight W is about exactly the node pair {a, b} (a, b are node terms)."""
    sel = as_selector(W)
    arms = [sel[1], sel[2]] if sel else [W]
    for arm in arms:
        if is_matrix_read(arm):
            pair = [arm[1][2], arm[2]]
            nodes = [t[1] if t[0] == "attr" and t[2] == "idx" else None for t in pair]
        elif is_metric_call(arm):
            nodes = [t[1] if t[0] == "attr" and t[2] == "features" else None for t in arm[2]]
        else:
            return False
        if sorted(map(repr, nodes)) != sorted(map(repr, [a, b])):
            return False
    return True


def weight_oriented(W: Term, a: Term, b: Term) -> bool:
    """Every arm of the arc weight W is d(a, b) in this order: M[a.idx][b.idx] / fn(a.features, b.features)."""
    sel = as_selector(W)
    arms = [sel[1], sel[2]] if sel else [W]
    for arm in arms:
        if is_matrix_read(arm):
            pair = [arm[1][2], arm[2]]
            nodes = [t[1] if t[0] == "attr" and t[2] == "idx" else None for t in pair]
        elif is_metric_call(arm):
            nodes = [t[1] if t[0] == "attr" and t[2] == "features" else None for t in arm[2]]
        else:
            return False
        if nodes != [a, b]:
            return False
    return True


def find_selectors(w: Walker) -> List[Selector]:
    """Every distinct selector term that occurs in an event of the walk."""
    out: Dict[Term, Selector] = {}
    for ev in w.events:
        tops = [x for x in (ev.target, ev.value) if x is not None] + list(ev.args)
        tops += [g for g, _ in ev.guards]
        for top in tops:
            for t in subterms(top):
                if t in out:
                    continue
                s = as_selector(t)
                if s:
                    out[t] = Selector(t, s[0], s[1], s[2], ev)
    return list(out.values())


def find_array_selectors(w: Walker) -> List[Tuple[Event, Event]]:
    """Selector written as two stores into the same slot (`d[k] = pre...` / `d[k] = fn(...)`)
    under complementary guards on the pre-computed flag."""
    pairs = []
    stores = [e for e in w.events if e.kind == "store"]
    for a in stores:
        if not is_matrix_read(a.value):
            continue
        for b in stores:
            if b.target == a.target and is_metric_call(b.value) and a.loops == b.loops:
                if a.guards[:-1] == b.guards[:-1] and a.guards and b.guards:
                    (ga, pa), (gb, pb) = a.guards[-1], b.guards[-1]
                    if ga == gb and pa != pb:
                        pairs.append((a, b))
    return pairs


def weight_terms(w: Walker) -> List[Tuple[str, Term, Term, Term, Event]]:
    """All arc-weight selectors of a walk as (form, flag, pre_arm, fn_arm, event)."""
    out = []
    for s in find_selectors(w):
        out.append(("sel", s.flag, s.pre, s.fn, s.event))
    for a, b in find_array_selectors(w):
        g, pol = a.guards[-1]
        out.append(("stores", g if pol else mk_not(g), a.value, b.value, a))
    return out


# ---------------------------------------------------------------------------
# competition loops
# ---------------------------------------------------------------------------


@dataclass
class UpdateSite:
    event: Event
    q: Term
    value: Term
    inner_guards: Tuple[Tuple[Term, bool], ...]
    neighbour_loop: Optional[LoopInfo]


@dataclass
class Competition:
    walker: Walker
    loop: LoopInfo
    heap: Term
    policy: Optional[str]
    graph: Optional[Term]
    p: Term
    remove_event: Event
    updates: List[UpdateSite] = field(default_factory=list)
    events: List[Event] = field(default_factory=list)  # all events inside the loop
    top: List[Event] = field(default_factory=list)  # events directly in the loop body
    counted: bool = False  # `for _ in range(G.n_nodes)` over a fully seeded queue instead of `while not empty`

    def hcost(self, e: Term) -> Term:
        return ("idx", ("attr", self.heap, "cost"), e)

    def body_guards(self):
        """Guards every statement of the loop body runs under."""
        if self.loop.cond is None:
            return tuple(self.loop.guards)
        return tuple(self.loop.guards) + ((self.loop.cond, True),)

    def node(self, e: Term) -> Term:
        return ("idx", ("attr", self.graph, "nodes"), e)

    def field(self, e: Term, name: str) -> Term:
        return ("attr", self.node(e), name)

    @property
    def fn(self):
        return self.loop.fn

    def seeding(self) -> List[Event]:
        """Events before the loop that touch this heap or are in loops over the graph."""
        return [e for e in self.walker.events if e.seq < self.loop.first_seq]


def find_competitions(w: Walker, kinds: Kinds = None) -> List[Competition]:
    kinds = kinds or Kinds(w)
    comps = []
    for li in w.loops.values():
        if li.kind == "for":
            cc = _counted_competition(w, li, kinds)
            if cc is not None:
                comps.append(_fill_competition(w, li, kinds, cc[0], cc[1], 0, counted=True))
            continue
        if li.kind != "while" or li.cond is None:
            continue
        c = li.cond
        heap = None
        if c[0] == "not" and c[1][0] == "call" and c[1][1][0] == "attr" and c[1][1][2] == "is_empty":
            heap = c[1][1][1]
        elif c[0] == "cmp":
            # `h.last > -1`, `h.last >= 0`, `h.last != -1`: the emptiness predicate written out
            for a, b in ((c[2], c[3]), (c[3], c[2])):
                if a[0] == "attr" and a[2] == "last" and a[1][0] == "new" and a[1][1] == "Heap":
                    if (c[1], a is c[3], b) in (("<", True, ("const", -1)), ("<=", True, ("const", 0)),
                                                 ("!=", True, ("const", -1)), ("!=", False, ("const", -1))):
                        heap = a[1]
        if heap is None:
            continue
        inside = [e for e in w.events if li.lid in e.loops]
        rem = None
        for e in inside:
            if e.kind == "call" and e.name == "remove" and e.target == ("attr", heap, "remove"):
                rem = e
                break
        if rem is None:
            continue
        comps.append(_fill_competition(w, li, kinds, heap, rem, 1))
    return comps


def _counted_competition(w: Walker, li: LoopInfo, kinds: Kinds):
    """`for _ in range(G.n_nodes): p = H.remove()`: sound only when the queue holds every node of G before
    the loop (one unconditional insert per node of G into a queue sized for G), exactly one removal happens
    per iteration, unconditionally, and the loop variable is not used: then the k-th removal finds n - k + 1
    elements (H.update cannot insert, no node is WHITE)."""
    dom = li.domain
    if dom is None or dom[0] != "call" or dom[1] != ("builtin", "range") or dom[3]:
        return None
    args = dom[2]
    if not (len(args) == 1 or (len(args) == 2 and args[0] == ("const", 0))):
        return None
    g = count_of(args[-1])
    if g is None:
        return None
    depth = len(li.loops) + 1
    rems = [e for e in w.events if li.lid in e.loops and e.kind == "call" and e.name == "remove"
            and e.value is not None and e.value[0] == "hremove"]
    if len(rems) != 1:
        return None
    rem = rems[0]
    heap = rem.value[1]
    if len(rem.loops) != depth or facts(rem.guards) != facts(li.guards):
        return None
    if kinds.heap_graph(heap) != g:
        return None
    me = ("iter", dom, li.lid)
    # all removals of this queue in the function are this one
    if any(e is not rem and e.kind == "call" and e.name == "remove" and e.target == ("attr", heap, "remove")
           for e in w.events):
        return None
    # full seeding
    seeded = False
    for l2 in w.loops.values():
        nl = node_loop(l2)
        if nl is None or nl[0] != g or nl[1] is None or l2.last_seq >= li.first_seq or l2.guards != li.guards \
                or l2.loops != li.loops:
            continue
        ins = [e for e in w.events if e.kind == "call" and e.name == "insert" and e.target == ("attr", heap, "insert")
               and e.loops == l2.loops + (l2.lid,)]
        if len(ins) == 1 and ins[0].args == (nl[1],) and facts(ins[0].guards) == facts(l2.guards):
            seeded = True
    if not seeded:
        return None
    return heap, rem


def _fill_competition(w: Walker, li: LoopInfo, kinds: Kinds, heap: Term, rem: Event, own: int,
                      counted: bool = False) -> "Competition":
    if True:
        inside = [e for e in w.events if li.lid in e.loops]
        comp = Competition(
            w, li, heap, kinds.heap_policy(heap), kinds.heap_graph(heap), rem.value, rem,
            events=inside,
        )
        depth = len(li.loops) + 1
        for e in inside:
            if len(e.loops) == depth and e.loops[-1] == li.lid:
                comp.top.append(e)
            if e.kind == "call" and e.name == "update" and e.target == ("attr", heap, "update") and len(e.args) == 2:
                nl = None
                for lid in reversed(e.loops):
                    if lid == li.lid:
                        break
                    nl = w.loops[lid]
                    break
                inner = []
                for g, pol in e.guards[len(li.guards) + own:]:
                    if pol and g[0] == "and":
                        inner.extend((x, True) for x in g[1])
                    else:
                        inner.append((g, pol))
                inner = tuple(inner)
                hp = ("idx", ("attr", heap, "cost"), rem.value)

                def unold(t, _hp=hp, _w=w):
                    """H.cost[p] copied into a local before the neighbour loop: the only writers of
                    Heap.cost in between are heap API calls (H.update(q, .)), which never lower the
                    key of the node just removed under an improvement test, so the copy is current."""
                    def f(s):
                        if s[0] == "old" and s[1] == _hp and _w.old_cause.get(s[2], {"store"}) <= {
                                "call:update", "call:insert", "call:remove"}:
                            return _hp
                        return None
                    return rewrite(t, f)

                inner = tuple((unold(g), pol) for g, pol in inner)
                comp.updates.append(UpdateSite(e, unold(e.args[0]), unold(e.args[1]), inner, nl))
        comp.counted = counted
        return comp


def nonempty_guard(g: Term, pol: bool, heap: Term) -> bool:
    """Is (g, pol) the test `heap is not empty` in one of its spellings?"""
    t = g if pol else mk_not(g)
    if t == ("not", ("call", ("attr", heap, "is_empty"), (), ())):
        return True
    last = ("attr", heap, "last")
    return t in (("cmp", "<", ("const", -1), last), ("cmp", "<=", ("const", 0), last),
                 ("cmp", "!=", *sorted([("const", -1), last], key=repr)))


def acceptance(comp: Competition, u: UpdateSite) -> Optional[Tuple[Term, str, int]]:
    """The dominating guard that compares the update value with H.cost[q].

    Returns (guard term, relation, position) with relation one of
    'v<h', 'v<=h', 'h<v', 'h<=v' (v = value passed to update, h = H.cost[q])."""
    h = comp.hcost(u.q)
    for pos in range(len(u.inner_guards) - 1, -1, -1):
        g, pol = u.inner_guards[pos]
        t = g if pol else mk_not(g)
        if t[0] != "cmp" or t[1] not in ("<", "<="):
            continue
        lo, hi = t[2], t[3]
        if lo == u.value and hi == h:
            return t, "v" + t[1] + "h", pos
        if lo == h and hi == u.value:
            return t, "h" + t[1] + "v", pos
    return None


def stores_in_branch(comp: Competition, u: UpdateSite) -> List[Event]:
    """Store events that share the update's guards (same accepted branch) and loop nest."""
    out = []
    for e in comp.events:
        if e.kind == "store" and e.loops == u.event.loops and facts_of(e) == facts_of(u.event):
            out.append(e)
    return out


def strip_int(t: Term) -> Term:
    while t[0] == "call" and t[1] == ("builtin", "int") and len(t[2]) == 1:
        t = t[2][0]
    return t


def neighbour_domain(comp: Competition, u: UpdateSite) -> Tuple[str, Optional[Term]]:
    """Classify the neighbour loop of an update site.

    ('all', G)        for q in range(G.n_nodes)
    ('adjacency', N)  q ranges over N.adjacency (whole list) ; N is the node term
    ('adjprefix', N, bound)  q = int(N.adjacency[k]) for k in range(bound)
    ('unknown', None)
    """
    nl = u.neighbour_loop
    if nl is None or nl.kind != "for":
        return ("unknown", None)
    q = strip_int(u.q)
    dom = nl.domain
    nlp = node_loop(nl)
    if nlp is not None and nlp[1] is not None and q == nlp[1]:
        return ("all", nlp[0])
    if q[0] == "iter" and q[2] == nl.lid:
        if dom[0] == "call" and dom[1] == ("builtin", "range"):
            args = dom[2]
            if len(args) == 1 or (len(args) == 2 and args[0] == ("const", 0)):
                g = count_of(args[-1])
                if g is not None:
                    return ("all", g)
            return ("range", dom)
        if dom[0] == "attr" and dom[2] == "adjacency":
            return ("adjacency", dom[1])
        if dom[0] == "idx" and dom[1][0] == "attr" and dom[1][2] == "adjacency" and dom[2][0] == "slice" \
                and dom[2][1] in (None, ("const", 0)) and dom[2][2] is not None and dom[2][3] in (None, ("const", 1)):
            # `for q in N.adjacency[:bound]`: the first `bound` entries, like q = N.adjacency[k] for k in range(bound)
            return ("adjprefix", dom[1][1], dom[2][2])
        return ("unknown", dom)
    if q[0] == "idx" and q[1][0] == "attr" and q[1][2] == "adjacency":
        k = q[2]
        if k[0] == "iter" and k[2] == nl.lid and dom[0] == "call" and dom[1] == ("builtin", "range"):
            args = dom[2]
            if len(args) == 1 or (len(args) == 2 and args[0] == ("const", 0)):
                return ("adjprefix", q[1][1], args[-1])
    return ("unknown", dom)


# ---------------------------------------------------------------------------
# sibling signatures (R-SIB)
# ---------------------------------------------------------------------------


def rewrite(t, f):
    """Bottom-up rewrite of a term; f(term) -> replacement or None."""
    if not isinstance(t, tuple) or not t:
        return t
    if isinstance(t[0], str):
        r = f(t)
        if r is not None:
            return r
    return tuple(rewrite(x, f) for x in t)


def loop_signature(comp: "Competition", lo: int = None, hi: int = None) -> List[tuple]:
    """Canonical, site-independent rendering of the events of a competition loop (and of the
    seeding events between `lo` and the loop when given)."""
    w = comp.walker
    lids: Dict[int, int] = {}

    def lid_of(l):
        if l not in lids:
            lids[l] = len(lids)
        return lids[l]

    def f(t):
        if t == comp.heap:
            return ("free", "H")
        if t[0] == "hremove" and t[1] == comp.heap:
            return ("free", "p")
        if t[0] == "iter":
            return ("iter", rewrite(t[1], f), lid_of(t[2]))
        if t[0] == "phi":
            return ("phi", lid_of(t[1]), "_")
        if t[0] == "old":
            return ("old", rewrite(t[1], f))
        if t[0] in ("new", "alloc"):
            return (t[0], t[1], rewrite(t[2], f), rewrite(t[3], f))
        return None

    first = comp.loop.first_seq if lo is None else lo
    last = comp.loop.last_seq if hi is None else hi
    sig = []
    base = len(comp.loop.guards)
    for e in w.events:
        if e.seq < first or e.seq > last:
            continue
        if e.kind in ("bind", "return") or (e.kind == "call" and e.name == "<inline>"):
            continue
        if e.kind == "call" and e.target is not None and show(e.target).startswith(("logger.", "range", "time.")):
            continue
        if e.kind == "call" and e.name in ("builtin.range", "builtin.int", "builtin.len"):
            continue
        guards = tuple((show(rewrite(g, f)), pol) for g, pol in e.guards[base:])
        sig.append((
            e.kind, e.name if e.kind == "call" else e.aug,
            show(rewrite(e.target, f)) if e.target is not None else None,
            show(rewrite(e.value, f)) if e.value is not None and e.kind != "call" else None,
            tuple(show(rewrite(a, f)) for a in e.args),
            guards, len(e.loops) - len(comp.loop.loops),
        ))
    return sig


def competition_summary(comp: "Competition") -> dict:
    """What a competition loop *does*, independent of how it is spelled: policy, seeding facts,
    removal bookkeeping, and per relaxation site the neighbour domain, candidate form, acceptance
    relation, guard facts and the stores of the accepted branch, with heap / removed node / neighbour /
    seeding index renamed to H / p / q / i.  Two loops with equal summaries make the same decisions on
    every input, ties included (iteration orders are part of the summary)."""
    from .ir import facts

    w = comp.walker

    def renamer(extra):
        def f(t):
            if t == comp.heap:
                return ("free", "H")
            if t == comp.p:
                return ("free", "p")
            for a, b in extra:
                if t == a:
                    return ("free", b)
            if t[0] == "old":
                return rewrite(t[1], f)
            if t[0] == "sel":
                s3 = as_selector(t)
                if s3 is not None:
                    return ("call", ("free", "W"), (rewrite(s3[1], f), rewrite(s3[2], f)), ())
            return None
        return f

    out = {"policy": comp.policy, "graph": show(comp.graph) if comp.graph else None}
    # argument validation (`if <bad input>: raise`) dominates everything after it; it is not part of what the loop decides
    raises = [e for e in w.events if e.kind == "raise"]
    _facts = facts

    def facts(guards):  # noqa: F811  (shadow: validation complements dropped)
        from .rules_premise import validation_guard
        return _facts(tuple((g, pol) for g, pol in guards if not validation_guard(raises, g, pol)))
    # seeding
    before = [e for e in w.events if e.seq < comp.loop.first_seq]
    ins = [e for e in before if e.kind == "call" and e.name == "insert" and e.target == ("attr", comp.heap, "insert")]
    seeds = []
    for e in ins:
        i = e.args[0] if e.args else None
        f = renamer([(i, "i")] if i is not None else [])
        dom = None
        if e.loops:
            nl = node_loop(w.loops[e.loops[-1]])
            dom = ("all", show(nl[0])) if nl is not None else show(w.loops[e.loops[-1]].domain)
        # (a queue built in this call starts with cost = FLOAT_MAX everywhere - heap rule H-init - so storing that value
        # again for the nodes that are not seeded says nothing)
        fresh = comp.heap[0] == "new"
        stores = sorted(
            (show(rewrite(x.target, f)), show(rewrite(x.value, f)), tuple(sorted(show(rewrite(g, f)) for g in facts(x.guards))))
            for x in before if x.kind == "store" and x.loops == e.loops and x.seq > (w.loops[e.loops[-1]].first_seq - 1 if e.loops else 0)
            and not (fresh and x.value == ("K", "FLOAT_MAX") and x.target[0] == "idx" and x.target[1] == ("attr", comp.heap, "cost")))
        seeds.append((dom, tuple(sorted(show(rewrite(g, f)) for g in facts(e.guards))), tuple(stores)))
    out["seeding"] = seeds
    base = len(facts(comp.loop.guards)) + 1
    top = []
    for e in comp.top:
        if e.kind == "store" or (e.kind == "call" and e.name in ("append", "insert", "update")):
            f = renamer([])
            top.append((e.kind, e.name if e.kind == "call" else e.aug, show(rewrite(e.target, f)),
                        show(rewrite(e.value, f)) if e.kind == "store" else tuple(show(rewrite(a, f)) for a in e.args),
                        tuple(sorted(show(rewrite(g, f)) for g in facts(e.guards)[base:]))))
    out["removal"] = sorted(top)
    sites = []
    for u in comp.updates:
        f = renamer([(u.q, "q")])
        acc = acceptance(comp, u)
        dom = neighbour_domain(comp, u)
        branch = stores_in_branch(comp, u)
        extra_stores = []
        if not any(e.target[0] == "attr" and e.target[2] == "predicted_label" for e in comp.events if e.kind == "store"):
            from .rules_ift import _deferred_labels
            if comp.graph is not None and _deferred_labels(comp.walker, comp):
                # labels copied along the final predecessors in one pass after the loop: what the accepted branch would copy
                extra_stores.append((show(rewrite(comp.field(u.q, "predicted_label"), f)),
                                     show(rewrite(comp.field(comp.p, "predicted_label"), f))))
        sites.append({
            "domain": (dom[0], show(dom[1]) if dom[1] is not None else None),
            "candidate": show(rewrite(u.value, f)),
            "acceptance": acc[1] if acc else None,
            # (an exit taken once every node has left the queue restricts nothing: rules_ift.classify_guard proves it exact)
            "guards": tuple(sorted(show(rewrite(g if pol else mk_not(g), f)) for g, pol in u.inner_guards
                                   if not _is_all_settled(comp, u, g, pol))),
            "stores": tuple(sorted([(show(rewrite(e.target, f)), show(rewrite(e.value, f))) for e in branch] + extra_stores)),
        })
    out["sites"] = sites
    return out


def _is_all_settled(comp, u, g, pol) -> bool:
    from .rules_ift import classify_guard
    t = g if pol else mk_not(g)
    if t[0] == "not" and t[1][0] == "call" and t[1][1] in (("mod", "numpy.isnan"), ("mod", "math.isnan")):
        return True  # `if isnan(w): continue`: restricts nothing (a NaN never wins a comparison)
    if comp.policy == "min" and t[0] == "cmp" and t[1] == "<=" and t[2] == ("const", 0) and t[3] in _weight_candidates(comp, u):
        return True  # `if w < 0: continue`: restricts nothing on non-negative dissimilarities (rules_ift.classify_guard)
    name = classify_guard(comp, u, g, pol, None)
    if name == "p!=q":
        # `p != q` next to a strict improvement test restricts nothing: the candidate max(H.cost[p], w) is never strictly below
        # H.cost[p] (min(H.cost[p], d) never strictly above it), so q = p is rejected with or without the test
        from .rules_ift import acceptance
        acc = acceptance(comp, u)
        v, hp = u.value, comp.hcost(comp.p)
        if acc is not None and v[0] in ("max", "min") and hp in v[1] \
                and (acc[1], v[0], comp.policy) in (("v<h", "max", "min"), ("h<v", "min", "max")):
            return True
    return name.endswith("(all settled)")


def _weight_candidates(comp, u):
    """The arc-weight term(s) of an update site: the operand of max(cost[p], w)."""
    v = u.value
    if v[0] == "max" and len(v[1]) == 2:
        hp = comp.hcost(comp.p)
        return [x for x in v[1] if x != hp]
    return [v]


def resolve_on(t: Term, key: Term, value) -> Optional[Term]:
    """Value of a term that selects on `key == <const>` tests, for one concrete constant."""
    while t[0] == "sel":
        c = t[1]
        if c[0] == "cmp" and c[1] in ("==", "!=") and key in (c[2], c[3]):
            other = c[2] if c[3] == key else c[3]
            if other[0] != "const":
                return None
            truth = (other[1] == value) if c[1] == "==" else (other[1] != value)
            t = t[2] if truth else t[3]
        else:
            return None
    return t


def extension_dispatch(w: Walker, key: Term, values, prefix: str) -> Dict[str, str]:
    """{extension: function name} for calls of functions of module `prefix` selected by the file extension,
    whether written as an if/elif chain of calls, as a selected function called once, or as a dict lookup."""
    out: Dict[str, str] = {}
    for ev in w.events:
        if ev.kind != "call" or ev.target is None:
            continue
        tgt = ev.target
        if tgt[0] == "mod" and tgt[1].startswith(prefix + "."):
            for f in facts_of(ev):
                if f[0] == "cmp" and f[1] == "==" and key in (f[2], f[3]):
                    other = f[2] if f[3] == key else f[3]
                    if other[0] == "const":
                        out[other[1]] = tgt[1].rsplit(".", 1)[1]
        elif tgt[0] == "sel":
            for v in values:
                r = resolve_on(tgt, key, v)
                if r is not None and r[0] == "mod" and r[1].startswith(prefix + "."):
                    out[v] = r[1].rsplit(".", 1)[1]
        elif (tgt[0] == "idx" and tgt[1][0] == "dict" and tgt[2] == key) or (
                tgt[0] == "call" and tgt[1][0] == "attr" and tgt[1][2] == "get" and tgt[1][1][0] == "dict"
                and tgt[2][:1] == (key,) and not tgt[3]):
            table = tgt[1] if tgt[0] == "idx" else tgt[1][1]
            for k, v in table[1]:
                if k[0] == "const" and v[0] == "mod" and v[1].startswith(prefix + "."):
                    out[k[1]] = v[1].rsplit(".", 1)[1]
    return out


def facts_of(ev: Event):
    from .ir import facts
    return facts(ev.guards)
