"""R-KNN / R-PAIR: the k-nearest insertion scan shared by KNNSubgraph.create_arcs,
KNNSupervisedOPF.predict and UnsupervisedOPF.predict."""

from __future__ import annotations

import ast

from dataclasses import dataclass, field
from typing import Dict, List, Optional, Tuple

from .core import AnalysisError
from .ir import Event, LoopInfo, Term, Walker, conj, has_guard, mk_not, show, subterms
from .kinds import Kinds, count_of
from .rules_heap import _sub, lin, lin_eq
from .schema import is_flag, is_matrix_read, is_metric_call, as_selector, node_loop


def K(n):
    return ("K", n)


@dataclass
class KnnScan:
    w: Walker
    per: LoopInfo  # per-query loop
    cand: LoopInfo  # loop over candidate nodes
    bubble: LoopInfo  # insertion (bubble) loop
    D: Term  # distance buffer
    N: Term  # index buffer
    slot: Term  # K, the insertion slot
    cvar: str
    weight_stores: List[Event] = field(default_factory=list)
    index_store: Optional[Event] = None
    # the insertion loop, independent of its spelling (`while cur > 0 and ...: cur -= 1` or
    # `for cur in range(k, 0, -1): if not ...: break`)
    c: Term = None  # current slot
    bound_ok: bool = False  # the loop visits slots start, start-1, ..., 1 at most
    tests: List[Term] = field(default_factory=list)  # continuation tests other than the bound
    start: Term = None
    drop_last: bool = False  # the insertion slot is the last REAL slot (written only by candidates that beat it)

    @property
    def k(self) -> Term:
        """The number of neighbours kept: the insertion slot itself when it is a scratch slot beyond them, one more when the
        candidate is written over the last real slot."""
        if not self.drop_last:
            return self.slot
        l = lin(("bin", "+", self.slot, ("const", 1)))
        if l is not None:
            atoms = [a for a in l if a != 1 and l[a] != 0]
            if len(atoms) == 1 and l[atoms[0]] == 1 and l.get(1, 0) == 0:
                return atoms[0]
        return ("bin", "+", *sorted([("const", 1), self.slot], key=repr))

    @property
    def fn(self):
        return self.per.fn

    @property
    def i(self) -> Term:
        nl = node_loop(self.per)
        if nl is not None and nl[1] is not None:
            return nl[1]
        return ("iter", self.per.domain, self.per.lid)

    @property
    def query_node(self) -> Optional[Term]:
        nl = node_loop(self.per)
        return nl[2] if nl is not None else None

    @property
    def j(self) -> Term:
        nl = node_loop(self.cand)
        if nl is not None and nl[1] is not None:
            return nl[1]
        return ("iter", self.cand.domain, self.cand.lid)


def _is_weight(v: Term) -> bool:
    return is_matrix_read(v) or is_metric_call(v) or as_selector(v) is not None


def _nan_as_empty(v: Term) -> Term:
    """`FLOAT_MAX if isnan(d) else d` written to the scratch slot is `d` for the scan: a NaN candidate never leaves the
    scratch slot (every `<` with it is false), neither does FLOAT_MAX (the mark of an empty slot), and the scratch slot is
    not among the k that are read."""
    isnan = lambda c: c[0] == "call" and c[1] in (("mod", "numpy.isnan"), ("mod", "math.isnan")) and len(c[2]) == 1 and not c[3]
    if v is not None and v[0] == "sel":
        c, a, b = v[1], v[2], v[3]
        if isnan(c) and a == K("FLOAT_MAX") and c[2][0] == b:
            return b
        if c[0] == "not" and isnan(c[1]) and b == K("FLOAT_MAX") and c[1][2][0] == a:
            return a
    return v


def _bubble_view(w: Walker, li: LoopInfo):
    """(cvar name, current slot term, bound ok?, other continuation tests, start) or None."""
    from .ir import facts
    if li.kind == "while":
        cvar = None
        for name, (init, end) in li.carried.items():
            if lin_eq(lin(end), {("phi", li.lid, name): 1, 1: -1}):
                cvar = name
        if cvar is None:
            return None
        c = ("phi", li.lid, cvar)
        cs = conj(li.cond)
        pos = [t for t in cs if t in (("cmp", "<", ("const", 0), c), ("cmp", "<=", ("const", 1), c))]
        return cvar, c, len(pos) == 1, [t for t in cs if t not in pos], li.carried[cvar][0]
    if li.kind == "for":
        d = li.domain
        if d is None or d[0] != "call" or d[1] != ("builtin", "range") or d[3] or len(d[2]) != 3:
            return None
        if d[2][2] not in (("const", -1), ("neg", ("const", 1))):
            return None
        c = ("iter", d, li.lid)
        base = set(facts(li.guards))
        tests = []
        for e in w.events:
            if e.kind == "break" and e.loops and e.loops[-1] == li.lid:
                own = [f for f in facts(e.guards) if f not in base]
                tests.append(mk_not(own[0]) if len(own) == 1 else ("not", ("and", tuple(own))))
        name = next((n for n, v in li.targets.items() if v == c), "cur")
        return name, c, d[2][1] == ("const", 0), tests, d[2][0]
    return None


def shift_view(w):
    """The insertion written as a shift: the candidate sits in the scratch slot k (`d[k] = w; held = d[k]`), every larger entry
    is moved one slot up (`while cur > 0 and held < d[cur-1]: d[cur] = d[cur-1]; n[cur] = n[cur-1]; cur -= 1`) and the candidate
    is dropped into the gap (`d[cur] = held; n[cur] = j`).  Slot for slot this is the exchange loop with the candidate
    travelling in the gap: the view gives every shift its second half (d[cur-1] = d[cur]), reads the held value as d[cur],
    and turns the final placement into the index store of slot k.  Applied only when every piece is there; the rules of the
    exchange form then decide the view."""
    import dataclasses
    import types
    from .ir import mk_cmp
    for li in w.loops.values():
        if li.kind not in ("while", "for") or len(li.loops) < 2:
            continue
        bv = _bubble_view(w, li)
        if bv is None:
            continue
        cvar, c, bound_ok, tests, start = bv
        strip = lambda t: t[1] if t[0] == "old" else t
        D = H = None
        held_weight = False
        for t in tests:
            if t[0] == "cmp" and t[1] in ("<", "<="):
                for a, b in ((t[2], t[3]), (t[3], t[2])):
                    if b[0] == "idx" and lin_eq(lin(b[2]), {c: 1, 1: -1}) and strip(a) == ("idx", b[1], start) and b[1][0] == "alloc":
                        D, H = b[1], a
                    elif b[0] == "idx" and lin_eq(lin(b[2]), {c: 1, 1: -1}) and b[1][0] == "alloc" and _is_weight(_nan_as_empty(strip(a))):
                        # the candidate is held in a local and written over the LAST REAL slot (no scratch slot): see below
                        D, H, held_weight = b[1], a, True
        if D is None:
            continue
        cm1 = None
        inside = [e for e in w.events if e.kind == "store" and li.lid in e.loops]
        bufs = []
        ok = True
        for e in inside:
            t = e.target
            if t[0] == "idx" and t[2] == c and t[1][0] == "alloc" and strip(e.value)[0] == "idx" and strip(e.value)[1] == t[1] \
                    and lin_eq(lin(strip(e.value)[2]), {c: 1, 1: -1}) and not e.aug:
                bufs.append(t[1])
                cm1 = strip(e.value)[2]
            else:
                ok = False
        if not ok or D not in bufs or len(bufs) != len(set(bufs)) or len(bufs) != 2:
            continue
        Nb = [b for b in bufs if b != D][0]
        done = ("call", ("builtin", "<loop-completed>"), (("const", li.lid),), ())
        F = ("phi", li.lid, cvar) if li.kind == "while" else ("sel", done, ("const", 0), c)
        cand = w.loops[li.loops[-1]]
        post = [e for e in w.events if e.kind == "store" and e.loops == li.loops and e.seq > li.last_seq
                and e.target[0] == "idx" and e.target[1] in (D, Nb)]
        pd = [e for e in post if e.target == ("idx", D, F) and strip(e.value) == (strip(H) if held_weight else ("idx", D, start)) and not e.aug]
        pn = [e for e in post if e.target == ("idx", Nb, F) and not e.aug]
        if len(post) != 2 or len(pd) != 1 or len(pn) != 1:
            continue
        kth = None
        if held_weight:
            # Without a scratch slot the candidate overwrites slot `start` - the k-th best so far.  That is the insertion of the
            # exchange form started at that slot, provided only candidates that beat it get there: the whole insertion must sit
            # under `candidate < d[start]` (strictly: an equal candidate must not displace the incumbent)
            from .ir import facts as _facts
            pre_f = ("cmp", "<", strip(H), ("idx", D, start))
            own = [f for f in _facts(pd[0].guards) if f not in _facts(cand.guards)]
            own_s = [tuple(strip(x) if isinstance(x, tuple) else x for x in f) for f in own]
            kth = None
            if pre_f not in own_s and pre_f not in own:
                # ... or under `candidate < kth` with kth a running copy of d[start]: FLOAT_MAX when the scan of a query starts
                # (as the buffer is, rule KNN-reset) and re-read from d[start] right after every insertion
                for f in own_s:
                    if f[0] == "cmp" and f[1] == "<" and f[2] == strip(H) and f[3][0] == "phi" and f[3][1] == cand.lid \
                            and f[3][2] in cand.carried:
                        init_k, end_k = cand.carried[f[3][2]]
                        leaves = []

                        def collect(t):
                            if t[0] == "sel":
                                collect(t[2])
                                collect(t[3])
                            else:
                                leaves.append(strip(t))
                        collect(end_k)
                        rebinds = [e for e in w.events if e.kind == "bind" and e.name == f[3][2] and cand.lid in e.loops]
                        if init_k == K("FLOAT_MAX") and set(leaves) == {f[3], ("idx", D, start)} and len(rebinds) == 1 \
                                and rebinds[0].seq > pd[0].seq and _facts(rebinds[0].guards) == _facts(pd[0].guards):
                            kth = f[3]
                if kth is None:
                    continue
        slot_c = ("idx", D, c)

        def R(t):
            if t is None or not isinstance(t, tuple) or not t:
                return t
            if t == H:
                return slot_c
            return tuple(R(x) if isinstance(x, tuple) else x for x in t)
        kth_t = kth if held_weight else None

        def RK(t):  # the running copy of d[start] read as d[start]
            if kth_t is None or t is None or not isinstance(t, tuple) or not t:
                return t
            if t == kth_t:
                return ("idx", D, start)
            return tuple(RK(x) if isinstance(x, tuple) else x for x in t)
        events = []
        has_index_store = any(e.kind == "store" and e.loops == li.loops and e.target == ("idx", Nb, start) and e.seq < li.first_seq
                              for e in w.events)
        for e in w.events:
            if e is pd[0]:
                if held_weight:
                    events.append(dataclasses.replace(e, target=("idx", D, start), value=strip(H)))
                continue
            if e is pn[0]:
                if not has_index_store:
                    events.append(dataclasses.replace(e, target=("idx", Nb, start)))
                continue
            if li.lid in e.loops:
                e = dataclasses.replace(e, target=R(e.target), value=R(e.value), args=tuple(R(a) for a in (e.args or ())),
                                        guards=tuple((R(g), pol) for g, pol in e.guards))
            if kth_t is not None and e.kind == "bind" and e.name == kth_t[2]:
                continue
            events.append(e)
            if e.kind == "store" and li.lid in e.loops and e.target[0] == "idx" and e.target[2] == c and e.target[1] in bufs:
                events.append(dataclasses.replace(e, target=("idx", e.target[1], cm1), value=("idx", e.target[1], c)))
        if kth_t is not None:
            events = [dataclasses.replace(e, guards=tuple((RK(g), pol) for g, pol in e.guards)) for e in events]
        view = types.SimpleNamespace(**{k: getattr(w, k) for k in ("entry", "repo", "guard_src", "old_cause", "inlined", "binop")
                                        if hasattr(w, k)})
        view.guard_src = dict(w.guard_src)
        for g, src in list(w.guard_src.items()):
            view.guard_src.setdefault(RK(g), src)
        for g, src in list(w.guard_src.items()):
            view.guard_src.setdefault(R(g), src)
        view.events = events
        view.loops = dict(w.loops)
        view.loops[li.lid] = dataclasses.replace(li, cond=R(li.cond))
        view.drop_last = set(getattr(w, "drop_last", ())) | ({li.lid} if held_weight else set())
        return shift_view(view)  # (one view per scan; a function may hold more than one)
    return w


def find_knn_scans(w: Walker) -> List[KnnScan]:
    out = []
    w = shift_view(w)
    for li in w.loops.values():
        if li.kind not in ("while", "for") or len(li.loops) < 2:
            continue
        bv = _bubble_view(w, li)
        if bv is None:
            continue
        cvar, c, bound_ok, tests, start = bv
        D = None
        for t in tests:
            if t[0] == "cmp" and t[1] in ("<", "<=") and t[2][0] == "idx" and t[3][0] == "idx" and t[2][1] == t[3][1]:
                if t[2][2] == c and lin_eq(lin(t[3][2]), {c: 1, 1: -1}):
                    D = t[2][1]
                elif t[3][2] == c and lin_eq(lin(t[2][2]), {c: 1, 1: -1}):
                    D = t[2][1]  # wrong direction; reported by KNN-bubble-cmp
        if D is None or D[0] != "alloc":
            continue
        cand = w.loops[li.loops[-1]]
        per = w.loops[li.loops[-2]]
        if cand.kind != "for" or per.kind != "for":
            continue
        slot = start
        scan = KnnScan(w, per, cand, li, D, None, slot, cvar)
        scan.c, scan.bound_ok, scan.tests, scan.start = c, bound_ok, tests, start
        scan.drop_last = li.lid in getattr(w, "drop_last", ())
        import dataclasses
        for e in w.events:
            if e.kind == "store" and e.loops == li.loops and e.target == ("idx", D, slot) and _is_weight(_nan_as_empty(e.value)):
                scan.weight_stores.append(e if _nan_as_empty(e.value) == e.value else
                                          dataclasses.replace(e, value=_nan_as_empty(e.value)))
        for e in w.events:
            if e.kind == "store" and e.loops == li.loops and e.target[0] == "idx" and e.target[2] == slot \
                    and e.target[1] != D and e.target[1][0] == "alloc" and e.value == scan.j:
                scan.index_store = e
                scan.N = e.target[1]
        out.append(scan)
    return out


def unclamp_k(w, G: Term):
    """min(best_k, n_nodes) / min(best_k, n_nodes - 1) is best_k for every model fit can produce (a sample has at most
    n - 1 neighbours): the view reads the clamp as best_k.  A clamp by anything else (the query batch, ...) is left alone."""
    from .ir import derived_phis, substitute_view
    # (a named boolean carried next to the slot counter - `closer = d[cur] < d[cur - 1]` before the loop and at the end of
    # its body - is that test of the current slot at the loop head)
    w = substitute_view(w, derived_phis(w))
    bk = ("attr", G, "best_k")
    nn = (("attr", G, "n_nodes"), ("call", ("builtin", "len"), (("attr", G, "nodes"),), ()))
    mapping = {}
    for ev in w.events:
        for top in [x for x in (ev.target, ev.value) if x is not None] + list(ev.args or ()) + [g for g, _ in ev.guards]:
            for t in subterms(top):
                if t[0] == "min" and len(t) == 2 and isinstance(t[1], tuple) and len(t[1]) == 2 and bk in t[1]:
                    other = [x for x in t[1] if x != bk][0]
                    if other in nn or (other[0] == "bin" and other[1] == "-" and other[2] in nn and other[3] == ("const", 1)):
                        mapping[t] = bk
    return substitute_view(w, mapping) if mapping else w


def validity_tests(scan, w, r) -> List[Term]:
    """The tests under which rank r of the buffers holds a neighbour: `d[r] != FLOAT_MAX` (or `<`), and - when the index
    buffer is reset to NIL for every query before the scan - `idx[r] != NIL` (distance and index move as a pair, so a slot
    whose distance is still FLOAT_MAX still holds NIL)."""
    from .ir import not_nil_forms
    out = [("cmp", "!=", *sorted([K("FLOAT_MAX"), ("idx", scan.D, r)], key=repr)), ("cmp", "<", ("idx", scan.D, r), K("FLOAT_MAX"))]
    if scan.N is not None:
        fills = [e for e in w.events if e.kind == "call" and e.name == "fill" and e.target == ("attr", scan.N, "fill")]
        if len(fills) == 1 and fills[0].args in ((K("NIL"),), (("const", -1),)) and fills[0].loops == scan.cand.loops \
                and fills[0].guards == scan.per.guards and fills[0].seq < scan.cand.first_seq:
            for x in (("idx", scan.N, r), ("call", ("builtin", "int"), (("idx", scan.N, r),), ())):
                out += not_nil_forms(x)
    return out


def report_missing_scan(rep, w: Walker, what: str, pre: str = "") -> bool:
    """No insertion scan was recognised.  If the function still allocates the k+1-slot buffers and writes a candidate
    into slot k inside a loop nest, the scan is there but its insertion step is malformed (test negated, step dropped,
    wrong neighbour slot): that is a violation, reported here, not an unrecognised construct."""
    bufs = {}
    for e in w.events:
        if e.kind == "store" and e.target[0] == "idx" and e.target[1][0] == "alloc" and len(e.loops) >= 2 \
                and e.target[1][1] in ("numpy.zeros", "numpy.empty") and e.target[1][2]:
            size, slot = e.target[1][2][0], e.target[2]
            if lin_eq(_sub(lin(size), lin(slot)), {1: 1}):
                bufs.setdefault(e.target[1], e)
    if len(bufs) < 2:
        return False
    # a WELL-FORMED insertion loop over one of the buffers is there (`while c > 0 and d[c] < d[c-1]: ...; c -= 1` or its
    # for/break form): then the scan was not recognised because its surroundings were restructured (a per-query loop
    # written as a comprehension, results carried between phases) - not a finding; a malformed loop still is one
    from .rules_heap import strip_old
    for li in w.loops.values():
        if li.kind not in ("while", "for"):
            continue
        bv = _bubble_view(w, li)
        if bv is None:
            continue
        cvar, c, bound_ok, tests, start = bv
        for t in tests:
            if bound_ok and t[0] == "cmp" and t[1] == "<" and t[2][0] == "idx" and t[3][0] == "idx" \
                    and strip_old(t[2][1]) == strip_old(t[3][1]) and strip_old(t[2][1]) in bufs \
                    and t[2][2] == c and lin_eq(lin(t[3][2]), {c: 1, 1: -1}):
                return False
    ev = min(bufs.values(), key=lambda e: e.seq)
    rep.ev(pre + "KNN-insertion", ev, False,
           f"{what}: candidates are written into slot k of the k+1-slot buffers, but no loop that moves the new entry "
           "down while it is smaller than its predecessor (`while cur > 0 and d[cur] < d[cur-1]: swap; cur -= 1`) follows: "
           "the buffers do not hold the k nearest in ascending order")
    return True


def check_knn_scan(rep, pre: str, scan: KnnScan, graph: Term, allow_self_skip: bool, orientation: bool = True) -> None:
    """graph: the term of the graph whose nodes are the candidates."""
    w = scan.w
    fn = scan.fn
    line = scan.cand.line
    kinds = Kinds(w)
    # candidate loop over every node of the graph
    dom = scan.cand.domain
    nlc = node_loop(scan.cand)
    okd = nlc is not None and nlc[0] == graph and nlc[1] is not None
    if not okd and dom is not None:
        # candidates handed out by a generator helper (`for j, d in enumerate(self._distances_to(...))`): which nodes it visits,
        # and in which order, is the helper's business - outside the scalar-loop fragment
        for t in subterms(dom):
            if t[0] == "call" and t[1][0] in ("attr", "mod"):
                nm = t[1][2] if t[1][0] == "attr" else t[1][1].rpartition(".")[2]
                gens = [f for f in w.repo.all_functions() if f.name == nm
                        and any(isinstance(n, (ast.Yield, ast.YieldFrom)) for n in ast.walk(f.node))]
                if gens:
                    from .core import AnalysisError
                    raise AnalysisError(f"{fn.qual}: the candidates of the k-nearest scan come from the generator {gens[0].qual}; "
                                        "the scan rules read loops over the nodes themselves - this form is outside the analysable fragment")
    rep.fn(pre + "KNN-domain", fn, f"for j in {show(dom)}", okd,
           "the scan must visit every node of the (training) graph", line=line)
    # the scan is exhaustive: nothing leaves the candidate loop (or the per-query loop) early
    early = [e for e in w.events if scan.cand.lid in e.loops and scan.bubble.lid not in e.loops
             and ((e.kind == "break" and e.loops[-1] == scan.cand.lid)
                  or (e.kind == "return" and e.fn is scan.cand.fn))]  # returns of inlined helpers are not exits
    early += [e for e in w.events if e.kind == "break" and e.loops and e.loops[-1] == scan.per.lid]
    for e in early:
        rep.ev(pre + "KNN-exhaustive", e, False,
               "the candidate scan is left early: candidates after this point are never considered, so the k slots do "
               "not hold the k nearest of ALL nodes")
    rep.fn(pre + "KNN-exhaustive", fn, "no early exit from the candidate scan", not early,
           f"{len(early)} early exit(s)", line=line)
    # the candidate distance is d(query, candidate) in this order (what create_arcs, calculate_pdf and the two predict
    # methods all use): for a non-symmetric dissimilarity the other order ranks by a different quantity
    from .schema import weight_oriented
    qn = scan.query_node
    if orientation and qn is not None and nlc is not None and nlc[1] is not None:
        cn = ("idx", ("attr", nlc[0], "nodes"), nlc[1])
        for e in scan.weight_stores:
            rep.ev(pre + "KNN-orientation", e, weight_oriented(e.value, qn, cn),
                   "the candidate distance is not d(query node, candidate node) in this order")
    # weight written to slot k, index written to the same slot
    rep.fn(pre + "KNN-slot", fn, "the candidate distance is written to slot k of the distance buffer",
           len(scan.weight_stores) in (1, 2), f"found {len(scan.weight_stores)} store(s)", line=line)
    rep.fn(pre + "KNN-pair", fn, "the candidate index is written to the same slot of the index buffer",
           scan.index_store is not None and scan.N is not None,
           "no store `idx_buffer[k] = j` next to the distance store", line=line)
    if scan.N is None or not scan.weight_stores:
        return
    # buffer lengths k+1
    for name, buf in (("distance", scan.D), ("index", scan.N)):
        okl = buf[0] == "alloc" and buf[1] in ("numpy.zeros", "numpy.empty", "numpy.ones", "numpy.full") and buf[2] \
            and lin_eq(_sub(lin(buf[2][0]), lin(scan.slot)), {1: 1})
        if not okl and scan.drop_last and buf[0] == "alloc" and buf[2]:
            # (no scratch slot: slots beyond the last real one are never written - they stay empty and are skipped as such)
            d = _sub(lin(buf[2][0]), lin(scan.slot))
            okl = d is not None and not [a for a in d if a != 1 and d[a] != 0] and d.get(1, 0) >= 1
        rep.fn(pre + "KNN-length", fn, f"{name} buffer has k + 1 slots", bool(okl),
               f"{name} buffer is '{show(buf)}' while the insertion slot is '{show(scan.slot)}'", line=line)
    # guards on the scan body
    base = scan.cand.guards
    ws = scan.weight_stores[0]
    extra = [gp for gp in ws.guards[len(base):] if not is_flag(gp[0]) and not (gp[0][0] == "not" and is_flag(gp[0][1]))]
    self_skip = ("cmp", "!=", *sorted([scan.i, scan.j], key=repr))
    for g, pol in extra:
        t = g if pol else mk_not(g)
        never = [("cmp", "!=", *sorted([x, scan.j], key=repr)) for x in (("K", "NIL"), ("const", -1))]
        if t == self_skip and allow_self_skip and kinds.kind(scan.i) == kinds.kind(scan.j) and kinds.kind(scan.i) is not None:
            rep.guard(pre + "KNN-guard", w, g, ws, True, "a node is not its own neighbour (same index space)")
        elif t in never and kinds.kind(scan.j) is not None and kinds.kind(scan.j)[0] == "NodeIdx" \
                and w.repo.constants.get("NIL") == -1:
            # `j != exclude` with exclude = NIL (-1): a position of a node loop is never negative - the test holds always
            rep.guard(pre + "KNN-guard", w, g, ws, True, "a node position never equals NIL")
        elif t == ("cmp", "<", ws.value, ("idx", scan.D, scan.slot)):
            # `if not d < dist[slot]: continue`: the insertion slot holds the largest of what was kept so far (a scratch slot: the
            # last entry evicted, or FLOAT_MAX) - a candidate that does not beat it would not leave that slot
            rep.guard(pre + "KNN-guard", w, g, ws, True, "a candidate that does not beat the insertion slot stays there")
        elif t == ("cmp", "<", ws.value, K("FLOAT_MAX")):
            # `if not d < FLOAT_MAX: continue`: a candidate at the float limit (or NaN) never leaves the scratch slot - every
            # kept slot is <= FLOAT_MAX - so skipping it before it is written changes none of the k slots that are read
            rep.guard(pre + "KNN-guard", w, g, ws, True, "a candidate at the float limit never enters the k best")
        else:
            rep.guard(pre + "KNN-guard", w, g, ws, False,
                      "the scan body is guarded: not every node of the graph is a candidate for every query "
                      f"('{show(t)[:120]}')")
    if allow_self_skip:
        has = any((g if pol else mk_not(g)) == self_skip for g, pol in extra)
        rep.fn(pre + "KNN-self-skip", fn, "a node is excluded from its own neighbour list", has,
               "arc creation must skip j == i (otherwise every node is its own nearest neighbour)", line=line)
    def nan_skip(gp):
        """`if isnan(d[k]): continue` after the candidate was written: a NaN never moves out of the scratch slot (every `<`
        with it is false), so skipping its index store changes nothing that is read later."""
        g, pol = gp
        return (not pol) and g[0] == "call" and g[1] in (("mod", "numpy.isnan"), ("mod", "math.isnan")) \
            and g[2] == (("idx", scan.D, scan.slot),)
    ok_same = tuple(gp for gp in scan.index_store.guards[len(base):] if not nan_skip(gp)) == tuple(
        gp for gp in ws.guards[len(base):] if not (is_flag(gp[0]) or (gp[0][0] == "not" and is_flag(gp[0][1]))))
    rep.ev(pre + "KNN-pair-guard", scan.index_store, ok_same,
           "the index store must be executed exactly when the distance store is")
    # bubble loop
    bl = scan.bubble
    c = scan.c
    cs = scan.tests
    rep.fn(pre + "KNN-bubble-bound", fn, "insertion loop continues while " + " and ".join(show(t)[:80] for t in cs),
           scan.bound_ok and len(cs) == 1,
           "the insertion loop must be `cur > 0 and d[cur] < d[cur-1]`", line=bl.line)
    cm1 = None
    for t in cs:
        if t[0] == "cmp" and t[1] in ("<", "<=") and t[2] == ("idx", scan.D, c):
            cm1 = t[3][2]
    rep.fn(pre + "KNN-bubble-cmp", fn, "insertion compares slot cur with slot cur-1 (ascending order)",
           cm1 is not None, "direction of the insertion comparison is wrong", line=bl.line)
    if cm1 is None:
        return
    st = [e for e in w.events if e.kind == "store" and bl.lid in e.loops]
    for name, buf in (("distance", scan.D), ("index", scan.N)):
        sw = {(e.target[2], e.value) for e in st if e.target[0] == "idx" and e.target[1] == buf}
        want = {(c, ("idx", buf, cm1)), (cm1, ("idx", buf, c))}
        rep.fn(pre + "KNN-swap", fn, f"{name} buffer: slots cur and cur-1 are exchanged", sw == want,
               f"the insertion loop does not exchange exactly {name}[cur] and {name}[cur-1]", line=bl.line)
    others = [e for e in st if not (e.target[0] == "idx" and e.target[1] in (scan.D, scan.N))]
    for e in others:
        rep.ev(pre + "KNN-bubble-stray", e, False, "unexpected store inside the insertion loop")
    rep.fn(pre + "KNN-start", fn, "insertion starts at the slot that was written", scan.start == scan.slot,
           "the insertion loop does not start at slot k", line=bl.line)
    # reset of the distance buffer at the top of every query
    fills = [e for e in w.events if e.kind == "call" and e.name == "fill" and e.target == ("attr", scan.D, "fill")]
    okf = (len(fills) == 1 and fills[0].args == (K("FLOAT_MAX"),) and fills[0].loops == scan.cand.loops
           and fills[0].guards == scan.per.guards and fills[0].seq < scan.cand.first_seq)
    rep.fn(pre + "KNN-reset", fn, "the distance buffer is reset to FLOAT_MAX for every query, before the scan", okf,
           "distances.fill(FLOAT_MAX) must be the first thing done for each query (otherwise neighbours of the "
           "previous query leak into this one)", line=scan.per.line)
    # R-PAIR: every read of the index buffer outside the scan is guarded by d[same slot] != FLOAT_MAX
    n_reads = 0
    for e in w.events:
        if scan.bubble.lid in e.loops or (e.kind == "store" and e.target[0] == "idx" and e.target[1] == scan.N):
            continue
        tops = [x for x in (e.target, e.value) if x is not None] + list(e.args)
        reads = set()
        for top in tops:
            for t in subterms(top):
                if t[0] == "idx" and t[1] == scan.N:
                    reads.add(t)
        for t in reads:
            n_reads += 1
            need = ("cmp", "!=", *sorted([K("FLOAT_MAX"), ("idx", scan.D, t[2])], key=repr))
            # (`d < FLOAT_MAX` is `d != FLOAT_MAX` for a distance: nothing exceeds the largest float)
            ok = any(has_guard(e.guards, v) for v in validity_tests(scan, w, t[2]))
            if not ok and e.kind == "bind":
                ok = True  # copying a slot into a local reads nothing from the training graph yet; its uses are checked
            if not ok and t[2][0] == "iter" and t[2][1][0] == "listcomp" and len(t[2][1][2]) == 1:
                # the slot comes from a list of ranks filtered by that very test: [r for r in ... if d[r] != FLOAT_MAX]
                lc = t[2][1]
                rr = ("iter", lc[2][0][0], lc[2][0][1])
                if lc[1] == rr:
                    ok = any(c in (("cmp", "!=", *sorted([K("FLOAT_MAX"), ("idx", scan.D, rr)], key=repr)),
                                   ("cmp", "<", ("idx", scan.D, rr), K("FLOAT_MAX"))) for c in lc[2][0][2])
            rep.ev(pre + "KNN-valid-slot", e, ok,
                   f"index buffer slot '{show(t[2])}' is read without checking that its distance is not FLOAT_MAX "
                   "(fewer than k candidates => stale index)")
    rep.fn(pre + "KNN-reads", fn, f"{n_reads} guarded read(s) of the index buffer after the scan", n_reads >= 1,
           "the neighbours found by the scan are never read", line=scan.per.line)
