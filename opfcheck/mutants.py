"""Self-validation corpus (DESIGN.md 7.2): single-edit variants of the *current* tree,
evaluated in memory (Repo overrides); nothing is written to /repo.

Each entry: (name, properties that must report it | () for a benign twin,
             relative file, old text, new text).
`old` must occur exactly once in the current file, otherwise the entry is skipped and
counted as 'stale' (the tree moved on; the corpus, not the tree, needs attention).
"""

from __future__ import annotations

import importlib
import os
from typing import Dict, List, Tuple

from .core import Repo, dry_run

SUP = "opfython/models/supervised.py"
SEMI = "opfython/models/semi_supervised.py"
KNN = "opfython/models/knn_supervised.py"
UNS = "opfython/models/unsupervised.py"
HEAP = "opfython/core/heap.py"
SUBG = "opfython/core/subgraph.py"
KSUB = "opfython/subgraphs/knn.py"
DIST = "opfython/math/distance.py"
GEN = "opfython/math/general.py"
OPFC = "opfython/core/opf.py"
DEC = "opfython/utils/decorator.py"
SPLIT = "opfython/stream/splitter.py"
LOAD = "opfython/stream/loader.py"
PARSE = "opfython/stream/parser.py"
CONV = "opfython/utils/converter.py"
NODE = "opfython/core/node.py"
CONST = "opfython/utils/constants.py"

CORPUS: List[Tuple[str, Tuple[str, ...], str, str, str]] = []


def M(name, props, file, old, new):
    CORPUS.append((name, tuple(props), file, old, new))


def load_corpus():
    if not CORPUS:
        from . import mutants_data  # noqa: F401  (fills CORPUS)
    return CORPUS


def apply(repo_root: str, file: str, old: str, new: str, nth: int = 0):
    import os

    with open(os.path.join(repo_root, file), encoding="utf-8") as fh:
        src = fh.read()
    cnt = src.count(old)
    if cnt != 1:
        return None
    return src.replace(old, new)


def _one(job):
    pid, repo_root, name, props, file, old, new = job
    mod = importlib.import_module(f"opfcheck.props.{pid.lower()}")
    relevant = pid in props
    src = apply(repo_root, file, old, new)
    if src is None:
        return ("stale", name)
    try:
        compile(src, file, "exec")
    except SyntaxError:
        return ("error", (name, "variant does not compile"))
    repo = Repo(repo_root, overrides={file: src})
    code, viol, err = dry_run(pid, mod.check, repo)
    if relevant:
        if code == 1:
            return ("caught", (name, sorted({v.rule for v in viol})))
        if code == 2:
            return ("error", (name, err))
        return ("missed", name)
    if code == 0:
        return ("silent_ok", name)
    if code == 2:
        return ("error", (name, err))
    return ("false_alarm", (name, [(v.rule, v.construct[:80]) for v in viol]))


def run_corpus(pid: str, repo_root: str, only: str = None, jobs: int = None) -> Dict[str, list]:
    res = {"caught": [], "missed": [], "silent_ok": [], "false_alarm": [], "stale": [], "error": []}
    work = []
    for name, props, file, old, new in load_corpus():
        if only and only != name:
            continue
        relevant = pid in props
        benign = not props or all(p.startswith("~") for p in props)
        benign_for = benign and (not props or ("~" + pid) in props)
        if not relevant and not benign_for:
            continue
        work.append((pid, repo_root, name, props, file, old, new))
    if jobs is None:
        jobs = min(16, os.cpu_count() or 1)
    if jobs > 1 and len(work) > 3:
        import multiprocessing as mp

        with mp.get_context("fork").Pool(jobs) as pool:
            out = pool.map(_one, work)
    else:
        out = [_one(j) for j in work]
    for kind, item in out:
        res[kind].append(item)
    return res
