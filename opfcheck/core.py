"""E0: front end, resolver, report/evidence plumbing.

Exit conventions (DESIGN.md section 1):
  0  every obligation of the decided clauses discharged (KNOWN-FINDING lines allowed)
  1  a recognised construct breaks a rule: `VIOLATION property=<id> replay=<path>`
  2  ANALYSIS-ERROR: the code no longer maps onto the analyser's model
"""

from __future__ import annotations

import ast
import hashlib
import json
import os
import sys
import time
import traceback
from dataclasses import dataclass, field
from typing import Callable, Dict, List, Optional, Tuple

VERIF = os.path.dirname(os.path.dirname(os.path.abspath(__file__)))
DEFAULT_REPO = os.environ.get("OPF_REPO", "/repo")
PKG = "opfython"


class AnalysisError(Exception):
    """The source no longer maps onto the analyser's model (exit 2)."""


# ---------------------------------------------------------------------------
# Repository model
# ---------------------------------------------------------------------------


@dataclass
class FunctionInfo:
    module: str
    cls: Optional[str]
    name: str
    node: ast.FunctionDef
    decorators: List[str]

    @property
    def qual(self) -> str:
        return f"{self.cls}.{self.name}" if self.cls else self.name

    @property
    def fq(self) -> str:
        return f"{self.module}:{self.qual}"

    @property
    def params(self) -> List[str]:
        a = self.node.args
        return [x.arg for x in a.posonlyargs + a.args + a.kwonlyargs]


@dataclass
class ClassInfo:
    module: str
    name: str
    node: ast.ClassDef
    bases: List[str]
    methods: Dict[str, FunctionInfo] = field(default_factory=dict)
    getters: Dict[str, FunctionInfo] = field(default_factory=dict)
    setters: Dict[str, FunctionInfo] = field(default_factory=dict)


@dataclass
class ModuleInfo:
    name: str
    relpath: str
    src: str
    tree: ast.Module
    imports: Dict[str, str] = field(default_factory=dict)  # alias -> dotted target
    functions: Dict[str, FunctionInfo] = field(default_factory=dict)
    classes: Dict[str, ClassInfo] = field(default_factory=dict)


def dotted(node: ast.AST) -> Optional[str]:
    """`a.b.c` for Name/Attribute chains, else None."""
    parts = []
    while isinstance(node, ast.Attribute):
        parts.append(node.attr)
        node = node.value
    if isinstance(node, ast.Name):
        parts.append(node.id)
        return ".".join(reversed(parts))
    return None


def unparse(node: ast.AST) -> str:
    """Normalised one-line statement/expression text (keys for findings)."""
    try:
        s = ast.unparse(node)
    except Exception:  # pragma: no cover
        s = ast.dump(node)
    return " ".join(s.split())


class _Deannotate(ast.NodeTransformer):
    """`x: T = v` is `x = v` and a bare declaration `x: T` is nothing, everywhere except in the bodies of record classes
    (NamedTuple / dataclass / TypedDict), where the annotated names are the fields.  The annotation is kept as `.annotation`
    on the new node for rules that want to read it."""

    def visit_ClassDef(self, node: ast.ClassDef):
        bases = {ast.unparse(b).split(".")[-1].split("[")[0] for b in node.bases}
        decos = {ast.unparse(d).split("(")[0].split(".")[-1] for d in node.decorator_list}
        if bases & {"NamedTuple", "TypedDict", "Protocol"} or "dataclass" in decos:
            # methods of a record class are ordinary code
            node.body = [self.visit(st) if isinstance(st, (ast.FunctionDef, ast.AsyncFunctionDef)) else st for st in node.body]
            return node
        return self.generic_visit(node)

    def visit_AnnAssign(self, node: ast.AnnAssign):
        self.generic_visit(node)
        if node.value is None:
            new = ast.Pass()
        else:
            new = ast.Assign(targets=[node.target], value=node.value, type_comment=None)
        new.annotation = node.annotation
        return ast.copy_location(new, node)


class Repo:
    """All of /repo/opfython parsed with `ast`; nothing is imported."""

    def __init__(self, root: str = None, overrides: Dict[str, str] = None):
        self.root = root or DEFAULT_REPO
        self.overrides = overrides or {}
        self.modules: Dict[str, ModuleInfo] = {}
        self.files_parsed = 0
        self.memo: Dict[object, object] = {}  # derived, read-only artefacts (walks, effect summaries, translations)
        self._load()
        self.constants = self._read_constants()

    # -- loading -----------------------------------------------------------
    def _load(self) -> None:
        pkg_dir = os.path.join(self.root, PKG)
        if not os.path.isdir(pkg_dir):
            raise AnalysisError(f"package directory not found: {pkg_dir}")
        for dirpath, dirnames, filenames in os.walk(pkg_dir):
            dirnames[:] = sorted(d for d in dirnames if d != "__pycache__")
            for fn in sorted(filenames):
                if not fn.endswith(".py"):
                    continue
                full = os.path.join(dirpath, fn)
                rel = os.path.relpath(full, self.root)
                if rel in self.overrides:
                    src = self.overrides[rel]
                else:
                    with open(full, encoding="utf-8") as fh:
                        src = fh.read()
                try:
                    tree = ast.parse(src, filename=rel)
                except SyntaxError as exc:
                    raise AnalysisError(f"{rel} does not parse: {exc}") from exc
                tree = _Deannotate().visit(tree)
                modname = rel[:-3].replace(os.sep, ".")
                if modname.endswith(".__init__"):
                    modname = modname[: -len(".__init__")]
                mi = ModuleInfo(modname, rel, src, tree)
                self._index_module(mi)
                self.modules[modname] = mi
                self.files_parsed += 1

    def _index_module(self, mi: ModuleInfo) -> None:
        for node in mi.tree.body:
            if isinstance(node, ast.Import):
                for a in node.names:
                    mi.imports[a.asname or a.name.split(".")[0]] = (
                        a.name if a.asname else a.name.split(".")[0]
                    )
            elif isinstance(node, ast.ImportFrom):
                for a in node.names:
                    mi.imports[a.asname or a.name] = f"{node.module}.{a.name}"
            elif isinstance(node, ast.FunctionDef):
                mi.functions[node.name] = FunctionInfo(
                    mi.name, None, node.name, node, [unparse(d) for d in node.decorator_list]
                )
            elif isinstance(node, ast.ClassDef):
                ci = ClassInfo(mi.name, node.name, node, [unparse(b) for b in node.bases])
                for sub in node.body:
                    if isinstance(sub, ast.FunctionDef):
                        decs = [unparse(d) for d in sub.decorator_list]
                        fi = FunctionInfo(mi.name, node.name, sub.name, sub, decs)
                        if "property" in decs:
                            ci.getters[sub.name] = fi
                        elif any(d.endswith(".setter") for d in decs):
                            ci.setters[sub.name] = fi
                        else:
                            ci.methods[sub.name] = fi
                mi.classes[node.name] = ci

    def _read_constants(self) -> Dict[str, object]:
        mi = self.modules.get(f"{PKG}.utils.constants")
        if mi is None:
            raise AnalysisError("opfython/utils/constants.py missing")
        out: Dict[str, object] = {}
        # enum classes defined in the module (`class Color(enum.IntEnum): WHITE = 0 ...`): member -> literal value; an
        # `auto()` member takes the value Python gives it (previous integer + 1, starting at 1)
        enums: Dict[str, Dict[str, object]] = {}
        for node in mi.tree.body:
            if isinstance(node, ast.ClassDef) and any(unparse(b).split(".")[-1] in ("IntEnum", "Enum", "IntFlag") for b in node.bases):
                members: Dict[str, object] = {}
                last = 0
                for st in node.body:
                    if isinstance(st, ast.Assign) and len(st.targets) == 1 and isinstance(st.targets[0], ast.Name):
                        try:
                            val = ast.literal_eval(st.value)
                        except Exception:
                            txt = unparse(st.value).replace(" ", "")
                            val = last + 1 if txt in ("auto()", "enum.auto()") else ("expr", unparse(st.value))
                        members[st.targets[0].id] = val
                        if isinstance(val, int):
                            last = val
                enums[node.name] = members
        bindings: List[Tuple[str, ast.AST]] = []
        for node in mi.tree.body:
            if isinstance(node, ast.Assign) and len(node.targets) == 1 and isinstance(node.targets[0], ast.Name):
                bindings.append((node.targets[0].id, node.value))
            elif isinstance(node, ast.AnnAssign) and isinstance(node.target, ast.Name) and node.value is not None:
                bindings.append((node.target.id, node.value))  # `NIL: Final[int] = -1`
            elif isinstance(node, ast.Assign) and len(node.targets) == 1 and isinstance(node.targets[0], ast.Tuple) \
                    and all(isinstance(e, ast.Name) for e in node.targets[0].elts):
                names = [e.id for e in node.targets[0].elts]
                if isinstance(node.value, ast.Tuple) and len(node.value.elts) == len(names):
                    bindings.extend(zip(names, node.value.elts))  # `WHITE, GRAY, BLACK = Color.WHITE, Color.GRAY, Color.BLACK`
                elif isinstance(node.value, ast.Name) and node.value.id in enums and len(enums[node.value.id]) == len(names):
                    # `WHITE, GRAY, BLACK = Color`: an enum class iterates its members in definition order
                    for nm, member in zip(names, enums[node.value.id]):
                        bindings.append((nm, ast.Attribute(value=ast.Name(id=node.value.id, ctx=ast.Load()), attr=member, ctx=ast.Load())))
        for name, value in bindings:
            try:
                out[name] = ast.literal_eval(value)
            except Exception:
                v = ("expr", unparse(value))
                # `WHITE = Color.WHITE` / `WHITE = Color.WHITE.value` / `int(Color.WHITE)`: the member's integer
                core = value
                if isinstance(core, ast.Call) and isinstance(core.func, ast.Name) and core.func.id == "int" and len(core.args) == 1:
                    core = core.args[0]
                if isinstance(core, ast.Attribute) and core.attr == "value":
                    core = core.value
                if isinstance(core, ast.Attribute) and isinstance(core.value, ast.Name) and core.value.id in enums \
                        and core.attr in enums[core.value.id] and not isinstance(enums[core.value.id][core.attr], tuple):
                    v = enums[core.value.id][core.attr]
                elif isinstance(core, ast.Name) and core.id in out:
                    v = out[core.id]  # an alias of an earlier constant
                out[name] = v
        # the names a member of an enum of this module goes by: its module-level alias (`WHITE = Color.WHITE`) or, when the
        # module keeps no alias, the member's own name (then a constant of that name is the member's value)
        self.enum_alias: Dict[Tuple[str, str], str] = {}
        for (name, value) in bindings:
            core = value
            if isinstance(core, ast.Attribute) and isinstance(core.value, ast.Name) and core.value.id in enums and core.attr in enums[core.value.id]:
                self.enum_alias.setdefault((core.value.id, core.attr), name)
        for cls, members in enums.items():
            for m, val in members.items():
                if (cls, m) not in self.enum_alias and not isinstance(val, tuple) and m.isupper():
                    if m not in out:
                        out[m] = val
                    if out.get(m) == val:
                        self.enum_alias[(cls, m)] = m
        return out

    # -- lookup ------------------------------------------------------------
    def module(self, name: str) -> ModuleInfo:
        if name not in self.modules:
            raise AnalysisError(f"module {name} not found")
        return self.modules[name]

    def find_class(self, name: str) -> ClassInfo:
        hits = [m.classes[name] for m in self.modules.values() if name in m.classes]
        if len(hits) != 1:
            raise AnalysisError(f"class {name}: {len(hits)} definitions")
        return hits[0]

    def has_class(self, name: str) -> bool:
        return sum(1 for m in self.modules.values() if name in m.classes) == 1

    def mro(self, name: str) -> List[ClassInfo]:
        out, seen = [], set()
        todo = [name]
        while todo:
            n = todo.pop(0)
            if n in seen or not self.has_class(n):
                continue
            seen.add(n)
            ci = self.find_class(n)
            out.append(ci)
            todo.extend(b.split(".")[-1] for b in ci.bases)
        return out

    def method(self, cls: str, name: str) -> Optional[FunctionInfo]:
        for ci in self.mro(cls):
            if name in ci.methods:
                return ci.methods[name]
        return None

    def need_method(self, cls: str, name: str) -> FunctionInfo:
        fi = self.method(cls, name)
        if fi is None:
            raise AnalysisError(f"anchor vanished: {cls}.{name}")
        return fi

    def need_function(self, module: str, name: str) -> FunctionInfo:
        mi = self.module(module)
        if name not in mi.functions:
            raise AnalysisError(f"anchor vanished: {module}:{name}")
        return mi.functions[name]

    def all_functions(self) -> List[FunctionInfo]:
        out = []
        for mi in self.modules.values():
            out.extend(mi.functions.values())
            for ci in mi.classes.values():
                out.extend(ci.methods.values())
                out.extend(ci.getters.values())
                out.extend(ci.setters.values())
        return out

    def digest(self) -> str:
        h = hashlib.sha256()
        for name in sorted(self.modules):
            h.update(name.encode())
            h.update(self.modules[name].src.encode())
        return h.hexdigest()[:16]


# ---------------------------------------------------------------------------
# Obligations, findings, evidence
# ---------------------------------------------------------------------------


@dataclass
class Obligation:
    rule: str
    function: str
    construct: str
    ok: bool
    detail: str = ""
    file: str = ""
    line: int = 0

    def key(self) -> Tuple[str, str, str]:
        return (self.rule, self.function, self.construct)

    def as_dict(self) -> dict:
        return {
            "rule": self.rule,
            "function": self.function,
            "construct": self.construct,
            "verdict": "discharged" if self.ok else "VIOLATED",
            "detail": self.detail if not self.ok else "",
            "message_if_violated": self.detail if self.ok else "",
            "file": self.file,
            "line": self.line,
        }


def load_known_findings() -> List[dict]:
    path = os.path.join(VERIF, "known_findings.json")
    if not os.path.exists(path):
        return []
    with open(path, encoding="utf-8") as fh:
        return json.load(fh).get("findings", [])


class Check:
    """Collects obligations for one property and produces verdict + evidence."""

    def __init__(self, pid: str, tier: str = "quick", seed: int = 0, level: str = "other"):
        self.pid = pid
        self.tier = tier
        self.seed = seed
        self.level = level
        self.obligations: List[Obligation] = []
        self.floors: Dict[str, Tuple[int, int]] = {}
        self.analysed: Dict[str, object] = {}
        self.undecided: List[str] = []
        self.assumptions: List[str] = []
        self.explanation = ""
        self.extra: Dict[str, object] = {}
        self.t0 = time.time()
        self.quiet = False
        self.dry = False

    # -- recording -----------------------------------------------------------
    def ob(
        self,
        rule: str,
        function: str,
        construct: str,
        ok: bool,
        detail: str = "",
        file: str = "",
        line: int = 0,
    ) -> bool:
        self.obligations.append(
            Obligation(rule, function, " ".join(str(construct).split()), bool(ok), detail, file, line)
        )
        return bool(ok)

    def floor(self, what: str, found: int, minimum: int) -> None:
        """Instance floors: fewer instances than confirmed by hand => exit 2."""
        self.floors[what] = (found, minimum)
        if found < minimum:
            raise AnalysisError(
                f"instance floor: {what}: found {found}, expected at least {minimum} "
                "(the rule would pass vacuously)"
            )

    def note(self, key: str, value) -> None:
        self.analysed[key] = value

    # -- verdict -------------------------------------------------------------
    def violations(self) -> List[Obligation]:
        seen, out = set(), []
        for o in self.obligations:
            if not o.ok and o.key() not in seen:
                seen.add(o.key())
                out.append(o)
        return out

    def split_known(self) -> Tuple[List[Obligation], List[Tuple[Obligation, dict]]]:
        known = [
            k
            for k in load_known_findings()
            if k.get("status") == "known" and k.get("property") == self.pid
        ]
        fresh, listed = [], []
        for v in self.violations():
            hit = None
            for k in known:
                if (
                    k.get("rule") == v.rule
                    and k.get("function") == v.function
                    and " ".join(k.get("construct", "").split()) == v.construct
                ):
                    hit = k
                    break
            if hit:
                listed.append((v, hit))
            else:
                fresh.append(v)
        return fresh, listed

    def evidence(self, fresh, listed) -> dict:
        distinct = {o.key() for o in self.obligations}
        n_ob = len(self.obligations)
        n_ok = sum(1 for o in self.obligations if o.ok)
        samples = [o.as_dict() for o in self.obligations[:12]]
        samples += [o.as_dict() for o in self.obligations if not o.ok][:20]
        cov = {
            "explanation": self.explanation,
            "evaluations": n_ob,
            "distinct_nontrivial": len(distinct),
            "rule": "one evaluation = one (rule, function, normalised construct) obligation "
            "computed from the current source; distinct = distinct keys",
            "obligations": n_ob,
            "discharged": n_ok,
            "samples": samples,
            "instance_floors": {k: {"found": a, "floor": b} for k, (a, b) in self.floors.items()},
            "analysed": self.analysed,
            "undecided_clauses": self.undecided,
            "known_findings": [
                {"rule": v.rule, "function": v.function, "construct": v.construct} for v, _ in listed
            ],
            "exhaustive": True,
        }
        cov.update(self.extra)
        return {
            "property_id": self.pid,
            "tier": self.tier,
            "seed": int(self.seed),
            "level": self.level,
            "coverage": cov,
            "assumptions": self.assumptions,
            "wall_s": round(time.time() - self.t0, 3),
            "violations": len(fresh),
        }

    def finish(self) -> int:
        fresh, listed = self.split_known()
        if self.dry:
            self.fresh = fresh
            return 1 if fresh else 0
        ev = self.evidence(fresh, listed)
        os.makedirs(os.path.join(VERIF, "evidence"), exist_ok=True)
        with open(os.path.join(VERIF, "evidence", f"{self.pid}.json"), "w", encoding="utf-8") as fh:
            json.dump(ev, fh, indent=1, sort_keys=True, default=str)
        n_ob = len(self.obligations)
        if not self.quiet:
            for v, k in listed:
                print(
                    f"KNOWN-FINDING: property={self.pid} {v.rule} {v.function} {v.construct} "
                    f"-- {k.get('what', '')}"
                )
        if fresh:
            os.makedirs(os.path.join(VERIF, "replay"), exist_ok=True)
            for v in fresh:
                loc = f"{v.file}:{v.line} " if v.file else ""
                print(f"{loc}{v.function} [{v.rule}] {v.detail} in '{v.construct}'")
            first = fresh[0]
            slug = "".join(ch if ch.isalnum() or ch in "._" else "_" for ch in f"{first.rule}-{first.function}")
            path = os.path.join(VERIF, "replay", f"{self.pid}-{slug}.json")
            with open(path, "w", encoding="utf-8") as fh:
                json.dump(
                    {"property": self.pid, "violations": [v.as_dict() for v in fresh]},
                    fh,
                    indent=1,
                )
            print(f"VIOLATION property={self.pid} replay={path}")
            return 1
        if not self.quiet:
            print(
                f"OK property={self.pid} tier={self.tier} obligations={n_ob} "
                f"discharged={sum(1 for o in self.obligations if o.ok)} "
                f"known_findings={len(listed)} wall={ev['wall_s']}s"
            )
        return 0


def dry_run(pid: str, body: Callable[[Check, Repo], None], repo: Repo):
    """Evaluate a check on an (in-memory) tree without writing evidence: (code, violations, error)."""
    chk = Check(pid, "quick", 0)
    chk.quiet = True
    chk.dry = True
    try:
        body(chk, repo)
        if not chk.obligations:
            raise AnalysisError("no obligation was generated")
        code = chk.finish()
        return code, getattr(chk, "fresh", []), None
    except AnalysisError as exc:
        if chk.split_known()[0]:
            code = chk.finish()
            return code, getattr(chk, "fresh", []), None
        return 2, [], str(exc)
    except Exception as exc:
        return 2, [], f"{type(exc).__name__}: {exc}"


def run_check(pid: str, body: Callable[[Check, Repo], None], tier: str, seed: int, level: str = "other",
              repo: Repo = None, quiet: bool = False) -> int:
    """Run one property check with the exit-2 conventions."""
    chk = Check(pid, tier, seed, level)
    chk.quiet = quiet
    try:
        if repo is None:
            repo = Repo()
        chk.note("repo_root", repo.root)
        chk.note("files_parsed", repo.files_parsed)
        chk.note("functions_parsed", len(repo.all_functions()))
        chk.note("source_digest", repo.digest())
        body(chk, repo)
        if not chk.obligations:
            raise AnalysisError("no obligation was generated (vacuous check)")
        return chk.finish()
    except AnalysisError as exc:
        # a rule that was already broken by a named construct is a verdict; what could not be analysed afterwards
        # (typically because of that very defect) is reported next to it and does not turn it into "unknown"
        if chk.split_known()[0]:
            chk.note("analysis_error_after_violation", str(exc))
            if not quiet:
                print(f"note: analysis stopped early after the violation(s) below: {exc}")
            return chk.finish()
        if not quiet:
            print(f"ANALYSIS-ERROR property={pid}: {exc}")
        return 2
    except Exception as exc:  # any crash is an analysis error, never a verdict
        if not quiet:
            traceback.print_exc()
            print(f"ANALYSIS-ERROR property={pid}: {type(exc).__name__}: {exc}")
        return 2
