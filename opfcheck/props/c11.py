"""C11: invariance to monotone rescaling of the metric (decided) and to training order (necessary part)."""

from ..common import model_walk, run_kinds
from ..rules_flow import check_order_only
from ..rules_ift import Rep
from ..rules_metrics import Metrics, check_monotone_family
from ..schema import weight_terms

EXPLANATION = (
    "Rescaling clause, decided soundly: (a) information-flow analysis from every arc-weight site of "
    "SupervisedOPF.fit (Prim + competition), SupervisedOPF.predict and SemiSupervisedOPF.fit: weights and "
    "everything stored from them (H.cost, Node.cost, running minima) reach only comparisons against other "
    "weight-derived values / 0 / +-FLOAT_MAX, max/min, stores, the cost argument of H.update and the logger; "
    "never arithmetic, exp/log, int(), an index position or a truth test - so prototypes, predecessors, labels, "
    "conquest order and predictions depend on the weights only through their order type; (b) each of the five "
    "Euclidean identifiers has normal form g(sum((x-y)^2)) with g'(s) > 0 for s > 0 and g(0) = 0 (sympy), so "
    "they induce the same order type. Permutation clause, necessary condition only: node indices are nominal "
    "(kind rules K1/K3/K4: every node loop covers the whole graph - a partial range such as range(n - 1) is an ordinal, not a node index -, indices are never ordered and never used in arithmetic), so no result can depend on an index VALUE; "
    "invariance itself also needs uniqueness of the forest under tie-free data, which is graph theory."
)

SITES = (("SupervisedOPF", "fit"), ("SupervisedOPF", "predict"), ("SemiSupervisedOPF", "fit"))


def check_storage_order_loops(rep, w) -> int:
    """PERM-carried: a loop that visits the nodes in storage order (`for i in range(n_nodes)`, `for node in nodes`) must not
    write a field of one node from the same field of another node chosen per round (nodes[i].f = nodes[g(i)].f): whether
    nodes[g(i)].f already has its final value then depends on whether g(i) is stored before i - on the order of the
    training set.  (The same copy made in conquest order, or from a node fixed for the whole loop, is fine.)"""
    from ..ir import subterms
    from ..schema import node_loop
    n = 0
    for li in w.loops.values():
        nl = node_loop(li)
        if nl is None:
            continue
        n += 1
        G, ix, N = nl

        def varies(t):
            return any((u[0] == "iter" and u[-1] == li.lid) or (u[0] == "iterproj" and u[2] == li.lid)
                       or (u[0] == "phi" and u[1] == li.lid) for u in subterms(t))
        for e in w.events:
            if e.kind != "store" or li.lid not in e.loops or e.target[0] != "attr" or e.aug:
                continue
            tgt_node, f = e.target[1], e.target[2]
            if tgt_node != N:
                continue
            bad = [u for u in subterms(e.value) if u[0] == "attr" and u[2] == f and u[1] != N and u[1][0] == "idx"
                   and u[1][1] == ("attr", G, "nodes") and varies(u[1][2])]
            if bad:
                from ..ir import show
                rep.ev("PERM-carried", e, False,
                       f"a loop over the nodes in storage order sets {f} of the current node from '{show(bad[0])[:100]}': that node "
                       "has its final value only if it is stored earlier, so the result depends on the order of the training set "
                       "(copying along predecessors is order-independent only in conquest order, idx_nodes)")
    return n


def check(chk, repo):
    chk.explanation = EXPLANATION
    rep = Rep(chk, repo)
    n_sites = 0
    uses = 0
    for cls, m in SITES:
        w = model_walk(repo, cls, m)
        n_here = len(weight_terms(w))
        n_sites += n_here
        st = check_order_only(rep, w, "")
        uses += st["uses"]
        # (Prim + competition in the fits; predict has one site per spelling of the scan's first offer; a weight that is
        # wrapped before it is used is still followed from its matrix read / metric call)
        chk.floor(f"arc-weight sites in {cls}.{m}", max(n_here, st["sources"]), 1 if m == "predict" else 2)
        run_kinds(rep, w, rules=("K1", "K2", "K3", "K4"))
    n_carried = 0
    for cls, m in SITES:
        n_carried += check_storage_order_loops(rep, model_walk(repo, cls, m))
    chk.note("storage_order_loops_checked", n_carried)
    chk.floor("arc-weight sites in supervised / semi-supervised fit and predict", n_sites, 4)
    chk.floor("uses of weight-derived values checked", uses, 30)
    M = Metrics(repo)
    n = check_monotone_family(rep, M)
    chk.floor("identifiers of the Euclidean family", n, 5)
    k = repo.constants.get("MAX_ARC_WEIGHT")
    rep.fn("MONO-K", repo.need_method("OPF", "__init__"), f"MAX_ARC_WEIGHT = {k!r} is a positive constant",
           isinstance(k, (int, float)) and k > 0, "the log variants are K*log(1 + .): K must be > 0")
    # weights read back from a distance file must keep their order type: no rounding on the way to disk
    from .c10 import check_savetxt_format, distance_file_writer
    check_savetxt_format(rep, distance_file_writer(repo), "MONO-file")
    # the prototype set must not depend on where Prim's walk starts: that is the both-endpoints rule of C02
    from ..common import competitions_of
    from ..rules_ift import check_prim
    _, comps = competitions_of(repo, "SupervisedOPF", "fit", 2)
    check_prim(rep, "PROTO:", comps[0])
    # a prediction must be a function of the forest and of the query alone: the running minimum and its label start
    # afresh, from the first sample of the order, for every query (otherwise a query conquered by idx_nodes[0] - which of
    # the zero-cost prototypes that is depends on storage order - inherits what the previous query left behind)
    from .c03 import check_scan
    # ... and the early exit must compare with the cost of the NEXT SAMPLE OF THE CONQUEST ORDER (a cost read at a storage
    # position makes the answer depend on how the training set is stored)
    check_scan(chk, rep, repo, "PREDICT:", only={"SCAN-init", "SCAN-label", "SCAN-label-stray", "SCAN-candidate", "SCAN-exit",
                                                 "SCAN-bound", "SCAN-bound-present", "SCAN-start", "SCAN-position"})
    # costs and weights are compared as stored: the data classes must hand back what was stored (transparent properties)
    from ..common import check_model_premises
    check_model_premises(rep, repo)
    # every forest is grown through the priority queue: its structural rules are a premise here too
    from ..rules_heap import check_heap
    check_heap(rep, repo, "HEAP-")
    chk.undecided += ["permutation invariance itself (needs uniqueness of the optimum-path forest for tie-free data)"]
    chk.assumptions += ["strict monotonicity is over the reals; distinct distances that round to the same float are "
                        "outside the property's tie-free premise"]
