"""C02: `_find_prototypes` is Prim over the complete graph with the both-endpoints rule."""

from ..common import competitions_of, run_kinds
from ..rules_ift import Rep, check_prim, check_prototypes_survive, check_seeding

EXPLANATION = (
    "Static schema conformance: the first competition loop reached from SupervisedOPF.fit (and from "
    "SemiSupervisedOPF.fit, which shares it) must be an instance of Prim's algorithm over the complete graph: "
    "min-priority queue sized from the graph, one start node without predecessor, neighbour loop over every "
    "node, key = the bare arc weight w(p,q) (not combined with the key of p), acceptance w < H.cost[q] "
    "(non-strict also accepted: any MST is allowed), pred[q] = p in the accepted branch; at removal, exactly "
    "under pred(p) != NIL and label(p) != label(pred(p)), BOTH p and that same pred(p) are flagged PROTOTYPE; "
    "and the optimum-path competition re-seeds every prototype with cost 0, no predecessor and its own label "
    "under strict improvement (so prototypes keep them). Minimality/uniqueness of the tree are graph theory "
    "(Prim's theorem) and are not decided."
)


def check(chk, repo):
    chk.explanation = EXPLANATION
    rep = Rep(chk, repo)
    total = 0
    from ..common import prototypes_searched
    for cls in ("SupervisedOPF", "SemiSupervisedOPF"):
        if not prototypes_searched(rep, repo, cls):
            return
        w, comps = competitions_of(repo, cls, "fit", 2)
        total += len(comps)
        prim, ift = comps[0], comps[-1]
        chk.note(f"{cls}.prim_loop", f"{prim.fn.qual}:{prim.loop.line}")
        # the spanning tree is grown on the graph of THIS call's samples, labels and row identifiers
        from ..common import check_fresh_graph
        check_fresh_graph(rep, w, prim.loop.first_seq, "" if cls == "SupervisedOPF" else "semi:")
        if cls == "SupervisedOPF":
            check_prim(rep, "", prim)
            run_kinds(rep, w)
        else:
            # the semi-supervised model must reach the very same prototype search
            same = prim.fn.fq == repo.need_method("SupervisedOPF", "_find_prototypes").fq
            rep.fn("PRIM-shared", prim.fn, "SemiSupervisedOPF.fit reaches SupervisedOPF's prototype search",
                   same, "semi-supervised training uses a different prototype search", line=prim.loop.line)
            if not same:
                check_prim(rep, "semi:", prim)
            G = ("attr", ("self",), "subgraph")
            early = [e for e in w.events if e.kind == "call" and e.name in ("append", "extend", "insert")
                     and e.target[1] == ("attr", G, "nodes") and e.seq < prim.loop.first_seq]
            rep.fn("PRIM-labelled-only", w.entry, "the spanning tree is built over the labelled samples only",
                   not early, "nodes are added to the training graph before the prototype search: unlabeled samples "
                   "take part in the spanning tree", line=early[0].line if early else prim.loop.line)
        check_seeding(rep, "" if cls == "SupervisedOPF" else "semi:", ift, repo)
        check_prototypes_survive(rep, "" if cls == "SupervisedOPF" else "semi:", ift)
    chk.floor("competition loops reachable from the two fit methods", total, 4)
    from ..common import check_model_premises
    check_model_premises(rep, repo)
    from ..common import check_learn_state_premise
    check_learn_state_premise(rep, repo)
    from ..rules_heap import check_heap
    check_heap(rep, repo, "HEAP-")
    chk.undecided += [
        "minimality of the spanning tree and its uniqueness under distinct weights (Prim's theorem, trusted)",
        "'every class contributes a prototype' (follows from connectivity of the tree; graph theory)",
    ]
    chk.assumptions += ["Prim's algorithm is correct for any tie-breaking", "analyser normalisation is faithful"]
    # premise: the weights that compete are the configured dissimilarity (flag, matrix and node pair of every selector)
    from .c10 import check_walk_selectors
    check_walk_selectors(rep, repo, 'model', 'SupervisedOPF', 'fit', set(), pre="WEIGHT:")
    # ... and the node pair names the caller's rows: a node's id is I[i] (the row number only when no index array was given)
    from .c10 import check_row_ids
    check_row_ids(chk, rep, repo, only={"Subgraph._build"}, floor=1)
