"""C04: zero resubstitution error - the KNN clause and the metric premise."""

from ..common import competitions_of
from ..core import AnalysisError
from ..ir import show
from ..rules_ift import Rep, check_fmin_clustering, strip_override
from ..schema import acceptance

EXPLANATION = (
    "KNN clause, decided structurally: the LAST clustering reached from KNNSupervisedOPF.fit is entered with "
    "label forcing on (the constant True flows into the helper through inlining); there the candidate of a "
    "neighbour with a different true label is overridden by the policy's worst value (-FLOAT_MAX), the override "
    "is control-dependent on exactly label(p) != label(q), the overridden value is the one tested (strictly) "
    "and passed to H.update, roots take their own label and conquered nodes copy the conqueror's assigned "
    "label - hence by induction every assigned label equals the node's true label, ties included. Metric "
    "premise: every identifier the axiom table marks symmetric / non-negative / zero-self passes C08's "
    "zero-self-distance and definedness obligations. The supervised clause (tie-free => own labels) is a "
    "corollary of C01-C03 plus MST theory and is NOT decided separately."
)


def check(chk, repo):
    chk.explanation = EXPLANATION
    rep = Rep(chk, repo)
    w, comps = competitions_of(repo, "KNNSupervisedOPF", "fit", 2)
    final = comps[-1]
    if final.fn.qual != "KNNSupervisedOPF._clustering":
        raise AnalysisError(f"final competition of KNNSupervisedOPF.fit is in {final.fn.qual}")
    chk.note("final_clustering", f"{final.fn.qual}:{final.loop.line}")
    # it must be the last clustering: nothing re-clusters afterwards (by construction comps[-1])
    info = check_fmin_clustering(rep, "", final, "predicted_label")
    for u in final.updates:
        p, q = final.p, u.q
        base, conds = strip_override(u.value)
        want = ("cmp", "!=", *sorted([final.field(p, "label"), final.field(q, "label")], key=repr))
        ok = conds == [want]
        rep.ev("FORCE-override", u.event, ok,
               "" if ok else "in the final clustering the candidate of a neighbour with a different true label must be "
               f"replaced by -FLOAT_MAX, exactly under label(p) != label(q); found override condition(s) "
               f"{[show(c)[:100] for c in conds]}",
               construct="label forcing before " + u.event.text())
        acc = acceptance(final, u)
        rep.ev("FORCE-dominates", u.event, acc is not None and acc[1] == "h<v",
               "the overridden candidate must be the value tested (strictly) against H.cost[q] and passed to update",
               construct="acceptance after label forcing for " + u.event.text())
    # earlier (learning) clusterings are free not to force labels; nothing to check there
    try:
        from ..algebra import check_metric_premise
    except ImportError:
        check_metric_premise = None
    if check_metric_premise is not None:
        check_metric_premise(rep, repo, "PREMISE-")
    chk.undecided += [
        "supervised clause: tie-free data => own labels and predict(X_train) == Y_train (corollary of C01-C03)",
    ]
    chk.assumptions += ["initial costs are >= 0 > -FLOAT_MAX (C12 decides cost = density - 1 with density >= 1)"]
