"""C04: zero resubstitution error - the KNN clause and the metric premise."""

from ..common import competitions_of
from ..core import AnalysisError
from ..ir import show
from ..rules_ift import Rep, check_fmin_clustering, strip_override
from ..schema import acceptance

EXPLANATION = (
    "KNN clause, decided structurally: the LAST clustering reached from KNNSupervisedOPF.fit is entered with "
    "label forcing on (the constant True flows into the helper through inlining); there the candidate of a "
    "neighbour with a different true label is overridden by the policy's worst value (-FLOAT_MAX), the override "
    "is control-dependent on exactly label(p) != label(q), the overridden value is the one tested (strictly) "
    "and passed to H.update, roots take their own label and conquered nodes copy the conqueror's assigned "
    "label - hence by induction every assigned label equals the node's true label, ties included. Metric "
    "premise: every identifier the axiom table marks symmetric / non-negative / zero-self passes C08's "
    "zero-self-distance and definedness obligations. The supervised clause (tie-free => own labels) is a "
    "corollary of C01-C03 plus MST theory and is NOT decided separately."
)


SUP_RULES = ("SEED-", "IFT-domain", "IFT-extension", "IFT-pred", "IFT-order", "IFT-cost", "IFT-policy", "IFT-graph", "IFT-guard",
             "PRIM-guard",
             "IFT-update-sites", "PRIM-mark", "PRIM-key", "PRIM-domain", "PRIM-pred", "PRIM-policy", "PRIM-start",
             "SCAN-", "FIT-fresh", "PREMISE-INPLACE", "PREMISE-DECORATOR")


def check_supervised_premises(chk, rep, repo):
    """Supervised clause: not decided on its own, but every rule of C01-C03 that the tie-free corollary
    rests on is re-evaluated here as a premise (tie-only rules - strictness of the acceptance test, the
    source of the propagated label - are left to C01, because on tie-free data they cannot change a label)."""
    from ..core import Check
    from ..common import competitions_of
    from ..rules_ift import check_fmax_competition, check_prim, check_seeding
    from . import c03
    tmp = Check("C04")
    trep = Rep(tmp, repo)
    w, comps = competitions_of(repo, "SupervisedOPF", "fit", 2)
    check_prim(trep, "", comps[0])
    # the forest is grown over the caller's samples with the caller's labels and row identifiers (predicting "the
    # training set" means these very rows)
    from ..common import check_fresh_graph
    check_fresh_graph(trep, w, comps[0].loop.first_seq)
    check_seeding(trep, "", comps[-1], repo)
    check_fmax_competition(trep, "", comps[-1])
    deferred = None
    try:
        c03.check(tmp, repo)
    except AnalysisError as exc:  # a premise that cannot be analysed leaves the clause undecided (exit 2), it is not a finding
        deferred = exc
    n = 0
    for o in tmp.obligations:
        if o.rule.endswith("SCAN-orientation"):
            continue  # C04 quantifies over symmetric dissimilarities only: d(t, x) = d(x, t)
        if any(o.rule.startswith(p) or (":" in o.rule and o.rule.split(":", 1)[1].startswith(p)) for p in SUP_RULES):
            n += 1
            chk.ob("SUP:" + o.rule, o.function, o.construct, o.ok, o.detail, o.file, o.line)
    if deferred is not None:
        raise AnalysisError(f"premise C03 (supervised predict) could not be evaluated: {deferred}")
    chk.floor("premise obligations of the supervised clause (from C01-C03's rule sets)", n, 20)


def check_metric_purity(rep, repo):
    """The same pair of samples must get the same distance in the spanning-tree step, in the competition and
    in predict: no metric (or its decorator) may write through its arguments, which are views of the stored
    training features."""
    from ..effects import Effects
    from ..common import get_effects
    eff = get_effects(repo)
    fns = list(eff.registry_functions()) + [f for f in eff.funcs.values()
                                              if ".<locals>." in f.name and f.module == "opfython.utils.decorator"]
    n = 0
    for fi in fns:
        ws = eff.writes.get(fi.fq, {})
        n += 1
        if not ws:
            rep.fn("PURE-metric", fi, f"{fi.qual} does not write through its arguments", True)
        for p, hits in ws.items():
            for ev, how in hits:
                rep.ev("PURE-metric", ev, False, f"argument '{p}' of {fi.qual}: {how}; the stored training features drift "
                       "with every evaluation, so the three phases see different distances for the same pair")
    if n < 40:
        raise AnalysisError(f"only {n} metric functions found")


def check(chk, repo):
    chk.explanation = EXPLANATION
    rep = Rep(chk, repo)
    w, comps = competitions_of(repo, "KNNSupervisedOPF", "fit", 2)
    final = comps[-1]
    if not (final.fn.cls == "KNNSupervisedOPF" and final.fn.name.startswith("_")):  # _clustering or a phase helper of it
        raise AnalysisError(f"final competition of KNNSupervisedOPF.fit is in {final.fn.qual}")
    chk.note("final_clustering", f"{final.fn.qual}:{final.loop.line}")
    # it must be the last clustering: nothing re-clusters afterwards (by construction comps[-1])
    info = check_fmin_clustering(rep, "", final, "predicted_label")
    for u in final.updates:
        p, q = final.p, u.q
        base, conds = strip_override(u.value)
        want = ("cmp", "!=", *sorted([final.field(p, "label"), final.field(q, "label")], key=repr))
        ok = conds == [want] or (conds == [] and info.get("skip_conditions") == [want])
        rep.ev("FORCE-override", u.event, ok,
               "" if ok else "in the final clustering the candidate of a neighbour with a different true label must be "
               f"replaced by -FLOAT_MAX, exactly under label(p) != label(q); found override condition(s) "
               f"{[show(c)[:100] for c in conds]}",
               construct="label forcing before " + u.event.text())
        acc = acceptance(final, u)
        rep.ev("FORCE-dominates", u.event, acc is not None and acc[1] == "h<v",
               "the overridden candidate must be the value tested (strictly) against H.cost[q] and passed to update",
               construct="acceptance after label forcing for " + u.event.text())
    check_supervised_premises(chk, rep, repo)
    # ... on the rows the caller named: a node's id is I[i] (its position only when no index array was given)
    from .c10 import check_row_ids
    check_row_ids(chk, rep, repo, only={"Subgraph._build"}, floor=1)
    check_metric_purity(rep, repo)
    from ..rules_heap import check_heap
    check_heap(rep, repo, "HEAP-")
    # earlier (learning) clusterings are free not to force labels; nothing to check there
    try:
        from ..algebra import check_metric_premise
    except ImportError:
        check_metric_premise = None
    if check_metric_premise is not None:
        check_metric_premise(rep, repo, "PREMISE-")
    chk.undecided += [
        "supervised clause: tie-free data => own labels and predict(X_train) == Y_train is a corollary of C01-C03 plus "
        "MST theory; only its premises (the label-relevant rules of C01-C03, prefixed SUP:) are re-evaluated here",
    ]
    chk.assumptions += ["initial costs are >= 0 > -FLOAT_MAX (C12 decides cost = density - 1 with density >= 1)"]
