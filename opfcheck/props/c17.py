"""C17: learn conserves samples and keeps the best model; relevance marking; prune only discards."""

from ..common import graph_walk, model_walk, run_kinds
from ..core import AnalysisError
from ..effects import is_array_valued, is_basic_index
from ..ir import Event, mk_not, root_object, show, subterms
from ..kinds import count_of
from ..rules_ift import Rep
from ..rules_scan import find_best_scans, position_vars

EXPLANATION = (
    "SupervisedOPF.learn: (L1/L2) every store into the four caller arrays belongs to a two-target exchange "
    "statement whose right-hand elements are VALUES at evaluation time (explicit copy, array-index copy or a "
    "scalar element) - a basic-slice view of an array that an earlier target of the same statement overwrites is "
    "an aliasing hazard - whose targets and sources cross-match (A[a], B[b] = B[b], A[a]), and the feature "
    "exchange and the label exchange use the same (training row, validation row) pair; (L4) the random row and "
    "the error positions are scalars (int() of an array-returning call and iteration over an un-flattened "
    "np.argwhere are flagged); (L3) the best-so-far idiom keeps a deep-copy snapshot with the best accuracy "
    "(strict test, sentinel below the range) and that snapshot's state is installed into the object at exit "
    "(self.__dict__.update(...)); rebinding the name `self` is a no-op. SupervisedOPF.predict: (P1) the "
    "conqueror travels with the running minimum from the FIRST candidate on and mark_nodes is called with it "
    "for every sample. Subgraph.mark_nodes: (P2) marks the start node, every node on the predecessor chain and "
    "the terminal node. SupervisedOPF.prune: (P3) feature row and label are kept under the same relevance test "
    "with the same index, node j <-> row j of the arrays the model was last fitted on. 'Highest accuracy among "
    "the iterations' as a number and which samples ARE relevant are not decided."
)

ARRAYS = ("X_train", "Y_train", "X_val", "Y_val")


def strip_copy(t):
    """(inner, copied?) for x.copy() / np.copy(x) / np.array(x)."""
    if t[0] == "call" and t[1][0] == "attr" and t[1][2] == "copy" and not t[2]:
        return t[1][1], True
    if t[0] == "call" and t[1] == ("mod", "numpy.copy") and len(t[2]) == 1:
        return t[2][0], True
    if t[0] == "alloc" and t[1] in ("numpy.array", "copy.deepcopy", "copy.copy") and len(t[2]) == 1:
        return t[2][0], True
    return t, False


def array_of(t):
    r = root_object(t)
    return r[1] if r[0] == "param" and r[1] in ARRAYS else None


def is_view(t) -> bool:
    """A sub-array of a 2-D features array obtained by basic indexing (row or slice)."""
    if t[0] != "idx":
        return False
    ix = t[2]
    name = array_of(t)
    if name is None:
        return False
    has_slice = ix[0] == "slice" or (ix[0] == "tuple" and any(x[0] == "slice" for x in ix[1]))
    if ix[0] == "tuple" and any(is_array_valued(x) for x in ix[1]):
        return False
    if is_array_valued(ix):
        return False
    if has_slice:
        return True
    return name.startswith("X") and ix[0] != "tuple"  # X[j] is a row view; Y[j] a scalar


def row_index(t):
    """The row selector of A[r], A[r, :]."""
    ix = t[2]
    if ix[0] == "tuple":
        return ix[1][0]
    return ix


def check_learn(chk, rep, repo):
    w = model_walk(repo, "SupervisedOPF", "learn")
    fn = w.entry
    stores = [e for e in w.events if e.kind == "store" and array_of(e.target)]
    by_stmt = {}
    for e in stores:
        by_stmt.setdefault(id(e.stmt), []).append(e)
    # an exchange through temporaries: `t = A.copy(); A = B; B = t` is the two-sided statement `A, B = B, A.copy()` when
    # the temporary was taken before A was overwritten (the walker marks such a value as a snapshot)
    import dataclasses
    unold = lambda t: (t[1], True) if t[0] == "old" else (t, False)
    staged = []
    used = set()
    for a in stores:
        for b in stores:
            if a.seq < b.seq and id(a.stmt) != id(b.stmt) and a.seq not in used and b.seq not in used \
                    and a.guards == b.guards and a.loops == b.loops:
                vb0, snap = unold(b.value)
                vb, _ = strip_copy(vb0)
                if not snap:
                    # the second half hands over a local that was bound before the first half ran
                    import ast as _ast
                    src = b.stmt.value if isinstance(b.stmt, _ast.Assign) else None
                    if isinstance(src, _ast.Tuple) and (b.name or "").startswith("tuple"):
                        src = src.elts[int(b.name[5:].split("/")[0])]
                    if isinstance(src, _ast.Name):
                        binds = [e for e in w.events if e.kind == "bind" and e.name == src.id and e.seq < b.seq and e.fn is b.fn]
                        snap = bool(binds) and binds[-1].seq < a.seq
                if strip_copy(a.value)[0] == b.target and vb == a.target:
                    used |= {a.seq, b.seq}
                    staged.append((a, dataclasses.replace(b, value=vb0), snap))
    if staged and len(used) == len(stores):
        by_stmt = {k: [a, b] for k, (a, b, _) in enumerate(staged)}
        for a, b, snap in staged:
            rep.ev("L1-staged", b, snap,
                   "" if snap else f"'{show(b.value)[:60]}' is read after the first half of the exchange has overwritten it: "
                   "both cells end up with the same sample")
    pairs = {}
    for sid, evs in by_stmt.items():
        first = evs[0]
        ok_shape = len(evs) == 2 and (all((e.name or "").startswith("tuple") for e in evs) or bool(staged))
        rep.ev("L2-exchange", first, ok_shape,
               "the caller's arrays may only be modified by two-sided exchange statements" if not ok_shape else "")
        if not ok_shape:
            continue
        a, b = evs
        va, ca = strip_copy(a.value)
        vb, cb = strip_copy(b.value)
        cross = va == b.target and vb == a.target
        rep.ev("L2-cross", first, cross,
               "" if cross else "the two sides of the exchange do not name the same two cells "
               f"({show(a.target)[:50]}, {show(b.target)[:50]} = {show(va)[:50]}, {show(vb)[:50]})")
        # L1: the value that the SECOND target receives is read from the array the FIRST target overwrites
        for src, copied, earlier in ((vb, cb, a),):
            hazard = is_view(src) and not copied and array_of(src) == array_of(earlier.target)
            rep.ev("L1-view", first, not hazard,
                   "" if not hazard else f"'{show(src)[:60]}' is a view of {array_of(src)}, which the first target of the "
                   "same statement overwrites before the view is copied: the row is lost and the other duplicated")
        for src, copied in ((va, ca),):
            # the first value is consumed before anything is written; a view is fine there
            pass
        arrs = (array_of(a.target), array_of(b.target))
        pairs[arrs] = (row_index(a.target), row_index(b.target))
        kinds = {arrs[0][:1], arrs[1][:1]}
        rep.ev("L2-same-kind", first, len(kinds) == 1 and arrs[0] != arrs[1] and {arrs[0][2:], arrs[1][2:]} == {"train", "val"},
               f"an exchange must swap a training cell with a validation cell of the same kind; got {arrs}")
    xs = [v for k, v in pairs.items() if k[0].startswith("X")]
    ys = [v for k, v in pairs.items() if k[0].startswith("Y")]
    rep.fn("L2-both", fn, "features and labels are both exchanged", len(xs) == 1 and len(ys) == 1,
           f"{len(xs)} feature exchange(s), {len(ys)} label exchange(s)")
    if len(xs) == 1 and len(ys) == 1:
        kx = [k for k in pairs if k[0].startswith("X")][0]
        ky = [k for k in pairs if k[0].startswith("Y")][0]
        same = dict(zip(kx, xs[0]))
        samey = dict(zip(ky, ys[0]))
        ok = same.get("X_train") == samey.get("Y_train") and same.get("X_val") == samey.get("Y_val")
        rep.fn("L2-paired", fn, "the feature exchange and the label exchange use the same (train row, validation row)",
               ok, "labels are exchanged between different rows than the features")
        sx = [e for e in stores if array_of(e.target) == "X_train"][0]
        sy = [e for e in stores if array_of(e.target) == "Y_train"][0]
        rep.ev("L2-together", sy, sx.guards == sy.guards and sx.loops == sy.loops,
               "feature and label exchanges are not executed under the same conditions")
        # L4 scalars
        j = same.get("X_train")
        err = same.get("X_val")
        for name, t in (("training row", j), ("validation row", err)):
            bad = None
            r0 = root_object(t) if t is not None else None
            if t is not None and (t[0] in ("alloc", "list", "listcomp") or (t[0] == "phi") or
                                  (r0 is not None and r0[0] == "alloc" and r0[1] in ("list", "numpy.array", "numpy.asarray"))):
                if t[0] != "phi" or any(ev.kind == "call" and ev.name in ("append", "extend") and ev.target[1] == t
                                        for ev in w.events):
                    bad = ("a collection of rows is exchanged at once (fancy indexing): when a row occurs twice the "
                           "assignment is not a sequence of swaps - one sample is lost and another duplicated")
            for s in subterms(t):
                if s[0] == "call" and s[1] == ("builtin", "int") and len(s[2]) == 1:
                    inner = s[2][0]
                    if inner[0] == "call" and inner[1][0] == "mod" and "random" in inner[1][1]:
                        bad = f"int() of the array returned by {inner[1][1].rsplit('.', 1)[1]}()"
                if s[0] == "iter":
                    dom = s[1]
                    if dom[0] == "call" and dom[1] == ("mod", "numpy.argwhere"):
                        bad = "iteration over np.argwhere(...) yields one-element arrays, not scalars"
            rep.ev("L4-scalar", sx, bad is None, f"{name}: {bad}" if bad else "",
                   construct=f"{name} index of the exchange: {show(t)[:80]}")
    # L3 best model
    loops = [li for li in w.loops.values() if li.kind in ("while", "for") and not li.loops]
    scans = [bs for li in loops for bs in find_best_scans(w, li)]
    if not scans:
        # no running-best scan: if a deep snapshot of the classifier is nevertheless taken inside the loop, the test that
        # guards it is not "this iteration beats the best accuracy so far" - which is the violation
        from ..ir import facts
        is_snap = lambda v: v[0] == "alloc" and v[1] in ("copy.deepcopy", "copy.copy") and v[2] == (("self",),)
        snaps = [e for e in w.events if e.kind == "bind" and e.loops and e.value is not None
                 and (is_snap(e.value) or (e.value[0] == "tuple" and any(is_snap(x) for x in e.value[1])))]  # (or in a record)
        if snaps:
            e = snaps[0]
            own = [f for f in facts(e.guards) if f not in facts(w.loops[e.loops[0]].guards)]
            rep.ev("L3-strict", e, False,
                   f"the snapshot is taken under '{' and '.join(show(f)[:60] for f in own) or 'no test'}', not under a comparison of "
                   "this iteration's accuracy with the best accuracy seen so far: a later, worse model can replace the best one")
            return
    if len(scans) != 1:
        raise AnalysisError(f"SupervisedOPF.learn: expected one best-so-far scan, found {len(scans)}")
    bs = scans[0]
    li = bs.loop
    rep.fn("L3-strict", fn, f"if acc > {bs.best}", bs.relation in ("best<cand", "best<=cand"),
           f"relation is {bs.relation}", line=li.line)
    SELF_T, FOREST = ("self",), ("attr", ("self",), "subgraph")
    # what `fit` replaces on the object is its training graph alone: a deep copy of that graph, put back as a whole, keeps
    # exactly the state a deep copy of the classifier keeps
    wfit = model_walk(repo, "SupervisedOPF", "fit")
    fit_fields = {e.target[2] for e in wfit.events if e.kind == "store" and e.target[0] == "attr" and e.target[1] == SELF_T}
    whole = [SELF_T] + ([FOREST] if fit_fields <= {"subgraph"} else [])
    snap = {n: v for n, v in bs.companions.items() if v[1][0] == "alloc" and v[1][1] == "copy.deepcopy"
            and len(v[1][2]) == 1 and v[1][2][0] in whole}
    rep.fn("L3-snapshot", fn, "the improving branch takes a deep copy of the classifier", len(snap) == 1,
           f"companions: { {n: show(v[1])[:40] for n, v in bs.companions.items()} }", line=li.line)
    s = bs.init
    neg = s[0] == "const" and isinstance(s[1], (int, float)) and not isinstance(s[1], bool) and s[1] < 0
    rep.fn("L3-sentinel", fn, f"{bs.best} starts at {show(s)}", neg,
           "opf_accuracy ranges over [0, 1]: with a start value of 0 no snapshot exists when every iteration scores 0",
           line=li.line)
    acc = bs.cand
    okc = (acc[0] == "call" and acc[1] == ("mod", "opfython.math.general.opf_accuracy") and len(acc[2]) == 2
           and acc[2][0] == ("param", "Y_val") and acc[2][1][0] == "call"
           and acc[2][1][1] == ("attr", ("self",), "predict") and acc[2][1][2][:1] == (("param", "X_val"),))
    rep.fn("L3-criterion", fn, "criterion = opf_accuracy(Y_val, self.predict(X_val))", okc,
           f"criterion is '{show(acc)[:140]}'", line=li.line)
    fit_ev = [e for e in w.events if e.kind == "call" and e.name == "fit" and li.lid in e.loops]
    okfit = len(fit_ev) == 1 and fit_ev[0].args[:2] == (("param", "X_train"), ("param", "Y_train"))
    rep.fn("L3-refit", fn, "each iteration refits on the current training arrays", okfit, "self.fit(X_train, Y_train) expected")
    # the forest's nodes hold views of the training rows: the snapshot must be taken while they still hold the rows the
    # criterion was measured on, i.e. after this iteration's fit / criterion and before its exchange
    snap_ev = [e for e in w.events if e.kind == "bind" and li.lid in e.loops and e.value[0] == "alloc"
               and e.value[1] == "copy.deepcopy" and len(e.value[2]) == 1 and e.value[2][0] in whole]
    exch = [e for e in stores if li.lid in e.loops]
    for e in snap_ev:
        late = [x for x in exch if x.seq < e.seq]
        early = [x for x in fit_ev if x.seq > e.seq]
        rep.ev("L3-snapshot-fresh", e, not late and not early,
               "the deep copy is taken after this iteration's rows were exchanged (node features are views of X_train, so "
               "the copied forest holds features of former validation samples)" if late else
               "the deep copy is taken before this iteration's fit: it holds the previous iteration's forest")
    if len(snap) == 1:
        sname = next(iter(snap))
        of_forest = snap[sname][1][2][0] == FOREST
        inst = [e for e in w.events if e.kind == "call" and e.name == "update"
                and e.target == ("attr", ("attr", ("self",), "__dict__"), "update")]
        ok = False
        if of_forest:
            # the copied training graph is put back as the object's training graph
            inst = [e for e in w.events if e.kind == "store" and e.target == FOREST and li.lid in e.loops]
            ok = len(inst) == 1 and inst[0].value in (("phi", li.lid, sname), li.carried[sname][1]) and not inst[0].aug
        elif len(inst) == 1 and len(inst[0].args) == 1:
            a = inst[0].args[0]
            if a[0] == "attr" and a[2] == "__dict__":
                src = a[1]
                ok = src == ("phi", li.lid, sname) or src == li.carried[sname][1]
        brk = [e for e in w.events if e.kind == "break" and e.loops and e.loops[-1] == li.lid]  # exits of THIS loop
        before_exit = bool(inst) and bool(brk) and all(inst[0].seq < b.seq and inst[0].guards == b.guards for b in brk)
        rep.fn("L3-install", fn, "the best snapshot's state is installed into the object before learn returns",
               ok and (before_exit or inst and li.lid not in inst[0].loops),
               "the classifier left in the object is not the best one: no `self.__dict__.update(<snapshot>.__dict__)` "
               "on the exit path", line=li.line)
    rebinds = [e for e in w.events if e.kind == "bind" and e.name == "self"]
    for e in rebinds:
        rep.ev("L3-rebind", e, False, "assigning to the local name `self` does not change the object")


def check_predict_tracking(chk, rep, repo):
    w = model_walk(repo, "SupervisedOPF", "predict")
    fn = w.entry
    G = ("attr", ("self",), "subgraph")
    scans = [bs for li in w.loops.values() if li.kind in ("while", "for") and li.loops for bs in find_best_scans(w, li)]
    if len(scans) != 1:
        raise AnalysisError("SupervisedOPF.predict: best-so-far scan not found")
    bs = scans[0]
    li = bs.loop
    from ..rules_scan import ordered_scan
    view = ordered_scan(w, bs, [("attr", G, "n_nodes"), ("call", ("builtin", "len"), (("attr", G, "nodes"),), ()),
                               ("call", ("builtin", "len"), (("attr", G, "idx_nodes"),), ())],
                        orders=(("attr", G, "idx_nodes"),))
    if any(k == "position" for k, _ in view.problems):
        rep.fn("P1-position", fn, "scan position variable", False, dict(view.problems)["position"])
        return
    t0 = ("idx", ("attr", G, "idx_nodes"), ("const", 0))
    nxt = view.examined(("attr", G, "idx_nodes"))
    conq = {n: v for n, v in bs.companions.items() if v[1] == nxt}
    rep.fn("P1-companion", fn, "the conqueror is recorded in the improving branch (same node as the minimum)",
           len(conq) == 1, f"companions: { {n: show(v[1])[:50] for n, v in bs.companions.items()} }", line=li.line)
    if len(conq) != 1:
        return
    cname, (cinit, _) = next(iter(conq.items()))
    rep.fn("P1-init", fn, f"{cname} starts from the first candidate, like the running minimum and the label",
           cinit == t0 or (view.first == ("const", 0) and bs.init == ("K", "FLOAT_MAX") and cinit[0] in ("const", "K")),
           f"{cname} starts at '{show(cinit)}' while the minimum and the label start from idx_nodes[0]: a "
           "sample conquered by the first node of the conquest order marks nothing", line=li.line)
    after = ("phi", li.lid, cname)
    marks = [e for e in w.events if e.kind == "call" and e.name == "mark_nodes" and e.target == ("attr", G, "mark_nodes")]
    if len(marks) == 1 and marks[0].loops != li.loops and marks[0].loops and marks[0].loops[0] not in li.loops:
        dom = w.loops[marks[0].loops[-1]].domain
        from ..ir import root_object, subterms as _st
        if dom is not None and any(t[0] == "alloc" and str(t[1]).startswith("numpy.") for t in _st(dom)):
            raise AnalysisError("SupervisedOPF.predict: the conquerors are collected in an array and marked in a separate pass "
                                f"over '{show(dom)[:60]}'; which nodes that pass visits is a whole-array computation - this form "
                                "is outside the analysable fragment")
    ok = len(marks) == 1 and marks[0].args == (after,) and marks[0].loops == li.loops
    if ok:
        from ..ir import facts
        base = facts(w.loops[li.loops[-1]].guards) if li.loops else ()
        extra = [f for f in facts(marks[0].guards) if f not in base]
        defined = (("cmp", "<", ("const", -1), after), ("cmp", "<=", ("const", 0), after),
                   ("cmp", "!=", *sorted([("const", -1), after], key=repr)), ("cmp", "!=", ("const", -1), after),
                   ("cmp", "!=", *sorted([("K", "NIL"), after], key=repr)), ("cmp", "<", ("K", "NIL"), after))
        def in_range(f):
            """`conqueror < n_nodes` / `conqueror <= n_nodes - 1`: holds for every node position of the training graph."""
            from ..kinds import count_of
            from ..rules_heap import _sub, lin, lin_eq
            if f[0] == "cmp" and f[1] in ("<", "<=") and f[2] == after:
                for n in (("attr", G, "n_nodes"), ("call", ("builtin", "len"), (("attr", G, "nodes"),), ())):
                    if lin_eq(_sub(lin(f[3]), lin(n)), {} if f[1] == "<" else {1: -1}):
                        return True
            return False

        def seen_once(f):
            """`if c not in seen: seen.add(c); mark(c)` with `seen` a set created in this call: marking (which only sets
            flags, rule P2) is skipped exactly for conquerors it was already applied to."""
            if not (f[0] == "cmp" and f[1] == "not in" and f[2] == after and f[3][0] == "alloc"
                    and f[3][1] == "builtin.set" and not f[3][2]):
                return False
            S = f[3]
            made = [e for e in w.events if e.kind == "call" and e.value == S]
            uses = [e for e in w.events if e.kind == "call" and e.target is not None and e.target[0] == "attr" and e.target[1] == S]
            adds = [e for e in uses if e.name == "add" and e.args == (after,) and e.guards == marks[0].guards
                    and e.loops == marks[0].loops]
            return len(made) == 1 and not made[0].loops and len(adds) == 1 and len(uses) == 1
        ok = all(f in defined or in_range(f) or seen_once(f) for f in extra)
    rep.fn("P1-mark", fn, "mark_nodes(conqueror) is called once per predicted sample", ok,
           "relevance marking must be applied to the conqueror of every sample (only a definedness test may guard it)",
           line=li.line)


def check_mark_nodes(chk, rep, repo):
    from ..rules_premise import without_validation
    w = without_validation(graph_walk(repo, "Subgraph", "mark_nodes"))
    from ..ir import derived_phis, substitute_view
    w = substitute_view(w, derived_phis(w))  # `pred` carried next to `node` as node.pred
    fn = w.entry
    G = ("self",)
    ip = ("param", fn.params[1])
    loops = [li for li in w.loops.values() if li.kind == "while"]
    if not loops:
        # `for _ in range(n_nodes): ... break`: a path of the forest has at most n_nodes nodes, so the bound is never
        # what ends the walk - the loop is `while True` with the same breaks
        from ..kinds import count_of
        from ..ir import subterms as _st
        for li in w.loops.values():
            d = li.domain
            if li.kind == "for" and not li.loops and d is not None and d[0] == "call" and d[1] == ("builtin", "range") \
                    and len(d[2]) == 1 and not d[3] and count_of(d[2][0]) == ("self",):
                it = ("iter", d, li.lid)
                used = any(it in _st(x) for e in w.events for x in [e.target, e.value, *(e.args or ()), *[g for g, _ in e.guards]]
                           if x is not None)
                if not used:
                    loops.append(li)
    ok = False
    detail = "expected: while nodes[i].pred != NIL: mark i; i = nodes[i].pred; then mark the terminal node"
    if len(loops) == 1:
        li = loops[0]
        nodes = ("attr", G, "nodes")
        node = lambda t: ("idx", nodes, t)
        NIL = ("K", "NIL")
        head = None  # node term at the loop head, and how the walk advances
        step_ok = False
        walker = None
        for name, (init, end) in li.carried.items():
            ph = ("phi", li.lid, name)
            e2 = end[1] if end[0] == "old" else end
            if init == ip and e2 == ("attr", node(ph), "pred"):
                head, step_ok, walker = node(ph), True, name  # index walk: i = nodes[i].pred
            elif init == node(ip) and e2 == node(("attr", ph, "pred")):
                head, step_ok, walker = ph, True, name  # reference walk: node = nodes[node.pred]
        from ..ir import conj, facts, mk_not
        cont = ("cmp", "!=", *sorted([NIL, ("attr", head, "pred")], key=repr)) if head is not None else None
        conds = [] if li.kind == "for" or li.cond == ("const", True) else list(conj(li.cond))
        from ..ir import not_nil_forms
        if head is not None:
            # (`pred >= 0`, `pred > -1`, `pred != -1`: the same test for a value that is a node number or NIL)
            conds = [cont if c0 in not_nil_forms(("attr", head, "pred")) else c0 for c0 in conds]
        body_facts = tuple(facts(li.guards)) + tuple(conds)
        breaks = [e for e in w.events if e.kind == "break" and e.loops and e.loops[-1] == li.lid]
        # continuation is decided by `pred != NIL` only: as the loop test (exit before marking: the terminal node
        # is marked after the loop) and/or as a break placed after the mark and before the advance
        cond_ok = head is not None and conds in ([], [cont]) and (bool(conds) or bool(breaks))
        inside = [e for e in w.events if e.kind == "store" and li.lid in e.loops]
        _nn = not_nil_forms(("attr", head, "pred")) if head is not None else []
        _canon = lambda fs: tuple(cont if f in _nn else f for f in fs)
        in_ok = head is not None and len(inside) == 1 and inside[0].target == ("attr", head, "relevant") \
            and inside[0].value == ("K", "RELEVANT") and _canon(facts(inside[0].guards)) == _canon(body_facts)
        moves = [e for e in w.events if e.kind == "bind" and li.lid in e.loops and e.name == walker]
        if in_ok:
            # the flag must be written before the walk moves on
            in_ok = all(e.seq > inside[0].seq for e in moves)
        for bk in breaks:
            own = tuple(f for f in facts(bk.guards) if f not in body_facts)
            if own != (mk_not(cont),) if cont is not None else True:
                cond_ok = False
            elif not (in_ok and inside[0].seq < bk.seq and all(bk.seq < m.seq for m in moves)):
                cond_ok = False
        afterl = [e for e in w.events if e.kind == "store" and li.lid not in e.loops and e.seq > li.last_seq]
        mark_after = head is not None and len(afterl) == 1 and afterl[0].target == ("attr", head, "relevant") \
            and afterl[0].value == ("K", "RELEVANT") and not afterl[0].guards
        after_ok = mark_after if conds else (mark_after or not afterl)
        ok = cond_ok and step_ok and in_ok and after_ok
        others_skip = set()
        if not ok and head is not None and step_ok and conds == [cont] and not breaks:
            # the other phase of the same walk: mark the start node, then `while pred != NIL: move to pred; mark it`
            first_node = node(ip)
            before = [e for e in w.events if e.kind == "store" and not e.loops and e.seq < li.first_seq]
            nxt_node = li.carried[walker][1]
            nxt_node = nxt_node[1] if nxt_node[0] == "old" else nxt_node
            if nxt_node[0] != "idx":
                nxt_node = node(nxt_node)  # (index walk: the carried value is the index)
            pre_ok = len(before) == 1 and before[0].target == ("attr", first_node, "relevant") and before[0].value == ("K", "RELEVANT") \
                and not before[0].guards
            in2 = len(inside) == 1 and inside[0].target == ("attr", nxt_node, "relevant") and inside[0].value == ("K", "RELEVANT") \
                and tuple(facts(inside[0].guards)) == body_facts and all(m.seq < inside[0].seq for m in moves)
            if pre_ok and in2 and not afterl:
                ok = True
                others_skip = set(map(id, before))
        if cond_ok and step_ok and in_ok and not after_ok:
            detail = "the terminal node of the path (the prototype) is not marked"
        elif cond_ok and step_ok and not in_ok:
            detail = "nodes on the predecessor chain are not marked RELEVANT (before the walk advances)"
        elif not step_ok:
            detail = "the walk does not advance to the predecessor"
        others = [e for e in w.events if e.kind == "store" and e not in inside and e not in afterl
                  and id(e) not in others_skip]
        for e in others:
            rep.ev("P2-stray", e, False, "mark_nodes may only write relevance flags")
    rep.fn("P2-walk", fn, "mark_nodes marks the start node, its ancestors and the root", ok, detail)


def _resolve_gen(G, dom, lid, conds):
    """A comprehension generator over the nodes of G, possibly through a list of selected positions:
    (node-position term, conditions) or None."""
    from ..schema import rewrite
    nodes = ("attr", G, "nodes")
    if dom == ("call", ("builtin", "enumerate"), (nodes,), ()):
        return ("iterproj", dom, lid, (0,)), list(conds)
    if dom[0] == "call" and dom[1] == ("builtin", "range") and len(dom[2]) == 1 and not dom[3] and dom[2][0] in (
            ("attr", G, "n_nodes"), ("call", ("builtin", "len"), (nodes,), ())):
        return ("iter", dom, lid), list(conds)
    if dom[0] == "listcomp" and len(dom[2]) == 1:
        d2, l2, c2 = dom[2][0][:3]
        inner = _resolve_gen(G, d2, l2, c2)
        if inner is None or dom[1] != inner[0]:
            return None
        j, cs = inner
        me = ("iter", dom, lid)
        return j, cs + [rewrite(c, lambda t: j if t == me else None) for c in conds]
    return None


def _comprehension_filter(G, t):
    """np.asarray([A[j(, :)] for <nodes of G> if <cond>]) -> (A, canonical row, canonical conds)."""
    from ..schema import rewrite
    if not (t[0] == "call" and t[1] in (("mod", "numpy.asarray"), ("mod", "numpy.array")) and len(t[2]) == 1) \
            and not (t[0] == "alloc" and t[1] in ("numpy.array", "numpy.asarray") and len(t[2]) == 1):
        return None
    lc = t[2][0]
    if lc[0] != "listcomp" or len(lc[2]) != 1:
        return None
    dom, lid, conds = lc[2][0][:3]
    r = _resolve_gen(G, dom, lid, conds)
    if r is None:
        return None
    j, cs = r
    me = ("iter", dom, lid)
    J = ("free", "j")
    canon = lambda x: rewrite(x, lambda u: J if u in (j, me) else None)
    elem, _ = strip_copy(lc[1])
    if elem[0] != "idx":
        return None
    return elem[1], canon(row_index(elem)), tuple(canon(c) for c in cs)


def check_prune(chk, rep, repo):
    w = model_walk(repo, "SupervisedOPF", "prune")
    from ..common import require_scalar_fragment
    require_scalar_fragment(w, "SupervisedOPF.prune")
    fn = w.entry
    G = ("attr", ("self",), "subgraph")
    first = [e for e in w.events if e.kind == "call" and e.name == "predict" and not e.loops]
    rep.fn("P3-marks-first", fn, "a prediction pass over the validation set precedes the first pruning",
           len(first) == 1 and first[0].args[:1] == (("param", "X_val"),), "prune must predict X_val to obtain relevance flags")
    # comprehension form: X_train = np.asarray([X_train[j, :] for j ... if nodes[j] relevant])
    outers = [li for li in w.loops.values() if li.kind in ("for", "while") and not li.loops
              and "X_train" in li.carried and "Y_train" in li.carried]
    if len(outers) == 1:
        outer = outers[0]
        cx, cy = outer.carried["X_train"], outer.carried["Y_train"]
        fx, fy = _comprehension_filter(G, cx[1]), _comprehension_filter(G, cy[1])
        if fx is not None and fy is not None:
            J = ("free", "j")
            nj = ("idx", ("attr", G, "nodes"), J)
            guard = ("cmp", "!=", *sorted([("K", "IRRELEVANT"), ("attr", nj, "relevant")], key=repr))
            guard2 = ("cmp", "==", *sorted([("K", "RELEVANT"), ("attr", nj, "relevant")], key=repr))
            g_ok = fx[2] == fy[2] and fx[2] in ((guard,), (guard2,))
            rows = fx[1] == J and fy[1] == J and fx[0] == ("phi", outer.lid, "X_train") and fy[0] == ("phi", outer.lid, "Y_train")
            fits = [e for e in w.events if e.kind == "call" and e.name == "fit"]
            pre = [e for e in fits if outer.lid not in e.loops]
            inl = [e for e in fits if outer.lid in e.loops]
            ok_fit = (len(pre) == 1 and pre[0].args[:2] == (("param", "X_train"), ("param", "Y_train"))
                      and cx[0] == ("param", "X_train") and cy[0] == ("param", "Y_train")
                      and len(inl) == 1 and inl[0].args[:2] == (cx[1], cy[1]))
            detail = ""
            if not g_ok:
                detail = "rows are not kept under the node's relevance flag (or features and labels use different tests)"
            elif not rows:
                detail = "the row kept is not the row of the node tested (node j <-> row j)"
            elif not ok_fit:
                detail = "the arrays that are filtered are not the ones the model was last fitted on (node j <-> row j is lost)"
            rep.fn("P3-filter", fn, "prune keeps feature row j and label j iff node j is relevant", g_ok and rows and ok_fit, detail)
            return
    apps = [e for e in w.events if e.kind == "call" and e.name == "append" and e.target[1][0] == "alloc"]
    ok = False
    detail = "expected one X_temp.append(X_train[j, :]) and one Y_temp.append(Y_train[j]) under the relevance test"
    if len(apps) == 2 and apps[0].guards == apps[1].guards and apps[0].loops == apps[1].loops and apps[0].loops:
        li = w.loops[apps[0].loops[-1]]
        dom = li.domain
        zipped = None
        if dom is not None and dom[0] == "call" and dom[1] == ("builtin", "zip") and not dom[3] and ("attr", G, "nodes") in dom[2] \
                and not any(isinstance(x, tuple) and x and x[0] == "star" for x in dom[2]):
            # `for n, row, label in zip(nodes, X_train, Y_train)`: the elements met at position j (zip stops with the nodes;
            # the arrays hold one row per node - they are what the model was last fitted on, checked below)
            zipped = dom
        if dom == ("call", ("builtin", "enumerate"), (("attr", G, "nodes"),), ()) or zipped is not None:
            j = ("iterproj", dom, li.lid, (0,)) if zipped is None else ("iterproj", dom, li.lid, ("pos",))
            n = ("idx", ("attr", G, "nodes"), j)
            if zipped is not None:
                from ..schema import rewrite
                import dataclasses

                def unzip(u):
                    if u[0] == "iterproj" and u[1] == dom and u[2] == li.lid and len(u[3]) == 1 and isinstance(u[3][0], int):
                        return ("idx", dom[2][u[3][0]], j)
                    return None
                apps = [dataclasses.replace(e, args=tuple(rewrite(a, unzip) for a in e.args),
                                            guards=tuple((rewrite(g, unzip), pol) for g, pol in e.guards)) for e in apps]
            outer = w.loops[li.loops[-1]] if li.loops else None
            from ..ir import facts
            guard = ("cmp", "!=", *sorted([("K", "IRRELEVANT"), ("attr", n, "relevant")], key=repr))
            guard2 = ("cmp", "==", *sorted([("K", "RELEVANT"), ("attr", n, "relevant")], key=repr))
            own = facts(apps[0].guards)[len(facts(li.guards)):]
            g_ok = own in ((guard,), (guard2,))
            srcs = []
            for e in apps:
                a = e.args[0] if e.args else None
                a, _ = strip_copy(a) if a is not None else (None, False)
                srcs.append(a)
            rows_ok = False
            if all(s is not None and s[0] == "idx" for s in srcs):
                ax, ay = srcs
                rx, ry = row_index(ax), row_index(ay)
                bx, by = ax[1], ay[1]

                def is_arr(t, name):
                    return t == ("param", name) or (t[0] == "phi" and t[2] == name)

                rows_ok = rx == j and ry == j and is_arr(bx, "X_train") and is_arr(by, "Y_train")
                if rows_ok and outer is not None:
                    # the arrays filtered are the ones the model was last fitted on
                    fits = [e for e in w.events if e.kind == "call" and e.name == "fit"]
                    pre = [e for e in fits if outer.lid not in e.loops]
                    inl = [e for e in fits if outer.lid in e.loops]
                    cx, cy = outer.carried.get("X_train"), outer.carried.get("Y_train")
                    ok_fit = (len(pre) == 1 and pre[0].args[:2] == (("param", "X_train"), ("param", "Y_train"))
                              and cx is not None and cy is not None and cx[0] == ("param", "X_train")
                              and len(inl) == 1 and inl[0].args[:2] == (cx[1], cy[1]) and inl[0].seq > apps[1].seq)
                    # new arrays are built from the two lists
                    lx, ly = apps[0].target[1], apps[1].target[1]
                    built = cx[1] == ("call", ("mod", "numpy.asarray"), (lx,), ()) and cy[1] == ("call", ("mod", "numpy.asarray"), (ly,), ())
                    fresh = all(any(c.kind == "call" and c.value == l and outer.lid in c.loops for c in w.events) for l in (lx, ly))
                    rows_ok = ok_fit and built and fresh and lx != ly
                    if not ok_fit:
                        detail = "the arrays that are filtered are not the ones the model was last fitted on (node j <-> row j is lost)"
                    elif not fresh:
                        detail = "the kept-rows lists are not reset for every pruning iteration"
            ok = g_ok and rows_ok
            if not g_ok:
                detail = "rows are not kept under the node's relevance flag"
    rep.fn("P3-filter", fn, "prune keeps feature row j and label j iff node j is relevant", ok, detail)


def check(chk, repo):
    chk.explanation = EXPLANATION
    rep = Rep(chk, repo)
    check_learn(chk, rep, repo)
    check_predict_tracking(chk, rep, repo)
    check_mark_nodes(chk, rep, repo)
    check_prune(chk, rep, repo)
    from ..common import check_model_premises
    check_model_premises(rep, repo)
    chk.undecided += ["'highest accuracy among the iterations' as a numeric fact", "which samples are relevant (run-time)"]
    chk.assumptions += ["NumPy view/copy rules; X_* are 2-D feature arrays, Y_* 1-D label arrays (docstrings)"]
