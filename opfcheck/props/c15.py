"""C15: semi-supervised fit = prototypes from labelled nodes, append unlabeled, same competition."""

from ..common import competitions_of, run_kinds
from ..core import AnalysisError
from ..ir import facts, show
from ..rules_ift import Rep, check_fmax_competition, check_seeding
from ..schema import loop_signature

EXPLANATION = (
    "Statement-order and schema rules on SemiSupervisedOPF.fit (helpers inlined): the subgraph is built from "
    "the labelled arrays; the prototype search (SupervisedOPF's, checked by C02) runs BEFORE any unlabeled "
    "node exists; exactly one node is appended per row of X_unlabeled, in order, holding that row, after the "
    "prototype search and before the heap is sized from the node count; prototypes are seeded as in C01; the "
    "competition loop passes C01's f_max schema rules with exactly one listed extra statement in the accepted "
    "branch (label(q) = predicted_label(q)); and its canonical event signature (seeding loop + competition "
    "loop, site-independent) equals SupervisedOPF.fit's after removing that statement - so with no unlabeled "
    "rows the append loop is empty and the two functions are the same program, ties included. Optimality is "
    "the IFT theorem (not decided)."
)


def check(chk, repo):
    chk.explanation = EXPLANATION
    rep = Rep(chk, repo)
    from ..common import prototypes_searched
    if not prototypes_searched(rep, repo, "SemiSupervisedOPF"):
        return
    w, comps = competitions_of(repo, "SemiSupervisedOPF", "fit", 2)
    prim, comp = comps[0], comps[-1]
    fn = w.entry
    G = ("attr", ("self",), "subgraph")
    # 1. subgraph from the labelled arrays
    sg = [e for e in w.events if e.kind == "store" and e.target == G]
    ok = len(sg) == 1 and sg[0].value[0] == "new" and sg[0].value[1] == "Subgraph"
    args = {}
    if ok:
        t = sg[0].value
        names = ["X", "Y", "I"]
        for n, a in zip(names, t[2]):
            args[n] = a
        for k, v in t[3]:
            args[k] = v
        ok = args.get("X") == ("param", "X_train") and args.get("Y") == ("param", "Y_train")
    rep.fn("SEMI-labelled-graph", fn, "the training graph is built from the labelled features and labels", ok,
           "self.subgraph must be Subgraph(X_train, Y_train, ...)", line=sg[0].line if sg else 0)
    if sg:
        rep.ev("SEMI-graph-first", sg[0], sg[0].seq < prim.loop.first_seq, "the graph must exist before the prototype search")
    # 2. appends
    apps = [e for e in w.events if e.kind == "call" and e.name == "append"
            and e.target == ("attr", ("attr", G, "nodes"), "append")]
    rep.fn("SEMI-append-site", fn, "one append site for unlabeled nodes", len(apps) == 1, f"found {len(apps)}")
    heap_new = [e for e in w.events if e.kind == "call" and e.name == "__new__" and e.value == comp.heap]
    if len(apps) == 1 and heap_new:
        a = apps[0]
        rep.ev("SEMI-after-prototypes", a, a.seq > prim.loop.last_seq,
               "unlabeled nodes must be appended after the prototype search (prototypes come from labelled nodes only)")
        rep.ev("SEMI-before-heap", a, a.seq < heap_new[0].seq,
               "the heap must be sized after the unlabeled nodes were appended")
        node = a.args[0] if a.args else None
        okn = False
        detail = "each appended node must be Node(<id>, <label>, row) for each row of X_unlabeled in order"
        arms = []

        def collect(t):
            if t[0] == "sel":
                collect(t[2])
                collect(t[3])
            else:
                arms.append(t)

        if node is not None:
            collect(node)
        if arms and all(t[0] == "new" and t[1] == "Node" for t in arms) and a.loops:
            li = w.loops[a.loops[-1]]
            dom = li.domain
            okn = True
            for t in arms:
                feats = t[2][2] if len(t[2]) >= 3 else None
                for k, v in t[3]:
                    if k == "features":
                        feats = v
                if dom == ("call", ("builtin", "enumerate"), (("param", "X_unlabeled"),), ()):
                    okn = okn and feats in (("iterproj", dom, li.lid, (1,)),
                                            ("idx", ("param", "X_unlabeled"), ("iterproj", dom, li.lid, (0,))))
                elif dom[0] == "call" and dom[1] == ("builtin", "enumerate") and len(dom[2]) == 1 and not dom[3] \
                        and dom[2][0][0] == "call" and dom[2][0][1] == ("builtin", "zip") and dom[2][0][2][:1] == (("param", "X_unlabeled"),):
                    # enumerate(zip(X_unlabeled, <labels>)): the row is the first component
                    okn = okn and feats in (("iterproj", dom, li.lid, (1, 0)),
                                            ("idx", ("param", "X_unlabeled"), ("iterproj", dom, li.lid, (0,))))
                elif dom == ("param", "X_unlabeled"):
                    okn = okn and feats == ("iter", dom, li.lid)
                elif dom in (("call", ("builtin", "range"), (("call", ("builtin", "len"), (("param", "X_unlabeled"),), ()),), ()),
                             ("call", ("builtin", "range"), (("idx", ("attr", ("param", "X_unlabeled"), "shape"), ("const", 0)),), ())):
                    okn = okn and feats == ("idx", ("param", "X_unlabeled"), ("iter", dom, li.lid))
                else:
                    okn = False
            # validation of the arguments dominates the loop without being part of it; so does a test that the rows to
            # append exist at all (without rows the loop appends nothing either way)
            from ..ir import subterms
            from ..rules_premise import empty_input_test, validation_guard
            _raises = [e for e in w.events if e.kind == "raise"]
            own = [(g, pl) for g, pl in a.guards if not validation_guard(_raises, g, pl)
                   and not (empty_input_test(g, not pl) and ("param", "X_unlabeled") in subterms(g))]
            okn = okn and len(a.loops) == 1 and own == []
        rep.ev("SEMI-append-rows", a, okn, detail)
    # 3. seeding + competition
    check_seeding(rep, "", comp, repo)
    from ..common import check_model_premises
    check_model_premises(rep, repo)

    def extra(e, u):
        q = u.q
        # label(q) = predicted_label(q), or (chained assignment) the very value stored into predicted_label(q)
        same_branch = [x for x in comp.events if x.kind == "store" and x.target == comp.field(q, "predicted_label")
                       and facts(x.guards) == facts(u.event.guards) and x.loops == u.event.loops]
        vals = [comp.field(q, "predicted_label")] + [x.value for x in same_branch]
        val = e.value
        if val[0] == "old" and w.old_cause.get(val[2], {"?"}) <= {"store"} and val[1] == comp.field(comp.p, "predicted_label"):
            # `label_p = nodes[p].predicted_label` read before `nodes[q].predicted_label = label_p`: the only store in
            # between goes to node q, and q != p dominates the branch, so the copy is still node p's label
            from ..ir import has_guard, mk_cmp
            if has_guard(e.guards, mk_cmp("!=", comp.p, q)):
                val = val[1]
        return (e.target == comp.field(q, "label") and val in vals
                and facts(e.guards) == facts(u.event.guards) and e.loops == u.event.loops)

    check_fmax_competition(rep, "", comp, extra_store=extra)
    run_kinds(rep, w)
    # 4. sibling isomorphism with supervised fit
    ws, scomps = competitions_of(repo, "SupervisedOPF", "fit", 2)
    scomp = scomps[-1]

    from ..schema import competition_summary
    a, b = competition_summary(comp), competition_summary(scomp)
    extra_stores = (("self.subgraph.nodes[q].label", "self.subgraph.nodes[q].predicted_label"),
                    ("self.subgraph.nodes[q].label", "self.subgraph.nodes[p].predicted_label"))
    n_extra = 0
    for site in a["sites"]:
        n_extra += sum(1 for st in site["stores"] if st in extra_stores)
        site["stores"] = tuple(st for st in site["stores"] if st not in extra_stores)
    same = a == b and n_extra <= 1
    detail = ""
    if not same:
        diffs = [k for k in a if a[k] != b.get(k)]
        detail = ("semi-supervised seeding/competition makes different decisions than SupervisedOPF.fit beyond the "
                  f"one listed statement; differing parts: {diffs}: "
                  + "; ".join(f"{k}: {str(a[k])[:120]} vs {str(b.get(k))[:120]}" for k in diffs[:2]))
    rep.fn("SEMI-sibling", fn, "seeding + competition are equivalent to SupervisedOPF.fit up to one listed statement",
           same, detail, line=comp.loop.line)
    chk.note("sibling_summary_keys", sorted(a))
    # the unlabeled nodes must be identifiable rows of a pre-computed matrix (same rule as C10's K6)
    from .c10 import check_row_ids
    borrowed = [e for e in w.events if e.kind == "call" and e.name in ("extend", "append", "__iadd__")
                and e.target[0] == "attr" and e.target[1] == ("attr", G, "nodes") and e.args
                and e.args[0][0] == "attr" and e.args[0][2] == "nodes" and e.args[0][1][0] == "new"
                and e.args[0][1][1] in ("Subgraph", "KNNSubgraph")]
    for e in borrowed:
        rep.ev("K6", e, False,
               "the unlabeled nodes are taken from a separate Subgraph: without an index array their row ids restart at 0 "
               "and collide with the labelled nodes' ids (rows of a pre-computed matrix are then read for the wrong samples)")
    if borrowed:
        return
    # (the labelled nodes are built by Subgraph._build: the same rule there)
    check_row_ids(chk, rep, repo, only={"SemiSupervisedOPF.fit", "Subgraph._build"}, floor=2)
    chk.floor("competition loops reachable from SemiSupervisedOPF.fit", len(comps), 2)
    # every forest is grown through the priority queue: its structural rules are a premise here too
    from ..rules_heap import check_heap
    check_heap(rep, repo, "HEAP-")
    chk.undecided.append("optimality of the recorded costs (IFT theorem, as C01)")
    # premise: the weights that compete are the configured dissimilarity (flag, matrix and node pair of every selector)
    from .c10 import check_walk_selectors
    check_walk_selectors(rep, repo, 'model', 'SemiSupervisedOPF', 'fit', set(), pre="WEIGHT:")
