"""C01: supervised fit is a well-kinded instance of the f_max optimum-path (IFT) schema."""

from ..common import competitions_of, run_kinds
from ..rules_ift import Rep, check_fmax_competition, check_seeding

EXPLANATION = (
    "Static schema conformance: SupervisedOPF.fit (private helpers inlined) is parsed and normalised; "
    "its last competition loop must be an instance of the image-foresting-transform schema for the "
    "max-arc path cost over a min-priority queue: prototype seeding (cost 0, no predecessor, own label; "
    "others FLOAT_MAX and not queued), one unconditional conquest-order append and cost record per removal, "
    "neighbour loop over every node, candidate max(H.cost[p], w(p,q)), strict improvement test on the very "
    "value passed to H.update, predecessor and label copied from p to q in the accepted branch, no other "
    "store to forest fields, every guard on the relaxation inside the argued-benign family, and every index "
    "well-kinded (NodeIdx[train] vs RowId vs ordinal). Optimality itself is the schema's theorem (Falcao et "
    "al. 2004) and is not decided."
)


def check(chk, repo):
    chk.explanation = EXPLANATION
    rep = Rep(chk, repo)
    w, comps = competitions_of(repo, "SupervisedOPF", "fit", 2)
    chk.floor("competition loops reachable from SupervisedOPF.fit", len(comps), 2)
    comp = comps[-1]
    chk.note("competition_loop", f"{comp.fn.qual}:{comp.loop.line}")
    chk.note("inlined", sorted(set(w.inlined)))
    check_seeding(rep, "", comp, repo)
    from ..common import check_fresh_graph, check_model_premises
    check_model_premises(rep, repo)
    from ..common import check_learn_state_premise
    check_learn_state_premise(rep, repo)
    check_fresh_graph(rep, w, comps[0].loop.first_seq)
    check_fmax_competition(rep, "", comp)
    stats = run_kinds(rep, w)
    chk.note("kind_rule_instances", stats)
    from ..rules_flow import check_order_only
    check_order_only(rep, w, "FLOW-")
    from ..rules_heap import check_heap
    check_heap(rep, repo, "HEAP-")
    chk.undecided += [
        "that the recorded cost equals the minimum over all paths (IFT optimality theorem, trusted)",
        "priority-queue correctness over all histories (heap rules are necessary conditions only)",
    ]
    chk.assumptions += [
        "IFT theorem for smooth path-cost f_max (Falcao, Stolfi, Lotufo 2004)",
        "the analyser's normalisation (aliases, copy propagation, comparison canonicalisation) is faithful",
    ]
    # premise: the weights that compete are the configured dissimilarity (flag, matrix and node pair of every selector)
    from .c10 import check_walk_selectors
    check_walk_selectors(rep, repo, 'model', 'SupervisedOPF', 'fit', set(), pre="WEIGHT:")
    # ... and the node pair names the caller's rows: a node's id is I[i] (the row number only when no index array was given)
    from .c10 import check_row_ids
    check_row_ids(chk, rep, repo, only={"Subgraph._build"}, floor=1)
