"""C13: both `_clustering` loops are well-kinded instances of the f_min schema over a max-heap."""

from ..common import competitions_of, model_walk, run_kinds
from ..core import AnalysisError
from ..rules_ift import Rep, check_fmin_clustering, check_propagate_labels

EXPLANATION = (
    "Static schema conformance of KNNSupervisedOPF._clustering and UnsupervisedOPF._clustering (reached from "
    "their fit methods, helpers inlined): max-priority queue over all nodes seeded with H.cost = cost, "
    "pred = NIL, root = self; a node removed without predecessor is lifted to its density BEFORE its cost is "
    "recorded and takes its own label (KNN) / the next cluster id with the counter incremented once "
    "(unsupervised); neighbours = the removed node's adjacency through int(); colour guard != BLACK present; "
    "candidate min(H.cost[p], density(q)); strict acceptance v > H.cost[q] on the very value passed to "
    "H.update; pred, root and label/cluster copied from p in the accepted branch; no stray store to forest "
    "fields; n_clusters = the root counter; propagate_labels reads label(root(i)). Root dominance and "
    "'exactly one root' are the schema's theorem (Rocha et al. 2009), not decided."
)


def check(chk, repo):
    chk.explanation = EXPLANATION
    rep = Rep(chk, repo)
    n = 0
    for cls, field in (("KNNSupervisedOPF", "predicted_label"), ("UnsupervisedOPF", "cluster_label")):
        w, comps = competitions_of(repo, cls, "fit", 2)
        names = {c.fn.qual for c in comps}
        if not all(c.fn.cls == cls and c.fn.name.startswith("_") for c in comps):  # _clustering or a phase helper of it
            raise AnalysisError(f"{cls}.fit: competition loops found in {names}")
        for k, comp in enumerate(comps):
            n += 1
            # candidate evaluations during k selection may be skipped (early stop); the final clustering may not
            check_fmin_clustering(rep, f"{cls[:3]}{k}:" if k else "", comp, field, entry_check=(k == len(comps) - 1))
        run_kinds(rep, w)
        chk.note(f"{cls}.clustering_instances", len(comps))
    chk.floor("clustering loop instances reached from the two fit methods", n, 4)
    from ..common import check_fresh_graph, check_model_premises
    check_model_premises(rep, repo)
    for cls2 in ("KNNSupervisedOPF", "UnsupervisedOPF"):
        w2, comps2 = competitions_of(repo, cls2, "fit", 2)
        check_fresh_graph(rep, w2, comps2[0].loop.first_seq, cls2[:3] + ":")
    w = model_walk(repo, "UnsupervisedOPF", "propagate_labels")
    check_propagate_labels(rep, w)
    run_kinds(rep, w)
    # the forest lives on the k-NN graph of the selected k only: no arcs of an earlier build may survive
    from .c12 import check_typestate
    check_typestate(chk, rep, repo)
    from .c12 import check_destroy
    check_destroy(rep, repo)
    # premise: the clustering starts from cost = density - 1 for every sample (written by calculate_pdf next to the density)
    from .c03 import _Only
    from .c12 import check_pdf
    check_pdf(chk, _Only(rep, "START:", {"PDF-map", "PDF-map-sites"}), repo)
    from ..rules_heap import check_heap
    check_heap(rep, repo, "HEAP-")
    chk.undecided += [
        "'no sample's density exceeds its root's by 1 or more' and 'exactly one root per tree' (IFT theorem for f_min)",
        "the plateau symmetrisation block is only kind-checked (no clause of the statement depends on it)",
    ]
    chk.assumptions += ["IFT theorem for f_min over a max-queue (Rocha, Cappabianco, Falcao 2009)"]
