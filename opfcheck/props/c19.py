"""C19: a saved and re-loaded model behaves identically to the original (state / pickling rules)."""

import ast

from ..common import inline_private_model_helpers
from ..core import AnalysisError, unparse
from ..ir import Walker, root_object, show, subterms, write_summaries
from ..rules_ift import Rep

EXPLANATION = (
    "save: the object pickled is `self` itself (not a copy or a projection), written to the file opened from the "
    "given name in binary write mode, and save neither stores to nor calls a mutating method on the model (empty "
    "write set, receiver-sensitive; copies that SHARE the subgraph count as the model). load: the object read by "
    "pickle.load from the given file is not modified before its WHOLE __dict__ is installed with "
    "self.__dict__.update(...), and nothing else is stored on self afterwards. State: every attribute that methods "
    "of OPF and its subclasses, Subgraph, KNNSubgraph, Node write is an instance attribute (no class-level mutable "
    "attribute, no `cls.x =` / `type(self).x =` store), no class defines __slots__, __getstate__, __setstate__, "
    "__reduce__, __reduce_ex__, __copy__ or __deepcopy__, and nothing stores a lambda or a nested function on an "
    "instance. Registry: every DISTANCES value is picklable by reference - a module-level def whose decorator "
    "chain consists of njit and decorators whose returned closure carries functools.wraps(f) and is returned. "
    "(Checked once by hand at design time: five fitted models round-trip with identical predictions.)"
)

CLASSES = ("OPF", "SupervisedOPF", "SemiSupervisedOPF", "KNNSupervisedOPF", "UnsupervisedOPF", "Subgraph",
           "KNNSubgraph", "Node")
FORBIDDEN = ("__slots__", "__getstate__", "__setstate__", "__reduce__", "__reduce_ex__", "__copy__", "__deepcopy__",
             "__getnewargs__", "__getnewargs_ex__")


def shares_model(t) -> bool:
    """self, or a shallow copy of self (which shares the subgraph and every other field object)."""
    r = root_object(t)
    if r == ("self",):
        return True
    if r[0] == "alloc" and r[1] in ("copy.copy",) and r[2] == (("self",),):
        return True
    return False


def check_save(rep, repo):
    fi = repo.need_method("OPF", "save")
    w = Walker(repo, fi, self_class="OPF", inline=inline_private_model_helpers)
    dumps = [e for e in w.events if e.kind == "call" and e.name in ("pickle.dump", "pickle.dumps")]
    ok = len(dumps) == 1 and dumps[0].args[:1] == (("self",),)
    rep.fn("SAVE-self", fi, "save pickles the model object itself", ok,
           f"pickle.dump receives '{show(dumps[0].args[0]) if dumps and dumps[0].args else '?'}'")
    if dumps and len(dumps[0].args) > 1:
        f = dumps[0].args[1]
        opened = [s for s in subterms(f) if s[0] == "call" and s[1] == ("builtin", "open")]
        okf = len(opened) == 1 and opened[0][2][:1] == (("param", fi.params[1]),) and \
            (opened[0][2][1:2] == (("const", "wb"),) or dict(opened[0][3]).get("mode") == ("const", "wb"))
        rep.ev("SAVE-file", dumps[0], okf, "the pickle must be written to the named file opened with mode 'wb' "
               "(append or text mode leaves a stale or unreadable file)")
    elif dumps and dumps[0].name == "pickle.dumps":
        # pickle.dumps(self) handed to <file>.write(...): the same requirement on the file
        writes = [e for e in w.events if e.kind == "call" and e.name == "write" and e.args[:1] == (dumps[0].value,)]
        okf = False
        if len(writes) == 1 and writes[0].target is not None:
            opened = [s for s in subterms(writes[0].target) if s[0] == "call" and s[1] == ("builtin", "open")]
            okf = len(opened) == 1 and opened[0][2][:1] == (("param", fi.params[1]),) and \
                (opened[0][2][1:2] == (("const", "wb"),) or dict(opened[0][3]).get("mode") == ("const", "wb"))
        rep.ev("SAVE-file", dumps[0], okf, "the pickle must be written, once, to the named file opened with mode 'wb' "
               "(append or text mode leaves a stale or unreadable file)")
    ws = write_summaries(repo)
    def own_of_copy(t):
        """an attribute (or a `__dict__` entry) of a shallow copy itself: the copy has its own attribute table, so rebinding one
        of its attributes leaves the original alone (writing INTO an object both share would not)"""
        is_copy = lambda r: r[0] == "alloc" and r[1] == "copy.copy" and r[2] == (("self",),)
        if t[0] == "attr" and is_copy(t[1]):
            return True
        return t[0] == "idx" and t[1][0] == "attr" and t[1][2] == "__dict__" and is_copy(t[1][1])
    for e in w.events:
        if e.kind == "store" and shares_model(e.target) and not (own_of_copy(e.target) and not e.aug):
            rep.ev("SAVE-pure", e, False, "saving alters the model: store on the object being saved")
        if e.kind == "call" and e.target is not None and e.target[0] == "attr" and shares_model(e.target[1]):
            meth = e.target[2]
            if ws.get(meth):
                rep.ev("SAVE-pure", e, False,
                       f"saving alters the model: {meth}() writes {sorted(ws[meth])[:4]} on state shared with the original")
    # ... nor writes in place into an array / list the model holds, through any view (a diagnostic that masks the diagonal of
    # "its copy" made with np.asarray)
    from ..rules_premise import inplace_writes
    for e, r, how in inplace_writes(w, shares_model):
        if e.kind == "store" and own_of_copy(e.target):
            continue
        rep.ev("SAVE-pure", e, False, f"saving alters the model: {how} on '{show(r)[:60]}', which the object being saved holds")
    rep.fn("SAVE-pure-summary", fi, "save has an empty write set on the model", True)


FLAG_DOMAINS = {"status": {"STANDARD", "PROTOTYPE"}, "relevant": {"RELEVANT", "IRRELEVANT"}}


def _flag_identity(e) -> bool:
    """A two-valued flag field re-assigned to the constant it already equals: `x.f = A if x.f == A else B` with {A, B} the
    two values the field's setter accepts.  The stored value does not change."""
    from ..ir import facts
    t, v = e.target, e.value
    if e.aug or t[0] != "attr" or t[2] not in FLAG_DOMAINS or v is None:
        return False
    strip = lambda x: x[1] if x[0] == "old" else x
    dom = FLAG_DOMAINS[t[2]]

    def holds(k, fs):  # do the tests say the field equals constant k?
        for c in fs:
            if c[0] != "cmp" or c[1] not in ("==", "!="):
                continue
            sides = [strip(c[2]), strip(c[3])]
            if t not in sides:
                continue
            other = sides[1] if sides[0] == t else sides[0]
            if other[0] != "K" or other[1] not in dom:
                continue
            if (c[1] == "==" and other[1] == k) or (c[1] == "!=" and {other[1], k} == dom):
                return True
        return False
    if v[0] == "K" and v[1] in dom:
        return holds(v[1], facts(e.guards))
    if v[0] == "sel" and v[2][0] == "K" and v[3][0] == "K" and {v[2][1], v[3][1]} == dom:
        from ..ir import mk_not
        return holds(v[2][1], [v[1]]) and holds(v[3][1], [mk_not(v[1])])
    return False


def check_load(rep, repo):
    fi = repo.need_method("OPF", "load")
    w = Walker(repo, fi, self_class="OPF", inline=inline_private_model_helpers)
    loads = [e for e in w.events if e.kind == "call" and e.name == "pickle.load"]
    ok = len(loads) == 1
    rep.fn("LOAD-read", fi, "load reads one pickled object", ok, f"{len(loads)} pickle.load call(s)")
    if not ok:
        return
    obj = loads[0].value
    f = loads[0].args[0] if loads[0].args else None
    opened = [s for s in subterms(f)] if f is not None else []
    opened = [s for s in opened if s[0] == "call" and s[1] == ("builtin", "open")]
    okf = len(opened) == 1 and opened[0][2][:1] == (("param", fi.params[1]),) and \
        (opened[0][2][1:2] == (("const", "rb"),) or dict(opened[0][3]).get("mode") == ("const", "rb"))
    rep.ev("LOAD-file", loads[0], okf, "the pickle must be read from the named file opened with mode 'rb'")
    inst = [e for e in w.events if e.kind == "call" and e.name == "update"
            and e.target == ("attr", ("attr", ("self",), "__dict__"), "update")]
    oki = len(inst) == 1 and inst[0].args == (("attr", obj, "__dict__"),) and not inst[0].kwargs and not inst[0].guards
    rep.fn("LOAD-install", fi, "the whole __dict__ of the loaded object is installed into self", oki,
           f"installation: {[e.text()[:100] for e in inst]}")
    ws = write_summaries(repo)
    for e in w.events:
        if e.kind == "call" and e.target is not None and e.target[0] == "attr" and e.target[2] in (
                "pop", "popitem", "clear", "setdefault", "__delitem__", "__setitem__") and inst and e.seq < inst[0].seq:
            r = root_object(e.target[1])
            if r == obj or (r[0] == "old" and r[1] == obj):
                rep.ev("LOAD-untouched", e, False,
                       f".{e.target[2]}() on the loaded state before it is installed: an entry of the pickled model never reaches self")
        if e.kind == "store":
            r = root_object(e.target)
            if r == obj or (r[0] == "old" and r[1] == obj):
                rep.ev("LOAD-untouched", e, False, "the loaded object is modified before its state is installed")
            elif r == ("self",):
                if _flag_identity(e):
                    continue  # `n.status = PROTOTYPE if n.status == PROTOTYPE else STANDARD`: the value the field holds
                rep.ev("LOAD-only-install", e, False, "load stores something other than the loaded state on self")
        if e.kind == "call" and e.target is not None and e.target[0] == "attr" and root_object(e.target[1]) == obj \
                and ws.get(e.target[2]):
            rep.ev("LOAD-untouched", e, False, f"the loaded object is modified by {e.target[2]}() before installation")


def _shadowed_default(repo, ci, node, name) -> bool:
    """`_flag: bool = False` in the class body is harmless when the value is immutable and __init__ assigns the instance
    attribute of that name on every path (directly or through the property setter that stores it): the instance
    __dict__, which is what pickle saves, always holds it."""
    val = node.value if isinstance(node, (ast.Assign, ast.AnnAssign)) else None
    if val is None or not isinstance(val, ast.Constant):
        return False
    init = ci.methods.get("__init__")
    if init is None:
        return False
    w = Walker(repo, init, self_class=ci.name, inline=lambda f: f.cls == ci.name and f.name.startswith("_")
               and not f.name.startswith("__"))
    names = {name, name.lstrip("_")}
    setter = ci.setters.get(name.lstrip("_"))
    if name.startswith("_") and setter is not None:
        # the public property's setter must store the private attribute unconditionally (or raise)
        ws = Walker(repo, setter, self_class=ci.name, inline=lambda f: False)
        raises = [e for e in ws.events if e.kind == "raise"]
        st = [e for e in ws.events if e.kind == "store" and e.target == ("attr", ("self",), name)]
        if not st or not all(all(any((g, not pol) in r.guards for r in raises) for g, pol in e.guards) for e in st[-1:]):
            names.discard(name.lstrip("_"))
    else:
        names.discard(name.lstrip("_")) if name.startswith("_") else None
    raises = [e for e in w.events if e.kind == "raise"]
    for e in w.events:
        if e.kind == "store" and e.target[0] == "attr" and e.target[1] == ("self",) and e.target[2] in names and not e.loops \
                and all(any((g, not pol) in r.guards for r in raises) for g, pol in e.guards):
            return True
    return False


def _adopting_setstate(repo, ci, fi) -> bool:
    """`__setstate__(self, state)` that is the default: `self.__dict__.update(state)` once, unconditionally (argument
    validation and logging apart), and no other write - except clips at the float limit (`if x > FLOAT_MAX: x = FLOAT_MAX`),
    which leave every finite value as it is."""
    from ..ir import Walker, is_log_call, root_object
    from ..rules_premise import without_validation
    w = without_validation(Walker(repo, fi, self_class=ci.name, inline=lambda f: f.cls == ci.name and f.name.startswith("_")
                                  and not f.name.startswith("__")))
    if len(fi.params) != 2:
        return False
    state = ("param", fi.params[1])
    adopt = [e for e in w.events if e.kind == "call" and e.name == "update"
             and e.target == ("attr", ("attr", ("self",), "__dict__"), "update")]
    if len(adopt) != 1 or adopt[0].args != (state,) or adopt[0].kwargs or adopt[0].guards or adopt[0].loops:
        return False
    FM = ("K", "FLOAT_MAX")
    for e in w.events:
        if e.kind == "store":
            clip = e.value == FM and not e.aug and (("cmp", "<", FM, e.target), True) in e.guards
            if not clip:
                return False
        elif e.kind == "call" and e is not adopt[0] and not is_log_call(e):
            recv = e.target[1] if e.target is not None and e.target[0] == "attr" else None
            if recv is not None and root_object(recv) in (("self",), state) and (e.name in CONTAINER_WRITERS or e.name == "update"):
                return False
        elif e.kind in ("opaque",):
            return False
    return True


CONTAINER_WRITERS = {"append", "insert", "extend", "pop", "remove", "clear", "sort", "reverse", "fill", "put", "resize",
                     "setdefault", "popitem", "__setitem__", "__delitem__"}


def _class_level_constant(repo, ci, node, name) -> bool:
    """UPPER_CASE = <literal / tuple of literals / library constant>, stored nowhere else: a constant, not state."""
    from ..ir import class_constant
    if not name.replace("_", "").isupper():
        return False
    hit = class_constant(repo, ci.name, name)
    if hit is None:
        # an immutable snapshot built once at class creation (`NAMES = tuple(<registry>)`), assigned nowhere else
        v = node.value if isinstance(node, ast.Assign) else None
        frozen = isinstance(v, ast.Call) and isinstance(v.func, ast.Name) and v.func.id in ("tuple", "frozenset") and not v.keywords
        stored = [x for m2 in repo.modules.values() for x in ast.walk(m2.tree) if isinstance(x, ast.Attribute)
                  and x.attr == name and isinstance(x.ctx, (ast.Store, ast.Del))]
        return bool(frozen) and not stored
    v = hit[1]
    if isinstance(v, ast.Dict):
        return True  # a dispatch table that nothing writes (class_constant checked that)
    immutable = lambda n: isinstance(n, (ast.Constant, ast.Attribute, ast.Name)) or (
        isinstance(n, ast.UnaryOp) and immutable(n.operand)) or (isinstance(n, ast.Tuple) and all(immutable(x) for x in n.elts))
    return immutable(v)


def _slots_protocol(repo, ci):
    """The flat-storage protocol: `__slots__ = S` (a tuple of field names), `__getstate__` returns the fields named by S in
    that order (`attrgetter(*S)(self)` or a tuple of `getattr(self, n)` over S) and `__setstate__` assigns them back in the
    same order (`for n, v in zip(S, state): setattr(self, n, v)`, a dictionary state being read through S first).
    Returns None when the class does not use it, (True, "") when it does and every field the class stores is in S, and
    (False, reason) when the pieces disagree - the record written is then not the record read back."""
    mi = repo.modules[ci.module]

    def names_of(v):
        """tuple of strings a module-level / literal expression denotes, else None"""
        if isinstance(v, ast.Name):
            b = [x for x in mi.tree.body if isinstance(x, ast.Assign) and any(isinstance(t, ast.Name) and t.id == v.id for t in x.targets)]
            if len(b) != 1:
                return None
            v = b[0].value
        if isinstance(v, (ast.Tuple, ast.List)) and all(isinstance(x, ast.Constant) and isinstance(x.value, str) for x in v.elts):
            return tuple(x.value for x in v.elts)
        return None
    slots = [x for x in ci.node.body if isinstance(x, ast.Assign) and any(isinstance(t, ast.Name) and t.id == "__slots__" for t in x.targets)]
    gs, ss = ci.methods.get("__getstate__"), ci.methods.get("__setstate__")
    if len(slots) != 1 or gs is None or ss is None:
        return None
    S = names_of(slots[0].value)
    if S is None or len(set(S)) != len(S):
        return None
    body = lambda f: [x for x in f.node.body if not (isinstance(x, ast.Expr) and isinstance(x.value, ast.Constant))]
    # __getstate__
    gb = body(gs)
    if len(gb) != 1 or not isinstance(gb[0], ast.Return) or gb[0].value is None:
        return None
    rv = gb[0].value
    got = None
    if isinstance(rv, ast.Call) and isinstance(rv.func, ast.Name) and len(rv.args) == 1 and unparse(rv.args[0]) == "self" and not rv.keywords:
        b = [x for x in mi.tree.body if isinstance(x, ast.Assign) and any(isinstance(t, ast.Name) and t.id == rv.func.id for t in x.targets)]
        if len(b) == 1 and isinstance(b[0].value, ast.Call) and unparse(b[0].value.func) in ("attrgetter", "operator.attrgetter") \
                and not b[0].value.keywords:
            a = b[0].value.args
            if len(a) == 1 and isinstance(a[0], ast.Starred):
                got = names_of(a[0].value)
            elif all(isinstance(x, ast.Constant) and isinstance(x.value, str) for x in a):
                got = tuple(x.value for x in a)
    elif isinstance(rv, ast.Call) and isinstance(rv.func, ast.Name) and rv.func.id == "tuple" and len(rv.args) == 1 \
            and isinstance(rv.args[0], (ast.GeneratorExp, ast.ListComp)) and len(rv.args[0].generators) == 1:
        g = rv.args[0].generators[0]
        if not g.ifs and isinstance(g.target, ast.Name) and unparse(rv.args[0].elt) == f"getattr(self, {g.target.id})":
            got = names_of(g.iter)
    if got is None:
        return None
    # __setstate__
    sb = body(ss)
    sparam = ss.params[1] if len(ss.params) == 2 else None
    if sparam is None or not sb:
        return None
    if isinstance(sb[0], ast.If) and len(sb) == 2 and not sb[0].orelse and unparse(sb[0].test) == f"isinstance({sparam}, dict)":
        conv = [x for x in sb[0].body if not (isinstance(x, ast.Expr) and isinstance(x.value, ast.Constant))]
        okc = len(conv) == 1 and isinstance(conv[0], ast.Assign) and unparse(conv[0].targets[0]) == sparam \
            and isinstance(conv[0].value, (ast.ListComp, ast.GeneratorExp)) and len(conv[0].value.generators) == 1 \
            and names_of(conv[0].value.generators[0].iter) == S and not conv[0].value.generators[0].ifs \
            and unparse(conv[0].value.elt) == f"{sparam}[{unparse(conv[0].value.generators[0].target)}]"
        if not okc:
            return None
        sb = sb[1:]
    if len(sb) != 1 or not isinstance(sb[0], ast.For) or sb[0].orelse:
        return None
    lp = sb[0]
    it = lp.iter
    if not (isinstance(it, ast.Call) and unparse(it.func) == "zip" and len(it.args) == 2 and unparse(it.args[1]) == sparam
            and isinstance(lp.target, ast.Tuple) and len(lp.target.elts) == 2 and all(isinstance(x, ast.Name) for x in lp.target.elts)):
        return None
    put = names_of(it.args[0])
    lb = [x for x in lp.body if not (isinstance(x, ast.Expr) and isinstance(x.value, ast.Constant))]
    a, b = lp.target.elts[0].id, lp.target.elts[1].id
    if put is None or len(lb) != 1 or unparse(lb[0]) not in (f"setattr(self, {a}, {b})", f"object.__setattr__(self, {a}, {b})"):
        return None
    stored = {n.attr for f in list(ci.methods.values()) + list(ci.setters.values()) for n in ast.walk(f.node)
              if isinstance(n, ast.Attribute) and isinstance(n.ctx, ast.Store) and unparse(n.value) == "self"}
    # (a property setter stores under the private name, which is the slot)
    stored = {n for n in stored if n not in ci.setters}
    if got != S:
        return False, f"__getstate__ reads {list(got)} while __slots__ / __setstate__ use {list(S)}: fields come back exchanged or missing"
    if put != S:
        return False, f"__setstate__ assigns {list(put)} from a state written in the order {list(S)}"
    if not stored <= set(S):
        return False, f"fields {sorted(stored - set(S))} are stored on the object but are not slots"
    return True, ""


def check_state(rep, repo):
    n = 0
    for cname in CLASSES:
        ci = repo.find_class(cname)
        proto = _slots_protocol(repo, ci)
        if proto is not None:
            rep.chk.ob("STATE-slots", cname, "__slots__ / __getstate__ / __setstate__", proto[0],
                       proto[1] or "flat storage: the fields written are the fields read back, in the same order",
                       file=repo.modules[ci.module].relpath, line=ci.node.lineno)
        for node in ci.node.body:
            if isinstance(node, (ast.Assign, ast.AnnAssign, ast.AugAssign)):
                tgts = node.targets if isinstance(node, ast.Assign) else [node.target]
                for t in tgts:
                    name = unparse(t)
                    if name == "__slots__" and proto is not None:
                        continue
                    if name in FORBIDDEN:
                        rep.chk.ob("STATE-filter", cname, unparse(node)[:80], False,
                                   f"{name} changes what pickle stores / restores", file=repo.modules[ci.module].relpath,
                                   line=node.lineno)
                    elif _class_level_constant(repo, ci, node, name):
                        rep.chk.ob("STATE-class-attr", cname, unparse(node)[:80], True,
                                   "an immutable class-level constant that is never assigned on instances: not state")
                    elif _shadowed_default(repo, ci, node, name):
                        rep.chk.ob("STATE-class-attr", cname, unparse(node)[:80], True,
                                   "an immutable class-level default that every constructed instance overrides with its own attribute")
                    else:
                        rep.chk.ob("STATE-class-attr", cname, unparse(node)[:80], False,
                                   "class-level attribute: state shared by all instances is not saved with the model",
                                   file=repo.modules[ci.module].relpath, line=node.lineno)
        allf = list(ci.methods.values()) + list(ci.getters.values()) + list(ci.setters.values())
        for fi in allf:
            n += 1
            if fi.name == "__setstate__" and _adopting_setstate(repo, ci, fi):
                rep.fn("STATE-filter", fi, f"{cname}.__setstate__ adopts the pickled dictionary as it is", True)
            elif fi.name in ("__getstate__", "__setstate__") and proto is not None:
                pass  # decided by STATE-slots
            elif fi.name in FORBIDDEN:
                rep.fn("STATE-filter", fi, f"{cname} defines {fi.name}", False,
                       f"{fi.name} changes what pickle stores / restores")
            for node in ast.walk(fi.node):
                if isinstance(node, (ast.Assign, ast.AugAssign)):
                    tgts = node.targets if isinstance(node, ast.Assign) else [node.target]
                    for t in tgts:
                        base = t
                        while isinstance(base, (ast.Subscript,)):
                            base = base.value
                        if isinstance(base, ast.Attribute):
                            recv = unparse(base.value)
                            if recv in CLASSES or recv in ("cls", "type(self)", "self.__class__"):
                                rep.fn("STATE-class-store", fi, unparse(node)[:80], False,
                                       "run-time store to a class attribute (not part of the pickled instance state)",
                                       line=node.lineno)
                        if isinstance(t, ast.Attribute) and unparse(t.value) == "self":
                            v = node.value if isinstance(node, ast.Assign) else None
                            if isinstance(v, ast.Lambda):
                                rep.fn("STATE-unpicklable", fi, unparse(node)[:80], False,
                                       "a lambda stored on an instance cannot be pickled", line=node.lineno)
                            if isinstance(v, ast.Name) and any(isinstance(x, ast.FunctionDef) and x.name == v.id
                                                               for x in ast.walk(fi.node) if x is not fi.node):
                                rep.fn("STATE-unpicklable", fi, unparse(node)[:80], False,
                                       "a nested function stored on an instance cannot be pickled", line=node.lineno)
                if isinstance(node, (ast.Global, ast.Nonlocal)):
                    rep.fn("STATE-global", fi, unparse(node), False, "model state kept outside the instance", line=node.lineno)
    rep.fn("STATE-summary", repo.need_method("OPF", "save"),
           f"{n} methods of {len(CLASSES)} classes keep all state in instance attributes", True)
    return n


def check_registry_picklable(rep, repo):
    dist = repo.module("opfython.math.distance")
    dec_mod = repo.module("opfython.utils.decorator")
    from ..algebra import MetricTranslator
    reg = MetricTranslator(repo).registry()
    n = 0
    # decorators defined in the repository: closure must be @wraps(f) and returned
    wraps_ok = {}
    for name, fi in dec_mod.functions.items():
        inner = [x for x in fi.node.body if isinstance(x, ast.FunctionDef)]
        ok = False
        if len(inner) == 1 and fi.params:
            decs = [unparse(d) for d in inner[0].decorator_list]
            param = fi.params[0]
            has_wraps = any(d in (f"wraps({param})", f"functools.wraps({param})") for d in decs)
            rets = [x for x in fi.node.body if isinstance(x, ast.Return)]
            ok = has_wraps and len(rets) == 1 and isinstance(rets[0].value, ast.Name) and rets[0].value.id == inner[0].name
        wraps_ok[name] = ok
    for key, val in sorted(reg.items()):
        fi = dist.functions.get(val)
        if fi is None:
            rep.fn("PICKLE-def", repo.need_method("OPF", "save"), f"DISTANCES[{key!r}] = {val}", False,
                   "registry value is not a module-level function of distance.py (cannot be pickled by reference)")
            continue
        n += 1
        bad = []
        for d in fi.decorators:
            head = d.split("(")[0]
            last = head.split(".")[-1]
            if last in ("njit", "jit"):
                continue
            if last in wraps_ok:
                if not wraps_ok[last]:
                    bad.append(f"{last} does not preserve the wrapped function's identity (functools.wraps missing or "
                               "the closure is not what is returned)")
                continue
            bad.append(f"unknown decorator {d}")
        rep.fn("PICKLE-by-reference", fi, f"{val} is picklable by reference through its decorators", not bad, "; ".join(bad))
    return n


def check(chk, repo):
    chk.explanation = EXPLANATION
    rep = Rep(chk, repo)
    check_save(rep, repo)
    check_load(rep, repo)
    n = check_state(rep, repo)
    chk.floor("methods scanned for non-instance state", n, 100)
    m = check_registry_picklable(rep, repo)
    from ..common import check_model_premises
    check_model_premises(rep, repo, purity=False)
    chk.floor("registry values checked for pickling by reference", m, 40)
    chk.undecided.append("equality of predictions of the loaded object as a run-time fact (follows from whole-state installation)")
    chk.assumptions += ["pickle stores instance __dict__ recursively and functions by qualified name",
                        "functools.wraps copies __module__/__qualname__ so that lookup by name finds the wrapper"]
