"""C14: KNN / unsupervised prediction = exhaustive k-nearest scan + density + arg-max of min(cost, density)."""

from ..common import model_walk, run_kinds
from ..core import AnalysisError
from ..ir import has_guard, show
from ..kinds import count_of
from ..rules_ift import Rep
from ..rules_knn import K, check_knn_scan, find_knn_scans
from ..rules_scan import find_best_scans
from ..termalg import TermAlgebra

EXPLANATION = (
    "For KNNSupervisedOPF.predict and UnsupervisedOPF.predict: the k-nearest insertion scan is extracted by "
    "shape and must (a) range over every training node with NO guard on the training index (every training "
    "sample is a candidate for every query), (b) write distance and index to the same slot k of two k+1 "
    "buffers, (c) bubble both buffers with the same swaps under cur > 0 and d[cur] < d[cur-1], (d) reset the "
    "distance buffer for every query and read the index buffer only under d[slot] != FLOAT_MAX; the query "
    "density must equal (sympy normal form) (MAX_DENSITY-1)*(sum_{r<k} exp(-d_r/constant)/k - min)/(max - min "
    "+ EPSILON) + 1 with constant/min/max READ from the stored model fields; the answer must be the arg-max "
    "over ranks r<k of min(cost(neighbour_r), density) starting from -FLOAT_MAX, with label (and cluster) "
    "copied from that same neighbour in the accepted branch and results listed in query order. That the "
    "scan yields the k nearest follows from its loop invariant, which is trusted, not proved."
)


def _break_at_first_empty(w, li, valid_forms) -> bool:
    """The rank loop is left at the first empty slot, before anything else is done with the rank."""
    from ..ir import facts, mk_not
    brk = [e for e in w.events if e.kind == "break" and e.loops and e.loops[-1] == li.lid]
    if len(brk) != 1:
        return False
    own = [f for f in facts(brk[0].guards) if f not in facts(li.guards)]
    if len(own) != 1 or mk_not(own[0]) not in valid_forms:
        return False
    first = [e for e in w.events if li.lid in e.loops and e.kind in ("store", "call") and e.name not in ("builtin.range", "<inline>")]
    return all(e.seq > brk[0].seq for e in first if e.kind == "store")


def check_predict(chk, rep, repo, cls, fields):
    w = model_walk(repo, cls, "predict")
    fn = w.entry
    G = ("attr", ("self",), "subgraph")
    from ..common import require_scalar_fragment
    require_scalar_fragment(w, w.entry.qual)
    from ..rules_knn import unclamp_k
    w = unclamp_k(w, G)
    w = _positive_constant_view(w, G)
    scans = find_knn_scans(w)
    if not scans:
        from ..rules_knn import report_missing_scan
        if report_missing_scan(rep, w, f"{cls}.predict"):
            return 0
    if len(scans) != 1:
        raise AnalysisError(f"{cls}.predict: expected one k-nearest insertion scan, found {len(scans)}")
    sc = scans[0]
    pre = ""
    check_knn_scan(rep, pre, sc, G, allow_self_skip=False)
    # query graph
    from ..schema import node_loop
    nlp = node_loop(sc.per)
    okq = nlp is not None and nlp[0][0] == "new"
    rep.fn("KNN-queries", fn, "per-sample loop visits every query node", okq,
           f"outer loop domain is '{show(sc.per.domain)}'", line=sc.per.line)
    if not okq:
        return 0
    Q, i, x = nlp
    qargs = dict(zip(["X", "Y", "I"], Q[2]))
    qargs.update(dict(Q[3]))
    rep.fn("KNN-query-features", fn, "the query graph is built from the caller's array unchanged",
           qargs.get("X") == ("param", fn.params[1]),
           f"the query nodes are built from '{show(qargs.get('X')) if qargs.get('X') else '?'}' instead of the argument '{fn.params[1]}'",
           line=sc.per.line)
    kterm = sc.k
    # (min(best_k, n_nodes [- 1]) is best_k for every model fit can produce: a sample has at most n - 1 neighbours)
    if kterm[0] == "min" and len(kterm[1]) == 2 and ("attr", G, "best_k") in kterm[1]:
        other = [x for x in kterm[1] if x != ("attr", G, "best_k")][0]
        nn = (("attr", G, "n_nodes"), ("call", ("builtin", "len"), (("attr", G, "nodes"),), ()))
        if other in nn or (other[0] == "bin" and other[1] == "-" and other[2] in nn and other[3] == ("const", 1)):
            kterm = ("attr", G, "best_k")
    rep.fn("KNN-k", fn, "k is the model's stored best_k", kterm == ("attr", G, "best_k"),
           f"k is '{show(kterm)}'", line=sc.per.line)
    # arg-max scan
    best = []
    for li in w.loops.values():
        if li.kind == "for" and li.loops == sc.cand.loops:
            best += find_best_scans(w, li)
    if len(best) != 1:
        raise AnalysisError(f"{cls}.predict: expected one arg-max scan over the ranks, found {len(best)}")
    bs = best[0]
    li = bs.loop
    r = ("iter", li.domain, li.lid)
    okdom = li.domain == ("call", ("builtin", "range"), (kterm,), ())
    rep.fn("ARGMAX-domain", fn, f"for r in {show(li.domain)}", okdom, "the arg-max must visit ranks 0..k-1", line=li.line)
    need = ("cmp", "!=", *sorted([K("FLOAT_MAX"), ("idx", sc.D, r)], key=repr))
    from ..rules_knn import validity_tests
    valid_forms = validity_tests(sc, w, r)
    if len(bs.outer_guards) == 1 and bs.outer_guards[0] in valid_forms:
        need = bs.outer_guards[0]
    if bs.outer_guards == [] and _break_at_first_empty(w, li, valid_forms):
        # `if d[r] == FLOAT_MAX: break`: the buffer is ascending, so every slot after the first empty one is empty too
        bs.outer_guards = [need]
    rep.fn("ARGMAX-valid", fn, "only filled slots take part", bs.outer_guards == [need],
           f"guards around the acceptance: {[show(g)[:80] for g in bs.outer_guards]}", line=li.line)
    from ..ir import is_neg_float_max
    rep.fn("ARGMAX-init", fn, f"{bs.best} starts at -FLOAT_MAX", is_neg_float_max(bs.init),
           f"starts at '{show(bs.init)}'", line=li.line)
    rep.fn("ARGMAX-accept", fn, "acceptance: candidate above the running maximum",
           bs.relation in ("best<cand", "best<=cand"), f"relation is {bs.relation}", line=li.line)
    nb = ("call", ("builtin", "int"), (("idx", sc.N, r),), ())
    nbnode = ("idx", ("attr", G, "nodes"), nb)
    dens = None
    okc = False
    # the neighbour position read from the index buffer: int(N[r]), N[r].item(), or N[r] itself (an integer-typed buffer)
    if sc.N is None:
        raise AnalysisError(f"{cls}.predict: the scan keeps no index buffer the rules recognise (rule KNN-pair reports the store "
                            "that is missing); the read-out of the neighbours cannot be followed")
    int_buffer = sc.N[0] == "alloc" and dict(sc.N[3]).get("dtype") in (("mod", "numpy.intp"), ("mod", "numpy.int64"), ("builtin", "int"),
                                                                          ("mod", "numpy.int_"), ("mod", "numpy.int32"))
    for cand_nb in (nb,) + ((("call", ("attr", ("idx", sc.N, r), "item"), (), ()), ("idx", sc.N, r)) if int_buffer else ()):
        cand_node = ("idx", ("attr", G, "nodes"), cand_nb)
        if bs.cand[0] == "min" and len(bs.cand[1]) == 2 and ("attr", cand_node, "cost") in bs.cand[1]:
            nb, nbnode = cand_nb, cand_node
    if bs.cand[0] == "min" and len(bs.cand[1]) == 2 and ("attr", nbnode, "cost") in bs.cand[1]:
        dens = [t for t in bs.cand[1] if t != ("attr", nbnode, "cost")][0]
        okc = True
    rep.fn("ARGMAX-candidate", fn, "candidate is min(cost(neighbour_r), density(x))", okc,
           f"candidate is '{show(bs.cand)[:200]}'", line=li.line)
    # label / cluster copied from the same neighbour in the accepted branch
    for f in fields:
        from ..ir import root_object
        st = [e for e in w.events if e.kind == "store" and e.target[0] == "attr" and e.target[2] == f
              and root_object(e.target) == Q]
        good = [e for e in st if e.target == ("attr", x, f) and e.value == ("attr", nbnode, f)
                and has_guard(e.guards, bs.cond) and has_guard(e.guards, need)
                and e.loops == li.loops + (li.lid,)]
        if not good and len(st) == 1:
            # companion form: the winner is remembered in the accepted branch and the field copied after the scan
            from ..ir import facts
            e = st[0]
            for cname, (cinit, cval) in bs.companions.items():
                after = ("phi", li.lid, cname)
                src = None
                if cval == nbnode:
                    src = after
                elif cval == nb or cval == ("idx", sc.N, r):
                    src = ("idx", ("attr", G, "nodes"), after if cval == nb else ("call", ("builtin", "int"), (after,), ()))
                if src is None or e.target != ("attr", x, f) or e.value != ("attr", src, f) or e.loops != li.loops:
                    continue
                own = [t for t in facts(e.guards) if t not in facts(w.loops[li.loops[-1]].guards)]
                defined = [("cmp", "is not", after, ("const", None)), ("cmp", "!=", *sorted([after, ("const", None)], key=repr)),
                           ("cmp", "<", ("const", -1), after), ("cmp", "<=", ("const", 0), after),
                           ("cmp", "!=", *sorted([after, ("K", "NIL")], key=repr)),
                           ("cmp", "!=", *sorted([after, ("const", -1)], key=repr))]
                sentinel = cinit in (("const", None), ("const", -1), ("K", "NIL"))
                if sentinel and len(own) == 1 and own[0] in defined:
                    good = [e]
        rep.fn(f"ARGMAX-{f}", fn, f"{f} of the query is copied from the winning neighbour in the accepted branch",
               len(good) == 1 and len(st) == 1,
               f"{len(st)} store(s) to the query's {f}, {len(good)} of the required form", line=li.line)
    # density formula
    if dens is not None:
        alg = TermAlgebra()
        acc = None
        for l2 in w.loops.values():
            for name, (init, end) in l2.carried.items():
                if ("phi", l2.lid, name) in _subs(dens) and l2.kind == "for":
                    acc = (l2, name, init, end)
        okacc = False
        detail = "the density accumulator loop was not found"
        if acc:
            l2, name, init, end = acc
            rr = ("iter", l2.domain, l2.lid)
            phi = ("phi", l2.lid, name)
            step = alg.conv(end) - alg.conv(phi)
            exp_step = alg.conv(("call", ("mod", "numpy.exp"),
                                 (("bin", "/", ("neg", ("idx", sc.D, rr)), ("attr", G, "constant")),), ()))
            okacc = (init in (("const", 0.0), ("const", 0)) and l2.domain == ("call", ("builtin", "range"), (kterm,), ())
                     and alg.equal(step, exp_step))
            detail = f"accumulator: init {show(init)}, domain {show(l2.domain)}, step '{show(end)[:160]}'"
            rep.fn("DENSITY-sum", fn, "density accumulates exp(-d_r / stored constant) over r < k", okacc, detail,
                   line=l2.line)
            S = alg.conv(phi)
            MD, EPS = alg.conv(K("MAX_DENSITY")), alg.conv(K("EPSILON"))
            mn, mx = alg.conv(("attr", G, "min_density")), alg.conv(("attr", G, "max_density"))
            kk = alg.conv(kterm)
            expected = (MD - 1) * (S / kk - mn) / (mx - mn + EPS) + 1
            okf = alg.equal(alg.conv(dens), expected)
            rep.fn("DENSITY-map", fn,
                   "density = (MAX_DENSITY-1)*(sum/k - min_density)/(max_density - min_density + EPSILON) + 1 "
                   "with the stored range", okf, f"density is '{show(dens)[:220]}'", line=li.line)
        else:
            rep.fn("DENSITY-sum", fn, "density accumulates exp(-d_r / stored constant) over r < k", False, detail)
    # result order
    from ..rules_premise import main_returns
    rets = main_returns(w)
    okr = False
    if len(rets) == 1:
        v = rets[0].value
        comps = [v] if v[0] == "listcomp" else (list(v[1]) if v[0] == "tuple" else [])
        okr = len(comps) == len(fields)
        for c, f in zip(comps, fields):
            if not (c[0] == "listcomp" and len(c[2]) == 1 and c[2][0][0] == ("attr", Q, "nodes") and not c[2][0][2]
                    and c[1] == ("attr", ("iter", c[2][0][0], c[2][0][1]), f)):
                okr = False
    if not okr and len(rets) == 1:
        from ..rules_premise import appended_results
        okr = appended_results(w, sc.per, x, rets[0].value, fields) is not None  # one `out.append(node.field)` per query
    rep.fn("KNN-result", fn, "results list the query nodes in query order", okr,
           f"returns '{show(rets[0].value)[:140] if rets else '?'}'")
    run_kinds(rep, w)
    return 1


def _positive_constant_view(w, G):
    """`constant if constant > 0 else <fallback>` is the stored constant: calculate_pdf stores 2 * density / 9 and
    create_arcs never leaves the density bound below 1e-5 (rules PDF-constant and ARCS-fallback of C12), so the stored
    constant of a fitted model is positive and the fallback arm is never taken."""
    from ..ir import substitute_view, subterms
    k = ("attr", G, "constant")
    zeros = (("const", 0), ("const", 0.0))
    mapping = {}
    for ev in w.events:
        for top in [x for x in (ev.target, ev.value) if x is not None] + list(ev.args or ()) + [g for g, _ in ev.guards]:
            for t in subterms(top):
                if t[0] == "sel" and t[1][0] == "cmp" and t[1][1] in ("<", "<="):
                    c = t[1]
                    if c[2] == k and c[3] in zeros and t[3] == k:      # constant <= 0 ? fallback : constant
                        mapping[t] = k
                    elif c[3] == k and c[2] in zeros and t[2] == k and c[1] == "<":  # 0 < constant ? constant : fallback
                        mapping[t] = k
    for li in w.loops.values():
        for n, (a, b) in li.carried.items():
            for t in list(subterms(a)) + list(subterms(b)):
                if t[0] == "sel" and t[1][0] == "cmp" and t[1][1] in ("<", "<=") and t[1][2] == k and t[1][3] in zeros and t[3] == k:
                    mapping[t] = k
    return substitute_view(w, mapping) if mapping else w


def _subs(t):
    from ..ir import subterms
    return set(subterms(t))


def check(chk, repo):
    chk.explanation = EXPLANATION
    rep = Rep(chk, repo)
    n = 0
    n += check_predict(chk, rep, repo, "KNNSupervisedOPF", ["predicted_label"])
    n += check_predict(chk, rep, repo, "UnsupervisedOPF", ["predicted_label", "cluster_label"])
    chk.floor("k-nearest scans in the two predict methods", n, 2)
    from ..common import check_model_premises
    check_model_premises(rep, repo)
    # the stored constant / range are written by calculate_pdf (C12 decides their formulas)
    from ..common import graph_walk
    w = graph_walk(repo, "KNNSubgraph", "calculate_pdf")
    for f in ("constant", "min_density", "max_density"):
        st = [e for e in w.events if e.kind == "store" and e.target == ("attr", ("self",), f)]
        rep.fn("STORED-" + f, w.entry, f"calculate_pdf stores {f} on the subgraph", len(st) >= 1,
               f"{f} is never stored at fit time")
    # KNNSupervisedOPF.fit drops the arcs after the final clustering: that step must leave the costs predict reads alone
    from .c12 import check_destroy
    check_destroy(rep, repo, "FIT-END:")
    chk.undecided.append("that the scan's k slots are the k smallest distances (loop invariant of the insertion scan)")
