"""C08: metric axioms - finite, symmetric, non-negative, zero self-distance, triangle."""

from ..rules_ift import Rep
from ..rules_metrics import (Metrics, check_definedness, check_symmetry, check_value_axioms, check_zero_self)

EXPLANATION = (
    "Per metric, against the fixed axiom table /verif/spec/metrics_reference.py (which of symmetric / "
    "non-negative / zero-self / triangle each identifier claims, and its domain): SYMMETRIC - the normal form "
    "of the code is invariant under x <-> y (sound for all vectors; the operations involved are also bit-for-bit "
    "commutative in IEEE); ZERO SELF-DISTANCE - substituting y := x simplifies to 0 in real arithmetic; FINITE - "
    "every fractional-power / log operand and divisor of the body is discharged in a sign domain containing "
    "only facts that hold in floating point without overflow/underflow (squares, abs, sums of >= 0, products "
    "of like signs, 1 + >= 0, exp, positive shifted arguments) plus margin lemmas; a real-arithmetic bound that "
    "is attained (Cauchy-Schwarz at parallel vectors) never discharges a definedness obligation; NON-NEGATIVE "
    "and TRIANGLE - theorem table on the reference closed form, transferred to the code by the C06 equivalence, "
    "not decided from the code itself."
)


def check(chk, repo):
    chk.explanation = EXPLANATION
    rep = Rep(chk, repo)
    M = Metrics(repo)
    chk.floor("registry identifiers", len(M.registry), 47)
    ns = check_symmetry(rep, M)
    nz = check_zero_self(rep, M)
    nf = check_definedness(rep, M)
    nv = check_value_axioms(rep, M)
    from ..rules_metrics import check_shift_wrapper
    check_shift_wrapper(rep, M)
    # a metric (or its wrapper) that writes through its arguments returns different values for the same pair later on
    from ..common import check_metric_purity
    check_metric_purity(rep, repo)
    chk.note("instances", {"symmetric": ns, "zero_self": nz, "definedness_obligations": nf, "value_axioms": nv})
    chk.floor("symmetry claims checked", ns, 40)
    chk.floor("definedness obligations", nf, 60)
    chk.undecided += ["non-negativity and the triangle inequality of the formulas themselves (published theorems)"]
    chk.assumptions += ["no overflow/underflow (|values| within [1e-20, 1e100])", "axiom table fixed in /verif/spec"]
