"""C06: each of the 47 named metrics computes its published closed form (translation validation)."""

import ast
from ..rules_ift import Rep
from ..rules_metrics import Metrics, check_closed_forms, check_decorator_domain, check_registry

LEVEL = "translation_validation"

EXPLANATION = (
    "Translation validation of 47 programs against 47 reference forms: every metric body is translated from "
    "its AST (operator whitelist; anything else is an analysis error) into an algebraic tree over element "
    "symbols x, y, the SYMBOLIC length n and the reductions S/MX/CNZ, calls between metrics inlined, decorated "
    "metrics seeing strictly positive arguments; its real-arithmetic normal form (linearity of the sum, "
    "expand/together, log expansion on positive arguments, clamp removal by lemma) must equal the normal form "
    "of the published closed form in /verif/spec/metrics_reference.py - 'equal up to floating-point rounding' "
    "is exactly equality of real normal forms. Registry: keys of the DISTANCES literal == the whitelist "
    "literal of OPF.distance == 47 names, each key maps to <key>_distance, OPF.__init__ validates then looks "
    "the same identifier up, every model constructor forwards `distance`. Domain: a metric with a divisor or "
    "log operand not provably non-zero on inputs >= 0 must carry the shifting decorator."
)


def check(chk, repo):
    chk.explanation = EXPLANATION
    rep = Rep(chk, repo)
    M = Metrics(repo)
    check_registry(rep, M)
    n = check_closed_forms(rep, M)
    chk.floor("metric bodies translated and compared", n, 40)
    nd = check_decorator_domain(rep, M)
    from ..rules_metrics import check_shift_wrapper
    check_shift_wrapper(rep, M)
    # a metric (or its wrapper) that writes through its arguments returns different values for the same pair later on
    from ..common import check_metric_purity
    check_metric_purity(rep, repo)
    chk.floor("metrics that need the zero-avoiding shift", nd, 30)
    # identifier and function stay paired for the life of the object: nothing but OPF.__init__ writes either
    # of them, and load installs the saved object's state as a whole (same rule as C19)
    from ..core import Check
    from ..ir import Walker
    from .c19 import check_load
    # (a private helper that only the constructor calls is part of the constructor)
    callers = {}
    for g in repo.all_functions():
        for nd in ast.walk(g.node):
            if isinstance(nd, ast.Call) and isinstance(nd.func, ast.Attribute) and isinstance(nd.func.value, ast.Name) \
                    and nd.func.value.id == "self":
                callers.setdefault(nd.func.attr, set()).add(g.qual)
    for fi in repo.all_functions():
        if fi.cls is None or fi.qual in ("OPF.__init__", "OPF.distance", "OPF.distance_fn"):
            continue
        if fi.cls == "OPF" and fi.name.startswith("_") and not fi.name.startswith("__") \
                and callers.get(fi.name) == {"OPF.__init__"}:
            continue
        w = Walker(repo, fi, self_class=fi.cls, inline=lambda f: False)
        for e in w.events:
            if e.kind == "store" and e.target[0] == "attr" and e.target[2] in ("distance", "_distance", "distance_fn", "_distance_fn"):
                rep.ev("REG-paired", e, False, "the metric identifier / function of a model is changed outside OPF.__init__: "
                       "`distance` and `distance_fn` can then disagree")
    tmp = Check("C06")
    check_load(Rep(tmp, repo), repo)
    for o in tmp.obligations:
        chk.ob("REG-load:" + o.rule, o.function, o.construct, o.ok, o.detail, o.file, o.line)
    chk.extra["programs"] = n
    chk.extra["disagreements_checked"] = sum(1 for o in chk.obligations if not o.ok)
    chk.extra["checker_cmd"] = "./run C06 --tier quick"
    chk.assumptions += ["reference formulas in /verif/spec/metrics_reference.py are the published closed forms",
                        "sympy's simplifier is sound", "numba compiles whitelisted NumPy operations with NumPy semantics"]


def thorough(chk, repo):
    """Reference-free sibling relations between normal forms."""
    import sympy as sp
    from ..algebra import equal_forms, normal_form
    rep = Rep(chk, repo)
    M = Metrics(repo)
    for a, b, relf in M.spec.SIBLINGS:
        if a not in M.registry or b not in M.registry:
            continue
        ta, ops = M.translated(a, M.domain(a))
        tb, _ = M.translated(b, M.domain(a))
        d = relf(ta.expr, tb.expr, ops)
        ok = equal_forms(d, sp.Integer(0), ops)
        rep.fn("SIBLING", ta.fi, f"{a} vs {b}: sibling relation holds", ok,
               f"relation residue {sp.sstr(normal_form(d, ops))[:160]}")
