"""C03: supervised predict is the cost-ordered arg-min scan of max(cost, d) with a sound early exit."""

from ..common import model_walk, run_kinds
from ..core import AnalysisError
from ..ir import conj, has_guard, show
from ..kinds import count_of
from ..rules_heap import _sub, lin, lin_eq
from ..rules_ift import Rep, split_candidate, weight_mentions, weight_of
from ..rules_scan import find_best_scans, ordered_scan

EXPLANATION = (
    "SupervisedOPF.predict (shared by SemiSupervisedOPF) is parsed and normalised; the scan loop's carried "
    "variables are extracted: the running minimum must start from max(cost(t0), w(t0,x)) with t0 = "
    "idx_nodes[0] and its label from the same node; the position advances by exactly 1 per iteration, "
    "unconditionally; the loop bound is exactly position < n_nodes - 1; the only other continuation test "
    "allowed is 'running minimum > (or >=) cost of idx_nodes[position(+1)]', which exits only when nothing "
    "later in a cost-sorted order can improve; the candidate is max(cost(t), w(t,x)) with t = "
    "idx_nodes[position+1]; acceptance is candidate < (or <=) running minimum and updates the minimum and the "
    "label from that same t; the label is stored on the query node of the same loop index and the result "
    "lists the query nodes in order. Equality with the exhaustive scan then follows from sortedness of the "
    "conquest order, a run-time fact implied by C01's removal rule; it is not decided here."
)


class _Only:
    """A reporter that passes on only the listed rules, under a prefix (the scan rules as a premise elsewhere)."""

    def __init__(self, rep, pre, only):
        self.rep, self.pre, self.only = rep, pre, only

    def fn(self, rule, *a, **k):
        if self.only is None or rule in self.only:
            self.rep.fn(self.pre + rule, *a, **k)

    def ev(self, rule, *a, **k):
        if self.only is None or rule in self.only:
            self.rep.ev(self.pre + rule, *a, **k)


def check_scan(chk, rep0, repo, pre="", only=None):
    rep = _Only(rep0, pre, only) if (pre or only is not None) else rep0
    sup = repo.need_method("SupervisedOPF", "predict")
    semi = repo.need_method("SemiSupervisedOPF", "predict")
    rep.fn("SCAN-shared", semi, "SemiSupervisedOPF.predict is SupervisedOPF.predict", semi.fq == sup.fq,
           "semi-supervised prediction is a different function (not analysed by this rule set)")
    w = model_walk(repo, "SupervisedOPF", "predict")
    from ..common import require_scalar_fragment
    require_scalar_fragment(w, "SupervisedOPF.predict")
    fn = w.entry
    G = ("attr", ("self",), "subgraph")
    scans = []
    for li in w.loops.values():
        for bs in find_best_scans(w, li):
            scans.append(bs)
    scans = [b for b in scans if b.loop.kind in ("while", "for") and b.loop.loops]
    if not scans and getattr(w, "truthy_optional", None):
        v, lid, e0 = w.truthy_optional[0]
        rep.ev("SCAN-none-test", e0, False,
               f"the running minimum '{v}' starts as None and 'nothing found yet' is tested by truthiness: a minimum of exactly 0 "
               "counts as nothing found, so the scan goes on and a later, worse offer replaces the zero-cost conqueror")
        return
    if not scans:
        # no running-minimum scan: if a label / conqueror is nevertheless recorded under `candidate < m` where m is never
        # updated in the loop, the comparison is against the START value, not the best so far - the violation itself
        hit = False
        for li in w.loops.values():
            if li.kind not in ("while", "for") or not li.loops:
                continue
            for n2, (i2, e2) in li.carried.items():
                t = e2
                while t[0] == "sel":
                    c = t[1]
                    if c[0] == "cmp" and c[1] in ("<", "<="):
                        def varying(x):
                            from ..ir import subterms
                            for u in subterms(x):
                                if u[0] == "phi" and (u[1] == li.lid or (u[1] in w.loops and li.lid in w.loops[u[1]].loops)):
                                    if not (u[1] == li.lid and u[2] in li.carried and li.carried[u[2]][1] == u):
                                        return True
                                if u[0] in ("iter", "iterproj") and u[2] == li.lid:
                                    return True
                            return False
                        sides = [c[2], c[3]]
                        frozen = [x for x in sides if not varying(x)]
                        if len(frozen) == 1 and varying([y for y in sides if y is not frozen[0]][0]) and not hit \
                                and (t[2] == ("phi", li.lid, n2) or t[3] == ("phi", li.lid, n2)):
                            hit = True
                            rep.fn("SCAN-running", w.entry, "candidates are compared with the smallest candidate seen so far", False,
                                   f"'{n2}' is updated under '{show(c)[:80]}', whose reference '{show(frozen[0])[:60]}' never changes "
                                   "in the scan: every candidate below the FIRST one wins and the last of them is kept, not the "
                                   "minimum", line=li.line)
                    t = t[2] if t[3] == ("phi", li.lid, n2) else t[3]
        if hit:
            return
    if len(scans) != 1:
        raise AnalysisError(f"SupervisedOPF.predict: expected one best-so-far scan, found {len(scans)}")
    bs = scans[0]
    li = bs.loop
    outer = [w.loops[l] for l in li.loops]
    if not outer or outer[-1].kind != "for":
        raise AnalysisError("SupervisedOPF.predict: the scan is not inside a per-sample for loop")
    per = outer[-1]
    from ..schema import node_loop
    nlp = node_loop(per)
    okq = nlp is not None and nlp[0][0] == "new"
    rep.fn("SCAN-queries", fn, "per-sample loop visits every query node", okq,
           f"outer loop domain is '{show(per.domain)}'", line=per.line)
    if not okq:
        return
    Q, i, x = nlp
    # the samples examined are the caller's samples, as given: the query graph is built from the parameter itself
    qargs = dict(zip(["X", "Y", "I"], Q[2]))
    qargs.update(dict(Q[3]))
    rep.fn("SCAN-query-features", fn, "the query graph is built from the caller's array unchanged",
           qargs.get("X") == ("param", fn.params[1]),
           f"the query nodes are built from '{show(qargs.get('X')) if qargs.get('X') else '?'}' instead of the argument '{fn.params[1]}': "
           "a converted / rounded / re-typed copy is classified, not the sample that was passed", line=per.line)
    # ... and every query node carries the dataset index the caller gave for it (the column of a pre-computed matrix)
    if len(fn.params) > 2:
        rep.fn("SCAN-query-ids", fn, "the query graph receives the caller's index array", qargs.get("I") == ("param", fn.params[2]),
               f"the query nodes get '{show(qargs.get('I')) if qargs.get('I') else 'no index array'}' as identifiers instead of the "
               f"argument '{fn.params[2]}': with pre-computed distances d(t, x) is read from the column of the batch position",
               line=per.line)
    n_nodes = ("attr", G, "n_nodes")
    sizes = [n_nodes, ("call", ("builtin", "len"), (("attr", G, "nodes"),), ()),
             ("call", ("builtin", "len"), (("attr", G, "idx_nodes"),), ())]
    view = ordered_scan(w, bs, sizes, orders=(("attr", G, "idx_nodes"),))
    prob = dict(view.problems)
    rep.fn("SCAN-position", fn, "one position variable advances by exactly 1 per iteration, unconditionally",
           "position" not in prob, prob.get("position", ""), line=li.line)
    if "position" in prob:
        return
    # two spellings of the start: the first sample of the order seeds the minimum and the scan starts at position 1, or
    # the minimum starts at FLOAT_MAX and the scan starts at position 0 (every sample goes through the same test)
    from_zero = view.first == ("const", 0) and bs.init == ("K", "FLOAT_MAX")
    rep.fn("SCAN-start", fn, "the scan starts right after the first sample of the order",
           view.first == ("const", 1) or from_zero,
           f"first position examined is {show(view.first) if view.first else prob.get('start')}", line=li.line)
    J = view.prev

    def order(e):
        return ("idx", ("attr", G, "idx_nodes"), e)

    def node(t):
        return ("idx", ("attr", G, "nodes"), t)

    t0 = order(("const", 0))
    nxt = view.examined(("attr", G, "idx_nodes"))
    cur = order(J) if J is not None else None

    def cand_ok(v, t):
        wgt = split_candidate(v, ("attr", node(t), "cost"), "max")
        return wgt is not None and weight_of(wgt) and weight_mentions(wgt, node(t), x)

    rep.fn("SCAN-init", fn, f"{bs.best} starts as max(cost(t0), w(t0, x)) with t0 = idx_nodes[0]",
           from_zero or cand_ok(bs.init, t0), f"initial value is '{show(bs.init)[:200]}'", line=li.line)
    rep.fn("SCAN-candidate", fn, "candidate is max(cost(t), w(t, x)) with t = idx_nodes[position + 1]",
           cand_ok(bs.cand, nxt), f"candidate is '{show(bs.cand)[:200]}'", line=li.line)
    from ..schema import weight_oriented
    for what, v, t in ((("initial value", bs.init, t0),) if not from_zero else ()) + (("candidate", bs.cand, nxt),):
        wgt = split_candidate(v, ("attr", node(t), "cost"), "max")
        if wgt is not None and weight_of(wgt) and weight_mentions(wgt, node(t), x):
            rep.fn("SCAN-orientation", fn, f"{what}: the arc weight is d(training sample, query) in this order",
                   weight_oriented(wgt, node(t), x),
                   "the arguments of the metric / the row and column of the matrix are (query, training sample): for a "
                   "non-symmetric dissimilarity this is not the d(t, x) of the definition (and not what the other scan "
                   "step uses)", line=li.line)
    rep.fn("SCAN-accept", fn, f"acceptance: candidate < {bs.best}", bs.relation in ("cand<best", "cand<=best"),
           f"acceptance relation is {bs.relation} (arg-min needs candidate below the running minimum)", line=li.line)
    # tests around the acceptance may only skip candidates that could not be accepted anyway: a NaN weight (every `<`
    # with it is false) or a weight that is not below the running minimum (then max(cost, w) is not below it either)
    from ..ir import mk_not
    wgt_c = split_candidate(bs.cand, ("attr", node(nxt), "cost"), "max")
    arms = []
    if wgt_c is not None:
        arms = [wgt_c] + ([wgt_c[2], wgt_c[3]] if wgt_c[0] == "sel" else [])
    Bm = ("phi", li.lid, bs.best)

    def harmless(t):
        if t[0] == "or":
            return all(harmless(u) for u in t[1])
        if t[0] == "and":
            return any(harmless(u) for u in t[1])
        if t[0] == "call" and t[1] in (("mod", "numpy.isnan"), ("mod", "math.isnan")) and len(t[2]) == 1 and not t[3]:
            return t[2][0] in arms
        if t[0] == "cmp" and t[2] == Bm and t[3] in arms:
            return t[1] == "<" or (t[1] == "<=" and bs.relation == "cand<best")
        return False

    for g in bs.outer_guards:
        rep.fn("SCAN-skip", fn, f"candidates are skipped only when they could not win: {show(mk_not(g))[:120]}",
               harmless(mk_not(g)),
               f"a training sample is left out of the minimum under '{show(mk_not(g))[:200]}' although max(cost, weight) "
               "may be below the running minimum there", line=li.line)
    # companions
    labs = {n: v for n, v in bs.companions.items()
            if v[1] == ("attr", node(nxt), "predicted_label") or v[0] == ("attr", node(t0), "predicted_label")}
    if from_zero:
        # every sample, the first included, goes through the acceptance test and the first one passes it (its offer is finite):
        # what the companions hold before that is never seen
        labs = {n: ((("attr", node(t0), "predicted_label"), v[1]) if v[0][0] in ("const", "K") else v) for n, v in labs.items()}
    # direct form: no label variable - the label is written to the query node with the first offer and again with
    # every accepted one (the last write is the winner's)
    stores = [e for e in w.events if e.kind == "store" and e.target == ("attr", x, "predicted_label")]
    direct = False
    if not labs and len(stores) == 2:
        from ..ir import facts
        inner = [e for e in w.events if li.lid in e.loops]
        seed = [e for e in stores if e.loops == li.loops and e.value == ("attr", node(t0), "predicted_label")
                and facts(e.guards) == facts(per.guards) and inner and w.events.index(e) < w.events.index(inner[0])]
        acc = [e for e in stores if e.loops == li.loops + (li.lid,) and e.value == ("attr", node(nxt), "predicted_label")
               and has_guard(e.guards, bs.cond)
               and not [t for t in facts(e.guards) if t not in facts(li.guards) and t not in facts(((bs.cond, True),))
                        and (li.cond is None or t not in facts(((li.cond, True),)))]]
        direct = len(seed) == 1 and len(acc) == 1
    if not labs and len(stores) == 1 and from_zero:
        # the same without a seed: the minimum starts at FLOAT_MAX, so the first offer goes through the acceptance test like
        # every other and writes the label there
        from ..ir import facts
        acc = [e for e in stores if e.loops == li.loops + (li.lid,) and e.value == ("attr", node(nxt), "predicted_label")
               and has_guard(e.guards, bs.cond)
               and not [t for t in facts(e.guards) if t not in facts(li.guards) and t not in facts(((bs.cond, True),))
                        and (li.cond is None or t not in facts(((li.cond, True),)))
                        and t not in [mk_not(g) for g in bs.outer_guards] and t not in bs.outer_guards]]
        direct = len(acc) == 1
    # winner form: the node travels with the minimum and its label is read after the scan
    winner = False
    if not labs and not direct and len(stores) == 1:
        from ..ir import facts
        e = stores[0]
        for cname, v in bs.companions.items():
            after_w = ("phi", li.lid, cname)
            if v == (t0, nxt) and e.value == ("attr", node(after_w), "predicted_label") and e.loops == li.loops \
                    and facts(e.guards) == facts(per.guards) and e.seq > li.last_seq:
                winner = True
    rep.fn("SCAN-label", fn, "the label travels with the minimum (same node, both at start and on improvement)",
           direct or winner or len(labs) == 1 and all(v == (("attr", node(t0), "predicted_label"), ("attr", node(nxt), "predicted_label"))
                                  for v in labs.values()),
           f"label companions: { {n: (show(a)[:60], show(b)[:60]) for n, (a, b) in bs.companions.items()} }",
           line=li.line)
    # any label-like variable that is updated outside the acceptance is a violation
    for n, (a, b) in bs.others.items():
        if b[0] == "sel" or "label" in n:
            if n != view.posname and b != ("phi", li.lid, n) and ("predicted_label" in show(b)):
                rep.fn("SCAN-label-stray", fn, f"{n} is updated outside the acceptance branch", False,
                       f"{n} becomes '{show(b)[:120]}'", line=li.line)
    # continuation tests
    B = ("phi", li.lid, bs.best)
    costs = [("attr", node(nxt), "cost")] + ([("attr", node(cur), "cost")] if cur is not None else [])
    for c, exact in view.bound:
        rep.fn("SCAN-bound", fn, "continue while " + show(c), exact,
               "the scan bound must be exactly the number of training samples (every training sample reachable)",
               line=li.line)
    for c in view.exits:
        if c[0] == "cmp" and c[1] in ("<", "<="):
            # early exit: continue while cost(next or current) < / <= best
            if c[3] == B and c[2] in costs:
                rep.fn("SCAN-exit", fn, "continue while " + show(c), True, "", line=li.line)
                continue
            if c[2] == B and c[3] in costs:
                rep.fn("SCAN-exit", fn, "continue while " + show(c), False,
                       "early exit has the wrong direction: the scan stops while later samples can still improve",
                       line=li.line)
                continue
        rep.fn("SCAN-exit", fn, "continue while " + show(c)[:160], False,
               "continuation test outside the accepted family (bound, or running minimum vs cost of the "
               "next/current sample in conquest order)", line=li.line)
    rep.fn("SCAN-bound-present", fn, "the scan is bounded by the number of training samples", len(view.bound) == 1,
           f"{len(view.bound)} bound test(s) found", line=li.line)
    # result
    after = ("phi", li.lid, next(iter(labs))) if labs else None
    ok = direct or winner or len(stores) == 1 and after is not None and stores[0].value == after and stores[0].loops == li.loops
    rep.fn("SCAN-store", fn, "the winning label is stored on the query node of the same loop index", ok,
           f"{len(stores)} store(s) to the query node's predicted_label", line=per.line)
    from ..rules_premise import main_returns
    rets = main_returns(w)
    okr = False
    if len(rets) == 1 and rets[0].value[0] == "listcomp":
        lc = rets[0].value
        gens = lc[2]
        if len(gens) == 1 and gens[0][0] == ("attr", Q, "nodes") and not gens[0][2]:
            okr = lc[1] == ("attr", ("iter", gens[0][0], gens[0][1]), "predicted_label")
    rep.fn("SCAN-result", fn, "the result lists the query nodes' labels in query order", okr,
           f"returns '{show(rets[0].value)[:120] if rets else '?'}'")
    if only is not None:
        return
    run_kinds(rep, w)
    from ..common import check_model_premises
    from ..rules_premise import check_entry_unconditional
    check_model_premises(rep, repo)
    check_entry_unconditional(rep, w, per.guards, "SCAN-entry", "the per-sample scan", per.line)
    # premise anchored in fit: the order scanned is the order of removal, recorded once per removal
    from ..common import competitions_of
    from ..rules_ift import check_removal_bookkeeping
    for cls in ("SupervisedOPF", "SemiSupervisedOPF"):
        _, comps = competitions_of(repo, cls, "fit", 2)
        check_removal_bookkeeping(rep, f"{cls}:", comps[-1])
    # ... and the order scanned belongs to the forest scanned: learn() must leave ONE fitted model in the object (nodes and
    # their removal order from the same fit), not parts of two
    from ..common import check_learn_state_premise
    check_learn_state_premise(rep0, repo)
    # the order scanned is sorted by cost only if the queue that produced it returns minima
    from ..rules_heap import check_heap
    check_heap(rep, repo, "HEAP-")
    chk.floor("best-so-far scans in SupervisedOPF.predict", len(scans), 1)
    chk.undecided.append("equality with the exhaustive scan as a semantic fact (needs sortedness, implied by C01)")
    chk.assumptions.append("idx_nodes is sorted by non-decreasing cost (C01 removal rule) and has n_nodes entries")


def check(chk, repo):
    chk.explanation = EXPLANATION
    rep = Rep(chk, repo)
    check_scan(chk, rep, repo)
    # premise: the weights that compete are the configured dissimilarity (flag, matrix and node pair of every selector)
    from .c10 import check_walk_selectors
    check_walk_selectors(rep, repo, 'model', 'SupervisedOPF', 'predict', set(), pre="WEIGHT:")
