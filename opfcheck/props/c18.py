"""C18: splitting, merging, loading, parsing and converting preserve every sample (def-use + table rules)."""

from ..core import AnalysisError
from ..common import inline_same_module_private
from ..ir import Walker, has_guard, show, subterms
from ..rules_ift import Rep

EXPLANATION = (
    "split / split_with_index: exactly one RNG draw, a permutation of X.shape[0] (len(X)) elements, dominated by an "
    "unconditional np.random.seed(random_state) (the seed call precedes it and nothing guards it); halt = "
    "int(len(X) * percentage); the outputs at positions 0,2(,4) derive from perm[:halt] and those at 1,3(,5) from "
    "perm[halt:] - the SAME permutation value and the SAME bound, complementary slices; X and Y of a part are "
    "indexed by the same index value; I_* are the permutation slices themselves; the two functions agree. merge: "
    "vstack((X_1, X_2)) and hstack((Y_1, Y_2)) - same part order. parse_loader: features = columns 2.., labels = "
    "column 1 cast to int, ValueError when #distinct labels != max + 1. Converters (sibling agreement over the "
    "three): header '<iii' with samples = field 0 and features = field 2, record '<ii' + 'f' * features, id kept, "
    "label - 1, features = fields 2..; writer/loader tables: the delimiter written for .txt/.csv is the one the "
    "loader of that extension parses, JSON keys written == keys read and stacked as (id, label, features), no lossy "
    "fmt on the writer and no narrowing dtype on the loader; Subgraph._load dispatches each extension to its "
    "loader and then to parse_loader. Exactness of float32 text round trips relies on %.18e / json repr (library)."
)

SPLIT = "opfython.stream.splitter"
LOADER = "opfython.stream.loader"
PARSER = "opfython.stream.parser"
CONV = "opfython.utils.converter"

FULL = ("slice", None, None, None)


def check_split(rep, repo, name, with_index):
    fi = repo.need_function(SPLIT, name)
    from ..rules_premise import values_view
    private = inline_same_module_private(fi)
    # `split` written as a thin wrapper of its sibling: the sibling's body is read in its place
    w0 = Walker(repo, fi, inline=(lambda g: private(g) or (name == "split" and g.module == SPLIT and g.qual == "split_with_index")))
    from ..rules_premise import check_function_inplace
    check_function_inplace(rep, w0, "SPLIT-inplace", name)
    w = values_view(w0)
    X, Y = ("param", "X"), ("param", "Y")
    rng = [e for e in w.events if e.kind == "call" and e.target is not None and e.target[0] == "mod"
           and (e.target[1].startswith("numpy.random.") or e.target[1].startswith("random."))]
    seeds = [e for e in rng if e.target[1].endswith(".seed")]
    draws = [e for e in rng if not e.target[1].endswith(".seed")]
    # (`if random_state is not None:` around the call is the call: seed(None) does not make the result a function of
    # anything either; every seed VALUE reaches the generator)
    given = (("cmp", "is not", ("param", "random_state"), ("const", None)), True)
    ok_seed = len(seeds) == 1 and seeds[0].args == (("param", "random_state"),) and seeds[0].guards in ((), (given,)) \
        and not seeds[0].loops
    rep.fn("SPLIT-seed", fi, "np.random.seed(random_state) is called unconditionally", ok_seed,
           "the result must be a function of the seed for EVERY seed value (a guarded or missing seed call leaves the "
           "global RNG state in control)")
    sizes = [("idx", ("attr", X, "shape"), ("const", 0)), ("call", ("builtin", "len"), (X,), ()),
             ("idx", ("attr", Y, "shape"), ("const", 0)), ("call", ("builtin", "len"), (Y,), ())]
    ok_draw = len(draws) == 1 and draws[0].target[1] == "numpy.random.permutation" and draws[0].args[:1] and \
        draws[0].args[0] in sizes and not draws[0].loops
    rep.fn("SPLIT-one-permutation", fi, "exactly one random draw: a permutation of all row numbers", bool(ok_draw),
           f"random draws: {[e.text() for e in draws]}")
    if not ok_draw:
        return
    rep.ev("SPLIT-seed-first", draws[0], ok_seed and seeds[0].seq < draws[0].seq, "the seed call must precede the draw")
    perm = draws[0].value
    rets = [e for e in w.events if e.kind == "return" and e.fn is w.entry]
    if not rets or rets[-1].value[0] != "tuple":
        raise AnalysisError(f"{name}: expected a tuple return")
    # special-case returns (early exits) must obey the same rules as the main one: every returned array is the same
    # kind of slice of the ONE permutation, otherwise rows, labels and indexes of a sample come apart
    for extra in rets[:-1]:
        v = extra.value
        same = v[0] == "tuple" and len(v[1]) == len(rets[-1].value[1])
        if same:
            uses = {any(u == perm for u in subterms(a)) for a in v[1]}
            same = len(uses) == 1  # all outputs through the permutation, or none of them
        rep.ev("SPLIT-special-case", extra, same,
               "an early return hands back some outputs without the permutation and others with it: the i-th row, label "
               "and index no longer belong to the same sample" if not same else "")
    out = rets[-1].value[1]
    n_out = 6 if with_index else 4
    rep.fn("SPLIT-arity", fi, f"returns {n_out} arrays", len(out) == n_out, f"returns {len(out)} values")
    if len(out) != n_out:
        return
    # the bound
    halts = set()

    def simp(b):
        """n - (n - h) is h: sums and differences are folded (everything else is an atom)."""
        def lin(t):
            if t[0] == "const" and isinstance(t[1], int) and not isinstance(t[1], bool):
                return {1: t[1]}
            if t[0] == "bin" and t[1] in ("+", "-"):
                a, c = lin(t[2]), lin(t[3])
                out = dict(a)
                for k, v in c.items():
                    out[k] = out.get(k, 0) + (v if t[1] == "+" else -v)
                return {k: v for k, v in out.items() if v != 0}
            if t[0] == "neg":
                return {k: -v for k, v in lin(t[1]).items()}
            return {t: 1}
        if b is None:
            return b
        f = lin(b)
        if len(f) == 1 and 1 not in f and next(iter(f.values())) == 1:
            return next(iter(f))
        return b

    def part(t):
        """(which, bound) for perm[:h] / perm[h:]"""
        if t[0] == "idx" and t[1] == perm and t[2][0] == "slice" and t[2][3] is None:
            lo, hi = simp(t[2][1]), simp(t[2][2])
            if lo is None and hi is not None:
                halts.add(hi)
                return "first"
            if hi is None and lo is not None:
                halts.add(lo)
                return "second"
        return None

    def rows(t, arr, two_d):
        if t[0] != "idx" or t[1] != arr:
            return None
        ix = t[2]
        if ix[0] == "tuple":
            if len(ix[1]) == 2 and ix[1][1] == FULL:
                return part(ix[1][0])
            return None
        return part(ix)

    want = [("X", X, "first"), ("X", X, "second"), ("Y", Y, "first"), ("Y", Y, "second")]
    for pos, (nm, arr, which) in enumerate(want):
        got = rows(out[pos], arr, nm == "X")
        rep.fn("SPLIT-part", fi, f"output {pos} is {nm} indexed by the {which} slice of the permutation", got == which,
               f"output {pos} is '{show(out[pos])[:120]}'")
    if with_index:
        for pos, which in ((4, "first"), (5, "second")):
            got = part(out[pos])
            rep.fn("SPLIT-index", fi, f"output {pos} is the {which} slice of the permutation itself", got == which,
                   f"output {pos} is '{show(out[pos])[:120]}'")
    pct = ("param", "percentage")

    def given(t):
        """The bound for a percentage that was passed: `0.5 if percentage is None else percentage` is `percentage`
        (the property speaks about every percentage in [0, 1], not about what stands in for a missing one)."""
        if not isinstance(t, tuple) or not t:
            return t
        t = tuple(given(x) if isinstance(x, tuple) else x for x in t)
        if t[0] == "sel" and t[1][0] == "cmp" and t[1][1] in ("is", "is not") and {t[1][2], t[1][3]} == {pct, ("const", None)}:
            return t[3] if t[1][1] == "is" else t[2]
        return t
    halts = {given(x) for x in halts}
    halt_ok = len(halts) == 1
    h = next(iter(halts)) if halts else None
    forms = [("call", ("builtin", "int"), (("bin", "*", *sorted([s, pct], key=repr)),), ()) for s in sizes]
    rep.fn("SPLIT-bound", fi, "one bound int(len(X) * percentage) separates the two parts", halt_ok and h in forms,
           f"slice bounds used: {[show(x) for x in halts]}")
    return given(rets[-1].value)


def check_merge(rep, repo):
    fi = repo.need_function(SPLIT, "merge")
    from ..rules_premise import values_view
    w = values_view(Walker(repo, fi, inline=inline_same_module_private(fi)))
    rets = [e for e in w.events if e.kind == "return" and e.fn is w.entry]
    ok = False
    if len(rets) == 1 and rets[0].value[0] == "tuple" and len(rets[0].value[1]) == 2:
        x, y = rets[0].value[1]
        okx = x in (("call", ("mod", "numpy.vstack"), (("tuple", (("param", "X_1"), ("param", "X_2"))),), ()),
                    ("call", ("mod", "numpy.concatenate"), (("tuple", (("param", "X_1"), ("param", "X_2"))),), ()))
        oky = y in (("call", ("mod", "numpy.hstack"), (("tuple", (("param", "Y_1"), ("param", "Y_2"))),), ()),
                    ("call", ("mod", "numpy.concatenate"), (("tuple", (("param", "Y_1"), ("param", "Y_2"))),), ()))
        ok = okx and oky
    rep.fn("MERGE", fi, "merge stacks (X_1, X_2) and (Y_1, Y_2) in the same part order", ok,
           f"returns '{show(rets[0].value)[:160] if rets else '?'}'")


def check_parser(rep, repo):
    fi = repo.need_function(PARSER, "parse_loader")
    w = Walker(repo, fi, inline=inline_same_module_private(fi))
    d = ("param", fi.params[0])
    Xt = ("idx", d, ("tuple", (FULL, ("slice", ("const", 2), None, None))))
    Yt = ("idx", d, ("tuple", (FULL, ("const", 1))))
    rets = [e for e in w.events if e.kind == "return" and e.fn is w.entry and e.value[0] == "tuple" and e.value[1][0] != ("const", None)]
    ok = len(rets) == 1 and rets[0].value[1] == (Xt, ("call", ("attr", Yt, "astype"), (("builtin", "int"),), ()))
    rep.fn("PARSE-columns", fi, "features = columns 2.., labels = column 1 cast to int", ok,
           f"returns '{show(rets[0].value)[:160] if rets else '?'}'")
    raises = [e for e in w.events if e.kind == "raise"]
    counts = ("idx", ("call", ("mod", "numpy.unique"), (Yt,), (("return_counts", ("const", True)),)), ("const", 1))
    # the number of distinct labels: the length of np.unique(Y) or of either array of np.unique(Y, return_counts=True)
    uniq = ("call", ("mod", "numpy.unique"), (Yt,), (("return_counts", ("const", True)),))
    bases = [counts, ("idx", uniq, ("const", 0)), ("call", ("mod", "numpy.unique"), (Yt,), ())]
    ns = [f(b) for b in bases for f in (lambda b: ("call", ("builtin", "len"), (b,), ()), lambda b: ("attr", b, "size"),
                                        lambda b: ("idx", ("attr", b, "shape"), ("const", 0)))]
    mx = [("bin", "+", *sorted([("const", 1), ("call", ("mod", f), (Yt,), ())], key=repr)) for f in ("numpy.max", "numpy.amax")]
    from ..ir import facts
    okr = any(facts(e.guards) == (("cmp", "!=", *sorted([n, m], key=repr)),) for e in raises for m in mx for n in ns)
    rep.fn("PARSE-sequential", fi, "non-sequential labels are rejected", okr,
           "expected a raise exactly under len(distinct labels) != max(label) + 1 (no further condition)")
    if rets and raises:
        rep.ev("PARSE-order", rets[0], all(r.seq < rets[0].seq for r in raises), "the check must precede the return")


def facts_guards_own(e, li):
    from ..ir import facts as _f
    return [g for g in _f(e.guards) if g not in _f(li.guards)]


def converter_facts(repo, name):
    fi = repo.need_function(CONV, name)
    w = Walker(repo, fi, inline=inline_same_module_private(fi))
    facts = {}
    unp = [e for e in w.events if e.kind == "call" and e.name == "struct.unpack"]
    hdr = [e for e in unp if e.args and e.args[0][0] == "const"]
    rec = [e for e in unp if e not in hdr]
    if len(hdr) != 1 or len(rec) != 1:
        raise AnalysisError(f"{name}: expected one header and one record struct.unpack")
    # `"f" * max(n_features, 0)`: repeating a string a negative number of times gives the empty string anyway
    import dataclasses as _dc

    def unclamp(t):
        if not isinstance(t, tuple) or not t:
            return t
        if t[0] == "max" and len(t[1]) == 2 and ("const", 0) in t[1]:
            other = [x for x in t[1] if x != ("const", 0)][0]
            return unclamp(other)
        return tuple(unclamp(x) if isinstance(x, tuple) else x for x in t)
    rec = [_dc.replace(e, args=tuple(unclamp(a) for a in e.args), value=unclamp(e.value)) for e in rec]
    facts["header_format"] = hdr[0].args[0]
    H = hdr[0].value
    R = rec[0].value
    facts["record_in_loop_over"] = w.loops[rec[0].loops[-1]].domain if rec[0].loops else None
    fmt = rec[0].args[0]
    H0 = hdr[0].value
    nfeat = [("idx", H0, ("const", 2))]
    closed = [("bin", "+", *sorted([("const", "<ii"), ("bin", "*", *sorted([("const", "f"), nf], key=repr))], key=repr))
              for nf in nfeat]
    if fmt in closed:
        facts["record_format"] = (("const", "<ii"), (("const", "f"),), ("call", ("builtin", "range"), (("idx", H0, ("const", 2)),), ()))
    elif fmt[0] == "phi":
        li = w.loops[fmt[1]]
        init, end = li.carried[fmt[2]]
        facts["record_format"] = (init, tuple(sorted([x for x in end[2:4]], key=repr)) if end[0] == "bin" else end, li.domain)
    else:
        facts["record_format"] = fmt
    facts["H"], facts["R"] = H, R
    # reads use the sizes computed from the formats
    facts["header_read"] = hdr[0].args[1]
    facts["record_read"] = rec[0].args[1]
    app = [e for e in w.events if e.kind == "call" and e.name == "append" and e.loops == rec[0].loops]
    facts["row"] = app[0].args[0] if len(app) == 1 else None
    sv = [e for e in w.events if e.kind == "call" and e.name in ("numpy.savetxt", "json.dump")]
    facts["writer"] = sv[0] if len(sv) == 1 else None
    if facts["row"] is None and rec[0].loops:
        # rows placed by position into a list allocated with one slot per sample: `rows = [None] * n; rows[i] = T` with i
        # the counter of the record loop over range(n) - the same list as the one built by appending T, n times
        li_r = w.loops[rec[0].loops[-1]]
        dom_r = li_r.domain
        st = [e for e in w.events if e.kind == "store" and e.loops == rec[0].loops and e.target[0] == "idx" and not e.aug
              and e.target[2] == ("iter", dom_r, li_r.lid)]
        if len(st) == 1 and dom_r is not None and dom_r[0] == "call" and dom_r[1] == ("builtin", "range") and len(dom_r[2]) == 1:
            L = st[0].target[1]
            n_t = dom_r[2][0]
            slot = lambda t: t[0] == "alloc" and t[1] == "list" and len(t[2]) == 1
            if L[0] == "bin" and L[1] == "*" and ((slot(L[2]) and L[3] == n_t) or (slot(L[3]) and L[2] == n_t)) \
                    and not facts_guards_own(st[0], li_r):
                facts["row"] = st[0].value
                facts["rows_list"] = L
    if facts["row"] is None and sv:
        # comprehension form: the written object is (or contains under "data") a list comprehension of rows
        obj = sv[0].args[1] if sv[0].name == "numpy.savetxt" and len(sv[0].args) > 1 else (sv[0].args[0] if sv[0].args else None)
        if obj is not None and obj[0] == "dict":
            for k, v in obj[1]:
                if k == ("const", "data"):
                    obj = v
        if obj is not None and obj[0] == "listcomp":
            facts["row"] = obj[1]
            facts["row_from_listcomp"] = True
    if facts["row"] is not None and sv and len(app) == 1:
        # rows collected first (xs.append(T)) and re-shaped by a comprehension over xs when written
        obj = sv[0].args[1] if sv[0].name == "numpy.savetxt" and len(sv[0].args) > 1 else (sv[0].args[0] if sv[0].args else None)
        if obj is not None and obj[0] == "dict":
            for k, v in obj[1]:
                if k == ("const", "data"):
                    obj = v
        T = facts["row"]
        if obj is not None and obj[0] == "listcomp" and len(obj[2]) == 1 and not obj[2][0][2] \
                and obj[2][0][0] == app[0].target[1] and T[0] == "tuple":
            facts["row"] = _through_rows(obj[1], T, obj[2][0][0], obj[2][0][1])
            facts["row_from_listcomp"] = True
    facts["row"] = _unlist_stars(facts["row"])
    if facts["row"] is not None:
        facts["row"] = unclamp(facts["row"])
    facts["walker"] = w
    facts["fi"] = fi
    return facts


def _unlist_stars(t):
    """`*list(xs)` inside a display contributes the same items as `*xs`; list(list(xs)) is list(xs)."""
    if not isinstance(t, tuple) or not t:
        return t
    t = tuple(_unlist_stars(x) for x in t)
    if t[0] == "star" and len(t) == 2 and isinstance(t[1], tuple) and t[1][:2] == ("alloc", "builtin.list") \
            and len(t[1][2]) == 1:
        return ("star", t[1][2][0])
    if t[:2] == ("alloc", "builtin.list") and len(t[2]) == 1 and isinstance(t[2][0], tuple) \
            and t[2][0][:2] == ("alloc", "builtin.list") and len(t[2][0][2]) == 1:
        return t[2][0]
    return t


def _through_rows(elt, T, dom, lid):
    """The comprehension's element with every projection of the iterated row replaced by that component of the
    appended tuple T = (a_0, ..., a_{k-1}, *X):  row[i] -> a_i,  row[k:] -> X."""
    items = T[1]
    fixed = []
    for x in items:
        if x[0] == "star":
            break
        fixed.append(x)
    tail = items[len(fixed)][1] if len(fixed) < len(items) and len(items) == len(fixed) + 1 else None
    row = ("iter", dom, lid)

    def R(t):
        if not isinstance(t, tuple) or not t:
            return t
        if t[0] == "iterproj" and t[1] == dom and t[2] == lid and len(t[3]) == 1 and isinstance(t[3][0], int) \
                and t[3][0] < len(fixed):
            return fixed[t[3][0]]
        if t[0] == "idx" and t[1] == row and t[2][0] == "const" and isinstance(t[2][1], int) and 0 <= t[2][1] < len(fixed):
            return fixed[t[2][1]]
        if t[0] == "idx" and t[1] == row and t[2] == ("slice", ("const", len(fixed)), None, None) and tail is not None:
            return tail
        return tuple(R(x) for x in t)
    return R(elt)


def check_converters(rep, repo):
    F = {n: converter_facts(repo, n) for n in ("opf2txt", "opf2csv", "opf2json")}
    for name, f in F.items():
        fi = f["fi"]
        H, R = f["H"], f["R"]
        rep.fn("CONV-header", fi, "header is '<iii' (samples, classes, features)", f["header_format"] == ("const", "<iii"),
               f"header format {show(f['header_format'])}")
        okl = f["record_in_loop_over"] == ("call", ("builtin", "range"), (("idx", H, ("const", 0)),), ())
        rep.fn("CONV-samples", fi, "one record is read per sample (header field 0)", okl,
               f"record loop over {show(f['record_in_loop_over'])}")
        rf = f["record_format"]
        okf = isinstance(rf, tuple) and len(rf) == 3 and rf[0] == ("const", "<ii") and \
            rf[2] == ("call", ("builtin", "range"), (("idx", H, ("const", 2)),), ()) and \
            isinstance(rf[1], tuple) and ("const", "f") in rf[1]
        rep.fn("CONV-record", fi, "record is '<ii' + 'f' * n_features (header field 2)", okf,
               f"record format {rf if not isinstance(rf, tuple) else [show(x) if isinstance(x, tuple) and x and isinstance(x[0], str) else x for x in rf]}")
        okread = f["header_read"][0] == "call" and f["header_read"][2] == (("call", ("mod", "struct.calcsize"), (f["header_format"],), ()),)
        rep.fn("CONV-header-size", fi, "the header read has the size of the header format", okread, "")
        lab = ("bin", "-", ("idx", R, ("const", 1)), ("const", 1))
        idt = ("idx", R, ("const", 0))
        feats = ("idx", R, ("slice", ("const", 2), None, None))
        row = f["row"]
        if name == "opf2json":
            want_keys = {"id": idt, "label": lab}
            okrow = row is not None and row[0] == "dict"
            if okrow:
                d = {k[1]: v for k, v in row[1] if k[0] == "const"}
                ft = d.get("features")
                while ft is not None and ft[0] == "alloc" and ft[1] == "builtin.list" and len(ft[2]) == 1:
                    ft = ft[2][0]
                # [float(v) for v in data[2:]]: the 'f' fields are floats already
                if ft is not None and ft[0] == "listcomp" and len(ft[2]) == 1 and not ft[2][0][2] and ft[2][0][0] == feats \
                        and ft[1] in (("iter", feats, ft[2][0][1]), ("call", ("builtin", "float"), (("iter", feats, ft[2][0][1]),), ())):
                    ft = feats
                okrow = d.get("id") == idt and d.get("label") == lab and ft == feats and set(d) == {"id", "label", "features"}
            wr = f["writer"]
            okw = wr is not None and wr.name == "json.dump"
            if okw:
                top = wr.args[0]
                okw = top[0] == "dict" and [k for k, _ in top[1]] == [("const", "data")]
        else:
            okrow = row == ("tuple", (idt, lab, ("star", feats)))
            wr = f["writer"]
            delim = {"opf2txt": " ", "opf2csv": ","}[name]
            okw = wr is not None and wr.name == "numpy.savetxt" and dict(wr.kwargs).get("delimiter") == ("const", delim) \
                and set(dict(wr.kwargs)) <= {"delimiter", "fmt"} and dict(wr.kwargs).get("fmt", ("const", "%.18e")) == ("const", "%.18e")  # (the default format spelt out)
            if okw and len(wr.args) > 1:
                # ... and the table is not narrowed on the way: a dtype / astype other than double loses digits
                from ..ir import subterms as _sub
                wide = {("mod", "numpy.float64"), ("mod", "numpy.double"), ("builtin", "float"), ("const", "float64"), ("const", "float"),
                        ("mod", "numpy.longdouble")}
                for u in _sub(wr.args[1]):
                    if u[0] == "call" and dict(u[3]).get("dtype") is not None and dict(u[3])["dtype"] not in wide:
                        okw = False
                    if u[0] == "call" and u[1][0] == "attr" and u[1][2] == "astype" and (not u[2] or u[2][0] not in wide):
                        okw = False
            f["delimiter"] = dict(wr.kwargs).get("delimiter") if wr is not None else None
            if okw and f.get("rows_list") is not None:
                # ... and what it writes is the list the rows were placed in
                from ..ir import subterms
                okw = len(wr.args) > 1 and any(u == f["rows_list"] for u in subterms(wr.args[1]))
        rep.fn("CONV-row", fi, "each sample is written as (id, label - 1, features...)", bool(okrow),
               f"row is '{show(row)[:160] if row else '?'}'")
        rep.fn("CONV-writer", fi, "the writer uses the extension's delimiter / the 'data' key and no lossy format", bool(okw),
               f"writer call: {f['writer'].text()[:120] if f['writer'] is not None else '?'}")
    # loaders
    for ext, loader, delim in (("txt", "load_txt", " "), ("csv", "load_csv", ",")):
        fi = repo.need_function(LOADER, loader)
        w = Walker(repo, fi, inline=inline_same_module_private(fi))
        calls = [e for e in w.events if e.kind == "call" and e.name == "numpy.loadtxt"]
        ok = len(calls) == 1 and calls[0].args[:1] == (("param", fi.params[0]),) \
            and dict(calls[0].kwargs).get("delimiter") == ("const", delim) and set(dict(calls[0].kwargs)) <= {"delimiter", "ndmin", "dtype"} \
            and dict(calls[0].kwargs).get("ndmin", ("const", 2)) == ("const", 2) \
            and dict(calls[0].kwargs).get("dtype", ("builtin", "float")) in (("builtin", "float"), ("mod", "numpy.float64"), ("mod", "numpy.double"))
        # (ndmin=2: a one-row file stays a table; dtype=float64 is the default spelt out)
        rep.fn("LOAD-text", fi, f"{loader} parses '{delim}'-separated float64 text", ok,
               f"loader call: {calls[0].text()[:120] if calls else '?'} (a dtype narrower than float64 rounds identifiers "
               "and features; another delimiter cannot read what the converter writes)")
    fi = repo.need_function(LOADER, "load_json")
    w = Walker(repo, fi, inline=inline_same_module_private(fi))
    okj = False
    hs = [e for e in w.events if e.kind == "call" and e.name == "numpy.hstack"]
    if len(hs) == 1:
        a = hs[0].args[0] if hs[0].args else None
        if a is not None and a[0] == "tuple" and len(a[1]) == 2:
            m, ft = a[1]
            # features = asarray(D["features"]) for the record D of the iteration over <json>["data"]
            D = None
            if ft[0] == "call" and ft[1] == ("mod", "numpy.asarray") and len(ft[2]) == 1 and ft[2][0][0] == "idx" \
                    and ft[2][0][2] == ("const", "features"):
                D = ft[2][0][1]
            def record(D):
                """D is the record of one pass over <json>["data"] (element loop, or enumerate with D = data[position])."""
                data = lambda t: t[0] == "idx" and t[2] == ("const", "data")
                if D[0] == "iter" and data(D[1]):
                    return True
                if D[0] == "iterproj" and D[3] == (1,) and D[1][0] == "call" and D[1][1] == ("builtin", "enumerate") \
                        and len(D[1][2]) == 1 and data(D[1][2][0]):
                    return True
                return D[0] == "idx" and data(D[1]) and D[2][0] == "iterproj" and D[2][3] == (0,) \
                    and D[2][1] == ("call", ("builtin", "enumerate"), (D[1],), ())
            if D is not None and record(D):
                def reads(t, k):
                    # D[k], or D.get(k, <default>): every record the converter writes has the key (rule CONV-row)
                    return t == ("idx", D, ("const", k)) or (
                        t[0] == "call" and t[1] == ("attr", D, "get") and t[2][:1] == (("const", k),) and len(t[2]) == 2 and not t[3])
                if m[0] == "call" and m[1] == ("mod", "numpy.asarray") and m[2] and m[2][0][0] == "alloc" \
                        and m[2][0][1] == "list":
                    pair = m[2][0][2]
                    okj = len(pair) == 2 and reads(pair[0], "id") and reads(pair[1], "label")
    rep.fn("LOAD-json", fi, "load_json rebuilds rows as (id, label, features...) from the 'data' list", okj,
           "the JSON loader must read the keys the converter writes, in id, label, features order")
    # Subgraph._load dispatch
    fi = repo.need_method("Subgraph", "_load")
    w = Walker(repo, fi, self_class="Subgraph", inline=inline_same_module_private(fi))
    ext_t = ("idx", ("call", ("attr", ("param", fi.params[1]), "split"), (("const", "."),), ()), ("const", -1))
    from ..schema import extension_dispatch
    disp = extension_dispatch(w, ext_t, ("csv", "txt", "json"), LOADER)
    rep.fn("LOAD-dispatch", fi, f"extension -> loader: {disp}",
           disp == {"csv": "load_csv", "txt": "load_txt", "json": "load_json"},
           "each extension must be read by its own loader")
    pl = [e for e in w.events if e.kind == "call" and e.target == ("mod", PARSER + ".parse_loader")]
    rep.fn("LOAD-parse", fi, "loaded data goes through parse_loader", len(pl) == 1, "")


def check(chk, repo):
    _check(chk, repo)
    # identifiers handed to the graph constructors (e.g. the index arrays of split_with_index) reach the nodes
    from .c10 import check_constructor_forwarding
    check_constructor_forwarding(Rep(chk, repo), repo)


def _check(chk, repo):
    chk.explanation = EXPLANATION
    rep = Rep(chk, repo)
    a = check_split(rep, repo, "split", False)
    b = check_split(rep, repo, "split_with_index", True)
    if a is not None and b is not None:
        from ..schema import rewrite

        X, Y = ("param", "X"), ("param", "Y")
        sizes = [("idx", ("attr", X, "shape"), ("const", 0)), ("call", ("builtin", "len"), (X,), ()),
                 ("idx", ("attr", Y, "shape"), ("const", 0)), ("call", ("builtin", "len"), (Y,), ())]

        def norm(t):
            def f(s):
                if s in sizes:
                    return ("free", "N")
                if s[0] == "alloc":
                    return ("alloc", s[1], rewrite(s[2], f), rewrite(s[3], f))
                return None
            return rewrite(t, f)

        same = norm(a)[1][:4] == norm(b)[1][:4]
        rep.fn("SPLIT-siblings", repo.need_function(SPLIT, "split_with_index"),
               "split and split_with_index produce the same four arrays", same,
               "the two splitters disagree on how X and Y are divided")
    check_merge(rep, repo)
    check_parser(rep, repo)
    check_converters(rep, repo)
    for modname in (SPLIT, LOADER, PARSER, CONV):
        for fi in repo.module(modname).functions.values():
            rep.fn("STREAM-undecorated", fi, f"{fi.name} is a plain function", not fi.decorators,
                   f"{fi.name} is wrapped by {fi.decorators}: cached or altered results are not a function of the file / arguments")
    # a file's content is a function of the file converted: no container shared between calls (mutable defaults)
    from ..rules_premise import check_mutable_defaults
    check_mutable_defaults(rep, repo, "STREAM-")
    chk.floor("converters analysed", 3, 3)
    chk.undecided.append("float32 exactness of the text/JSON round trip (np.savetxt '%.18e' and json repr are exact; library behaviour)")
    chk.assumptions.append("np.random.permutation after np.random.seed(s) is a deterministic function of s")
