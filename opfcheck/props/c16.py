"""C16: the neighbourhood size chosen by training is the best candidate (best-so-far idiom)."""

from ..common import model_walk
from ..core import AnalysisError
from ..ir import show, subterms
from ..rules_ift import Rep
from ..rules_scan import find_best_scans

EXPLANATION = (
    "Control-structure rules (R-BEST) on KNNSupervisedOPF._learn and UnsupervisedOPF._best_minimum_cut, both "
    "analysed as reached from fit with helpers inlined: candidates are range(lo, hi + 1) in ascending order "
    "with step 1 (lo = 1 / min_k, hi = max_k); in each iteration the model is (re)built with THAT k - arcs / "
    "pdf / clustering receive the loop variable - before the criterion is computed; the criterion is "
    "opf_accuracy(<validation labels>, predict(<validation features>)) with the argument roles checked / the "
    "value returned by _normalized_cut(k); the comparison is strict in the improving direction, so the "
    "smallest k wins ties; the improving branch assigns both the best value and best_k = k; the sentinel is "
    "strictly outside the criterion's range (accuracy in [0,1] -> negative; finite non-negative cut -> "
    "FLOAT_MAX), or best_k is pre-initialised to lo; after the loop subgraph.best_k receives the winner, it is "
    "not overwritten before the final create_arcs / calculate_pdf / _clustering, and those receive it; the "
    "unsupervised loop evaluates a candidate iff the best cut so far is != 0. The numeric fact 'highest "
    "accuracy' is then a consequence, not separately decided."
)


def loop_of(w, fn_name, line_hint=None):
    out = []
    for li in w.loops.values():
        if li.fn.name == fn_name and li.kind == "for" and find_best_scans(w, li):
            out.append(li)
    return out


def report_detached(rep, w, fn_name) -> bool:
    """No best-so-far scan was found: if a winner is recorded under a comparison with a carried value that is not
    updated exactly there, that is the violation (not an unrecognised construct)."""
    from ..rules_scan import find_detached_scans
    hit = False
    for li in w.loops.values():
        if li.fn.name != fn_name or li.kind != "for":
            continue
        # (b) the winner is recorded under a comparison with a value that never changes in the loop
        from ..ir import subterms
        k_it = ("iter", li.domain, li.lid)
        for n2, (i2, e2) in li.carried.items():
            t = e2
            while t[0] == "sel":
                c = t[1]
                if c[0] == "cmp" and c[1] in ("<", "<=") and t[3] == ("phi", li.lid, n2) and t[2] == k_it:
                    sides = [c[2], c[3]]
                    def varying(x):
                        for u in subterms(x):
                            if u[0] == "phi" and (u[1] == li.lid or (u[1] in w.loops and li.lid in w.loops[u[1]].loops)):
                                return True
                            if u[0] in ("iter", "iterproj") and u[2] == li.lid:
                                return True
                            if u[0] in ("call", "ret"):
                                return True
                        return False
                    inv = [x for x in sides if not varying(x)]
                    if len(inv) == 1:
                        hit = True
                        rep.fn("BEST-running", li.fn, f"the value '{n2}' is compared with is the best value seen so far", False,
                               f"candidates are accepted under '{show(c)[:100]}', whose reference '{show(inv[0])[:40]}' never changes "
                               "in the loop: every candidate that beats the START value wins, the last one is kept", line=li.line)
                t = t[2] if t[3] == ("phi", li.lid, n2) else t[3]
        for m, c, end in find_detached_scans(w, li):
            hit = True
            rep.fn("BEST-running", li.fn, f"the running best '{m}' is updated exactly when a candidate is accepted", False,
                   f"candidates are accepted under '{show(c)[:100]}' but '{m}' becomes '{show(end)[:100]}' on every path: "
                   "the comparison is no longer against the best value seen so far", line=li.line)
    return hit


def report_argmin_form(rep, w, fn_name) -> bool:
    """Selection written as "store criterion(k) per candidate in a container, pick argmin / argmax / max(.., key=..)
    after the loop". Only necessary conditions are decided for that spelling; returns True when one is violated:
    * the container is allocated in this call (a dict / list kept on the object collects candidates of earlier fits);
    * a position is turned back into a candidate with the first candidate as offset (`argmin(values) + lo`)."""
    from ..ir import root_object, subterms
    from ..rules_heap import _sub, lin, lin_eq
    hit = False
    PICK = (("mod", "numpy.argmin"), ("mod", "numpy.argmax"), ("builtin", "max"), ("builtin", "min"))
    for li in w.loops.values():
        if li.fn.name != fn_name or li.kind != "for" or li.domain is None:
            continue
        dom = li.domain
        lo = None
        if dom[0] == "call" and dom[1] == ("builtin", "range") and len(dom[2]) == 2:
            lo = dom[2][0]
        elif dom[0] == "call" and dom[1] == ("builtin", "enumerate") and dom[2] and dom[2][0][0] == "call" \
                and dom[2][0][1] == ("builtin", "range") and len(dom[2][0][2]) == 2:
            lo = dom[2][0][2][0]
        elif dom[0] == "call" and dom[1] == ("builtin", "range") and len(dom[2]) == 1:
            lo = ("const", 0)
        # containers written once per candidate inside the loop
        conts = set()
        for e in w.events:
            if li.lid not in e.loops:
                continue
            if e.kind == "call" and e.name == "append" and e.target[0] == "attr":
                conts.add(e.target[1])
            if e.kind == "store" and e.target[0] == "idx" and not e.aug:
                conts.add(e.target[1])
        for e in w.events:
            if e.seq <= li.last_seq or e.kind not in ("bind", "store"):
                continue
            for t in subterms(e.value):
                if t[0] != "call" or t[1] not in PICK or not t[2]:
                    continue
                arg = t[2][0]
                base = arg[1] if arg[0] == "idx" and arg[2][0] == "slice" else arg
                if base not in conts:
                    continue
                r = root_object(base)
                if r == ("self",) or (r[0] not in ("alloc", "listcomp", "dict") and base[0] != "alloc"):
                    hit = True
                    rep.ev("BEST-stale-candidates", e, False,
                           f"the best candidate is picked from '{show(base)[:60]}', which is not created in this call: values "
                           "stored by an earlier fit (other data, other range of k) take part in the selection")
            if lo is None:
                continue
            for t in subterms(e.value):
                if t[0] == "bin" and t[1] == "+":
                    for x, off in ((t[2], t[3]), (t[3], t[2])):
                        inner = [u for u in subterms(x) if u[0] == "call" and u[1] in PICK[:2] and u[2]
                                 and (u[2][0] in conts or (u[2][0][0] == "idx" and u[2][0][1] in conts))]
                        if inner and not lin_eq(_sub(lin(off), lin(lo)), {}):
                            hit = True
                            rep.ev("BEST-argmin-offset", e, False,
                                   f"the position of the best value is turned into a candidate with offset '{show(off)}' but the "
                                   f"first candidate is '{show(lo)}': for any other lower bound the selected neighbourhood size is shifted")
    return hit


def check_range(rep, fn, li, lo_ok, hi):
    dom = li.domain
    ok = False
    if dom[0] == "call" and dom[1] == ("builtin", "range") and len(dom[2]) == 2:
        lo, up = dom[2]

        def unclamp(t):
            """min(k, n - 1) with n the number of training samples is k for every k the models can be built with (a
            sample has at most n - 1 neighbours; larger values fail in create_arcs): the clamp is dropped."""
            if not isinstance(t, tuple) or not t:
                return t
            if t[0] == "min" and len(t) == 2 and isinstance(t[1], tuple) and len(t[1]) == 2:
                a, b = t[1]
                for x, y in ((a, b), (b, a)):
                    if y[0] == "bin" and y[1] == "-" and y[3] == ("const", 1) and (
                            (y[2][0] == "call" and y[2][1] == ("builtin", "len") and len(y[2][2]) == 1
                             and (y[2][2][0] == ("param", "X_train") or (y[2][2][0][0] == "attr" and y[2][2][0][2] == "nodes")))
                            or (y[2][0] == "attr" and y[2][2] == "n_nodes")):
                        return x
            if isinstance(t, tuple):
                return tuple(unclamp(x) if isinstance(x, tuple) else x for x in t)
            return t
        lo2, up2 = unclamp(lo), unclamp(up)
        ok = lo_ok(lo) and up == ("bin", "+", *sorted([("const", 1), hi], key=repr))
        if not ok and (lo2, up2) != (lo, up):
            from ..rules_heap import _sub, lin, lin_eq
            ok = lo_ok(lo2) and lin_eq(_sub(lin(up2), lin(hi)), {1: 1})
    rep.fn("BEST-range", fn, f"for k in {show(dom)}", ok,
           "candidates must be every k from the lower bound to max_k inclusive, ascending, step 1", line=li.line)
    return ("iter", dom, li.lid)


def final_uses(rep, w, li, G, bestk_name, k, first_after=None):
    """After the loop: subgraph.best_k = winner, and the final build uses it."""
    winner = ("phi", li.lid, bestk_name)
    st = [e for e in w.events if e.kind == "store" and e.target == ("attr", G, "best_k") and e.seq > li.last_seq]
    # (a later `best_k = <best_k as just stored>` - the final build re-installing what it read - changes nothing)
    ok = len(st) >= 1 and st[0].value == winner and all(s.value in (winner, s.target) for s in st)
    rep.fn("BEST-install", li.fn, "subgraph.best_k = the winning k after the loop", ok,
           f"after the loop best_k receives '{show(st[0].value) if st else 'nothing'}'", line=li.line)
    finals = [e for e in w.events if e.seq > li.last_seq and e.kind == "call" and e.name in ("create_arcs", "calculate_pdf")]
    okf = len(finals) >= 2
    for e in finals:
        a = e.args[0] if e.args else None
        good = a == winner or a == ("attr", G, "best_k") or (a is not None and a[0] == "old" and a[1] == ("attr", G, "best_k"))
        rep.ev("BEST-final-build", e, good and (not st or e.seq > st[0].seq or a == winner),
               f"the final {e.name} must be called with the winning k; got '{show(a) if a else '?'}'")
    rep.fn("BEST-final-present", li.fn, "the final model is rebuilt (arcs + pdf) after the selection", okf,
           f"found {len(finals)} build call(s) after the loop", line=li.line)


def _report_truthy(rep, w) -> bool:
    """The best value so far starts as None and "no candidate yet" is tested by truthiness: a best value of exactly 0 is
    falsy too, so it is replaced by any later candidate (ir.settle_optional_minima records the site)."""
    hits = getattr(w, "truthy_optional", None)
    if not hits:
        return False
    v, lid, e0 = hits[0]
    rep.ev("BEST-none-test", e0, False,
           f"'{v}' starts as None and 'nothing selected yet' is tested by truthiness (`not {v} or ...`): a best value of exactly 0 "
           "counts as nothing selected, so a later candidate that is no better replaces the incumbent k")
    return True


def check_knn(chk, rep, repo):
    w = model_walk(repo, "KNNSupervisedOPF", "fit")
    G = ("attr", ("self",), "subgraph")
    loops = loop_of(w, "_learn")
    if not loops and (report_detached(rep, w, "_learn") or report_argmin_form(rep, w, "_learn")):
        return 1
    if not loops and _report_truthy(rep, w):
        return 1
    if len(loops) != 1:
        raise AnalysisError(f"KNNSupervisedOPF._learn: expected one selection loop, found {len(loops)}")
    li = loops[0]
    fn = li.fn
    k = check_range(rep, fn, li, lambda lo: lo == ("const", 1), ("attr", ("self",), "max_k"))
    scans = find_best_scans(w, li)
    bs = scans[0]
    rep.fn("BEST-strict", fn, f"if acc > {bs.best}", bs.relation == "best<cand",
           f"relation is {bs.relation}: with a non-strict test a later k replaces an equally good smaller k; "
           "with the reversed test the worst k is kept", line=li.line)
    # criterion
    acc = bs.cand
    okc = False
    detail = f"criterion is '{show(acc)[:160]}'"
    if acc[0] == "call" and acc[1] == ("mod", "opfython.math.general.opf_accuracy") and len(acc[2]) == 2:
        labels, preds = acc[2]
        okp = preds[0] == "call" and preds[1] == ("attr", ("self",), "predict") and preds[2][:1] == (("param", "X_val"),)
        oki = len(preds[2]) < 2 or preds[2][1] == ("param", "I_val") if okp else False
        okc = labels == ("param", "Y_val") and okp and oki
        if labels != ("param", "Y_val") and okp:
            detail = "opf_accuracy must receive (validation labels, predictions): the roles are swapped or wrong"
    rep.fn("BEST-criterion", fn, "criterion = opf_accuracy(Y_val, self.predict(X_val, I_val))", okc, detail, line=li.line)
    # companions
    comp = {n: v for n, v in bs.companions.items() if v[1] == k}
    rep.fn("BEST-winner", fn, "the improving branch records best_k = k", len(comp) == 1,
           f"companions of the best value: { {n: show(v[1])[:40] for n, v in bs.companions.items()} }", line=li.line)
    if len(comp) != 1:
        return 1
    bname, (binit, _) = next(iter(comp.items()))
    # sentinel
    s = bs.init
    neg = s[0] == "const" and isinstance(s[1], (int, float)) and not isinstance(s[1], bool) and s[1] < 0
    from ..ir import is_neg_float_max
    neg = neg or is_neg_float_max(s)  # (also what a start of None, "nothing yet", amounts to: every accuracy beats it)
    pre = binit == ("const", 1)
    rep.fn("BEST-sentinel", fn, f"{bs.best} starts at {show(s)}; {bname} starts at {show(binit)}", neg or pre,
           "opf_accuracy ranges over [0, 1]: a start value of 0 (or more) is attainable, and with the strict test no "
           "candidate is then selected (best_k unbound)", line=li.line)
    # model built with k before the criterion
    pred_ev = [e for e in w.events if e.kind == "call" and e.name == "predict" and li.lid in e.loops]
    build = [e for e in w.events if e.kind == "call" and e.name in ("create_arcs", "calculate_pdf") and li.lid in e.loops]
    okb = len(build) == 2 and pred_ev and all(e.args[:1] == (k,) and e.seq < pred_ev[0].seq for e in build)
    rep.fn("BEST-built-with-k", fn, "arcs and pdf are built with the candidate k before it is evaluated", bool(okb),
           "create_arcs / calculate_pdf in the loop must receive the loop variable and precede predict", line=li.line)
    stk = [e for e in w.events if e.kind == "store" and e.target == ("attr", G, "best_k") and li.lid in e.loops]
    oks = len(stk) == 1 and stk[0].value == k and pred_ev and stk[0].seq < pred_ev[0].seq
    rep.fn("BEST-predict-k", fn, "predict inside the loop runs with subgraph.best_k = k", bool(oks),
           "subgraph.best_k must be set to the candidate before predict (predict reads it)", line=li.line)
    clus = [e for e in w.events if e.kind == "call" and e.name == "<inline>" and li.lid in e.loops
            and e.target[1].endswith("._clustering")]
    rep.fn("BEST-clustered", fn, "the candidate model is clustered before it is evaluated",
           len(clus) == 1 and pred_ev and clus[0].seq < pred_ev[0].seq and all(b.seq < clus[0].seq for b in build),
           "_clustering must run after arcs/pdf and before predict", line=li.line)
    final_uses(rep, w, li, G, bname, k)
    return 1


def check_uns(chk, rep, repo):
    w = model_walk(repo, "UnsupervisedOPF", "fit")
    G = ("attr", ("self",), "subgraph")
    loops = loop_of(w, "_best_minimum_cut")
    if not loops and (report_detached(rep, w, "_best_minimum_cut") or report_argmin_form(rep, w, "_best_minimum_cut")):
        return 1
    if not loops and _report_truthy(rep, w):
        return 1
    if len(loops) != 1:
        raise AnalysisError(f"UnsupervisedOPF._best_minimum_cut: expected one selection loop, found {len(loops)}")
    li = loops[0]
    fn = li.fn
    k = check_range(rep, fn, li, lambda lo: lo == ("attr", ("self",), "min_k"), ("attr", ("self",), "max_k"))
    bs = find_best_scans(w, li)[0]
    rep.fn("BEST-strict", fn, f"if cut < {bs.best}", bs.relation == "cand<best",
           f"relation is {bs.relation}: the smallest k with the lowest cut must be kept", line=li.line)
    # criterion = value returned by _normalized_cut(k)
    inl = [e for e in w.events if e.kind == "call" and e.name == "<inline>" and li.lid in e.loops
           and e.target[1].endswith("._normalized_cut")]
    okc = False
    if len(inl) == 1 and inl[0].args == (k,):
        rets = [e for e in w.events if e.kind == "return" and e.fn.name == "_normalized_cut" and e.seq > inl[0].seq
                and li.lid in e.loops]
        okc = len(rets) == 1 and rets[0].value == bs.cand
    elif bs.cand == ("call", ("attr", ("self",), "_normalized_cut"), (k,), ()):
        okc = True
    rep.fn("BEST-criterion", fn, "criterion = self._normalized_cut(k)", okc,
           f"the value compared is '{show(bs.cand)[:120]}'", line=li.line)
    comp = {n: v for n, v in bs.companions.items() if v[1] == k}
    rep.fn("BEST-winner", fn, "the improving branch records best_k = k", len(comp) == 1,
           f"companions: { {n: show(v[1])[:40] for n, v in bs.companions.items()} }", line=li.line)
    if len(comp) != 1:
        return 1
    bname, (binit, _) = next(iter(comp.items()))
    rep.fn("BEST-sentinel", fn, f"{bs.best} starts at {show(bs.init)}", bs.init == ("K", "FLOAT_MAX")
           or binit == ("attr", ("self",), "min_k"),
           "the normalised cut is finite and >= 0: the start value must be FLOAT_MAX (or best_k pre-set to min_k)",
           line=li.line)
    stop = ("cmp", "!=", *sorted([("const", 0.0), ("phi", li.lid, bs.best)], key=repr))
    # (a candidate whose cut is NaN or infinite may be skipped: the cut is a sum of non-negative ratios, so a non-finite
    # value is NaN or +inf and never below the running minimum)
    from ..ir import mk_not

    def harmless(t):
        if t[0] == "or":
            return all(harmless(u) for u in t[1])
        if t[0] == "and":
            return any(harmless(u) for u in t[1])
        if t[0] == "call" and t[1] in (("mod", "numpy.isnan"), ("mod", "math.isnan"), ("mod", "numpy.isinf"), ("mod", "math.isinf")):
            return t[2] == (bs.cand,) and not t[3]
        if t[0] == "not" and t[1][0] == "call" and t[1][1] in (("mod", "numpy.isfinite"), ("mod", "math.isfinite")):
            return t[1][2] == (bs.cand,) and not t[1][3]
        return False
    okg = [g for g in bs.outer_guards if not harmless(mk_not(g))] in ([stop], [])
    rep.fn("BEST-early-stop", fn, "a candidate is evaluated iff the best cut so far is != 0", okg,
           f"guards around the evaluation: {[show(g)[:80] for g in bs.outer_guards]}", line=li.line)
    # model built with k before the criterion
    if inl:
        pdf = [e for e in w.events if e.kind == "call" and e.name == "calculate_pdf" and li.lid in e.loops]
        clus = [e for e in w.events if e.kind == "call" and e.name == "<inline>" and li.lid in e.loops
                and e.target[1].endswith("._clustering")]
        okb = len(pdf) == 1 and pdf[0].args[:1] == (k,) and len(clus) == 1 and clus[0].args == (k,) \
            and pdf[0].seq < clus[0].seq < inl[0].seq
        rep.fn("BEST-built-with-k", fn, "pdf and clustering are computed with the candidate k before the cut", okb,
               "calculate_pdf(k, ...) then _clustering(k) must precede _normalized_cut(k)", line=li.line)
        dens = [e for e in w.events if e.kind == "store" and e.target == ("attr", G, "density") and li.lid in e.loops]
        okd = len(dens) == 1 and pdf and dens[0].seq < pdf[0].seq and dens[0].value[0] in ("idx", "old")
        if okd:
            v = dens[0].value
            while v[0] == "old":
                v = v[1]
            from ..rules_heap import _sub, lin, lin_eq
            okd = v[0] == "idx" and lin_eq(_sub(lin(v[2]), lin(k)), {1: -1})
        rep.fn("BEST-density-k", fn, "the density bound of candidate k is the k-th rank maximum (index k-1)", bool(okd),
               "subgraph.density must be max_distances[k - 1] before the pdf of candidate k", line=li.line)
    final_uses(rep, w, li, G, bname, k)
    # fit's final clustering uses the winner
    fin = [e for e in w.events if e.kind == "call" and e.name == "<inline>" and e.target[1].endswith("._clustering")
           and e.seq > li.last_seq]
    okf = len(fin) == 1 and fin[0].args and (fin[0].args[0] == ("attr", G, "best_k")
                                              or fin[0].args[0] == ("phi", li.lid, bname))
    rep.fn("BEST-final-clustering", w.entry, "the final clustering uses the selected k", okf,
           "fit must cluster with subgraph.best_k after the selection")
    return 1


def check_normalized_cut(rep, repo):
    """The criterion of the unsupervised selection is the normalised cut of the k-nn graph:
    sum over clusters c of E_c / (I_c + E_c), where I_c / E_c accumulate 1 / d(i, j) over the arcs (i, j), j in the
    adjacency prefix of i (plateau arcs + k neighbours), d > 0, with cluster(i) = c and cluster(j) equal / different."""
    import dataclasses
    from ..ir import facts, has_guard, mk_cmp, mk_not
    from ..schema import as_selector, is_matrix_read, is_metric_call, node_loop, weight_names_pair
    from ..termalg import TermAlgebra
    from ..rules_heap import _sub, lin, lin_eq
    w = model_walk(repo, "UnsupervisedOPF", "_normalized_cut")
    fn = w.entry
    for e in w.events:
        if e.kind == "call" and {"out", "where"} & set(dict(e.kwargs or ())):
            raise AnalysisError(f"UnsupervisedOPF._normalized_cut: `{e.text()[:70]}` is a masked / in-place whole-array operation; "
                                "the cut rules read the per-cluster sum as a scalar loop")
    G = ("attr", ("self",), "subgraph")
    kparam = ("param", fn.params[1])
    acc = []
    for e in w.events:
        if e.kind == "store" and e.aug == "+" and e.target[0] == "idx":
            base = e.target[1]
            if base[0] == "sel" and base[2][0] == "alloc" and base[3][0] == "alloc":
                # `arr = internal if same else external; arr[c] += v`
                acc.append(dataclasses.replace(e, target=("idx", base[2], e.target[2]), guards=e.guards + ((base[1], True),)))
                acc.append(dataclasses.replace(e, target=("idx", base[3], e.target[2]), guards=e.guards + ((base[1], False),)))
            elif base[0] == "alloc":
                acc.append(e)
    if not acc:
        other = [e for e in w.events if e.kind == "store" and e.aug == "+" and e.target[0] == "idx" and len(e.loops) == 2]
        if other:
            # the sums are kept somewhere else than in arrays allocated by this call (views of a buffer kept on the
            # object, ...): whether they start from zero is a question about that storage, outside these rules
            raise AnalysisError(f"UnsupervisedOPF._normalized_cut: the per-cluster sums are accumulated in "
                                f"'{show(other[0].target[1])[:80]}', not in arrays created by the call")
    ok_shape = len(acc) == 2 and acc[0].target[1] != acc[1].target[1] and all(len(e.loops) == 2 for e in acc)
    rep.fn("CUT-accumulators", fn, "two per-cluster accumulators are filled in the arc loop", ok_shape,
           f"found {len(acc)} accumulation site(s) into local arrays")
    if not ok_shape:
        return
    per, inner = w.loops[acc[0].loops[0]], w.loops[acc[0].loops[1]]
    nl = node_loop(per)
    full = nl is not None and nl[0] == G
    rep.fn("CUT-all-nodes", fn, "every node's arcs are visited", full, f"outer loop domain '{show(per.domain)}'", line=per.line)
    if not full:
        return
    N = nl[2]
    dom = inner.domain
    okdom = dom[0] == "call" and dom[1] == ("builtin", "range") and len(dom[2]) == 1 and lin_eq(
        _sub(lin(dom[2][0]), lin(kparam)), {("attr", N, "n_plateaus"): 1})
    rep.fn("CUT-arcs", fn, "the arcs of node i are its plateau arcs plus its k neighbours", okdom,
           f"inner loop domain '{show(dom)}' (expected range(n_plateaus(i) + k))", line=inner.line)
    r = ("iter", dom, inner.lid)
    j = ("call", ("builtin", "int"), (("idx", ("attr", N, "adjacency"), r),), ())
    Nj = ("idx", ("attr", G, "nodes"), j)
    same = mk_cmp("==", ("attr", N, "cluster_label"), ("attr", Nj, "cluster_label"))
    roles = {}
    for e in acc:
        arr = e.target[1]
        okarr = arr[1] == "numpy.zeros" and arr[2] and arr[2][0] == ("attr", G, "n_clusters")
        oki = e.target[2] == ("attr", N, "cluster_label")
        v = e.value
        W = v[3] if v[0] == "bin" and v[1] == "/" and v[2] in (("const", 1), ("const", 1.0)) else None
        okw = W is not None and (as_selector(W) or is_matrix_read(W) or is_metric_call(W)) and weight_names_pair(W, N, Nj)
        okpos = W is not None and (has_guard(e.guards, ("cmp", "<", ("const", 0.0), W)) or has_guard(e.guards, ("cmp", "<", ("const", 0), W)))
        role = "internal" if has_guard(e.guards, same) else ("external" if has_guard(e.guards, mk_not(same)) else None)
        ok = bool(okarr and oki and okw and okpos and role)
        detail = ""
        if not okarr:
            detail = "the accumulator must be zeros(n_clusters), one slot per cluster"
        elif not oki:
            detail = "the arc is booked on a slot other than the cluster of node i"
        elif not okw:
            detail = "the amount added is not 1 / d(i, adjacency_r(i))"
        elif not okpos:
            detail = "the arc weight is used without the test d > 0 (division by zero for duplicated points)"
        elif not role:
            detail = "the arc is not classified by cluster(i) == cluster(j)"
        rep.ev("CUT-arc-weight", e, ok, detail)
        if role:
            roles[role] = arr
    rep.fn("CUT-roles", fn, "arcs inside a cluster and arcs leaving it are accumulated separately", set(roles) == {"internal", "external"},
           f"roles found: {sorted(roles)}")
    if set(roles) != {"internal", "external"}:
        return
    I, E = roles["internal"], roles["external"]
    # the final sum
    alg = TermAlgebra()
    found = False
    for li in w.loops.values():
        if li.kind != "for" or li.loops:
            continue
        for name, (init, end) in li.carried.items():
            phi = ("phi", li.lid, name)
            t = end
            cond = None
            if t[0] == "sel" and t[3] == phi:
                cond, t = t[1], t[2]
            elif t[0] == "sel" and t[2] == phi:
                cond, t = mk_not(t[1]), t[3]
            if phi not in list(__import__("opfcheck.ir", fromlist=["subterms"]).subterms(t)):
                continue
            d = li.domain
            if d[0] == "call" and d[1] == ("builtin", "range") and d[2] == (("attr", G, "n_clusters"),):
                l = ("iter", d, li.lid)
            elif d[0] == "call" and d[1] == ("builtin", "zip") and set(d[2]) == {I, E} and len(d[2]) == 2:
                l = ("iterproj", d, li.lid, ("pos",))
            else:
                continue
            found = True
            Il, El = ("idx", I, l), ("idx", E, l)
            try:
                step = alg.conv(t) - alg.conv(phi)
                okf = alg.equal(step, alg.conv(El) / (alg.conv(Il) + alg.conv(El)))
            except Exception:
                okf = False
            tot = w.binop("+", Il, El)
            okc = cond in (("cmp", "<", ("const", 0.0), tot), ("cmp", "<", ("const", 0), tot))
            rep.fn("CUT-sum", fn, "cut = sum over clusters of external / (internal + external)", okf and init in (("const", 0.0), ("const", 0)),
                   f"per-cluster term is '{show(t)[:140]}' starting from {show(init)}", line=li.line)
            rep.fn("CUT-empty-cluster", fn, "clusters without arcs (internal + external = 0) are skipped", okc,
                   f"the term is added under '{show(cond)[:100] if cond else 'no test'}'", line=li.line)
            rets = [e for e in w.events if e.kind == "return" and e.fn is fn]
            rep.fn("CUT-return", fn, "the accumulated cut is returned", len(rets) == 1 and rets[0].value == phi,
                   f"returns '{show(rets[0].value)[:80] if rets else '?'}'")
    rep.fn("CUT-sum-present", fn, "the per-cluster terms are summed over all clusters", found,
           "no loop over range(n_clusters) (or over both accumulators) that accumulates the cut")


def check(chk, repo):
    chk.explanation = EXPLANATION
    rep = Rep(chk, repo)
    n = (check_knn(chk, rep, repo) or 0) + (check_uns(chk, rep, repo) or 0)
    chk.floor("k-selection loops", n, 2)
    # the same subgraph is rebuilt for every candidate and once more for the winner: nothing may survive a rebuild
    from ..core import Check
    from .c12 import check_create_arcs, check_typestate
    tmp = Check("C16")
    check_create_arcs(tmp, Rep(tmp, repo), repo)
    for o in tmp.obligations:
        if o.rule in ("ARCS-init", "ARCS-acc", "ARCS-return", "ARCS-rank-maxima", "ARCS-plateaus"):
            chk.ob("REBUILD:" + o.rule, o.function, o.construct, o.ok, o.detail, o.file, o.line)
    check_typestate(chk, rep, repo)
    from .c12 import check_destroy
    check_destroy(rep, repo)
    check_normalized_cut(rep, repo)
    from ..common import check_model_premises
    check_model_premises(rep, repo)
    # every forest is grown through the priority queue: its structural rules are a premise here too
    from ..rules_heap import check_heap
    check_heap(rep, repo, "HEAP-")
    chk.undecided.append("'highest validation accuracy' / 'lowest cut' as numbers (consequence of the control structure)")
    chk.assumptions += ["opf_accuracy is in [0, 1] (C20); the normalised cut is finite and >= 0"]
