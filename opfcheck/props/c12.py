"""C12: the k-NN graph and the density estimate (schema + accumulator + formula rules)."""

from ..common import graph_walk, model_walk, run_kinds
from ..core import AnalysisError
from ..ir import facts, has_guard, is_neg_float_max, mk_not, show, subterms
from ..kinds import count_of
from ..rules_heap import _sub, lin, lin_eq
from ..rules_ift import Rep
from ..rules_knn import K, check_knn_scan, find_knn_scans
from ..schema import as_selector, is_matrix_read, is_metric_call, weight_names_pair
from ..termalg import TermAlgebra

EXPLANATION = (
    "KNNSubgraph.create_arcs: the insertion scan is extracted by shape and must keep paired (distance, index) "
    "buffers of k+1 slots over all other nodes of the same graph (R-KNN / R-PAIR, j != i between two indices of "
    "the SAME graph); the read-out visits ranks k-1..0 (or 0..k-1), skips FLOAT_MAX slots, and every "
    "max-accumulator (graph density bound, node radius, per-rank maxima) is INITIALISED in the same function "
    "before it accumulates, updates under 'value > accumulator' with that value; the adjacency list is built "
    "ascending (descending walk with insert(0, .) or ascending walk with append); the < 1e-5 => 1 fallback "
    "follows the loops; the per-rank maxima are returned. calculate_pdf: normal forms (sympy) constant = "
    "2*density/9, pdf_i = sum_{r<k} exp(-w(i, adj_r)/constant) / (k+1) over the first k adjacency entries, "
    "min/max tracked from +-FLOAT_MAX sentinels over every node and stored on the subgraph, density_i = "
    "(MAX_DENSITY-1)(pdf_i-min)/(max-min)+1 with the all-equal case giving MAX_DENSITY, cost_i = density_i - 1. "
    "eliminate_maxima_height: guard height > 0 and cost = max(density - height, 0). Typestate in the models: "
    "no two create_arcs on the same subgraph without a destroy_arcs in between. That the scan's slots are the "
    "k smallest distances follows from its loop invariant (trusted)."
)


def check_create_arcs(chk, rep, repo):
    w = graph_walk(repo, "KNNSubgraph", "create_arcs")
    fn = w.entry
    G = ("self",)
    from ..common import require_scalar_fragment
    require_scalar_fragment(w, w.entry.qual)
    scans = find_knn_scans(w)
    if not scans:
        from ..rules_knn import report_missing_scan
        if report_missing_scan(rep, w, "KNNSubgraph.create_arcs"):
            return
    if len(scans) != 1:
        raise AnalysisError(f"KNNSubgraph.create_arcs: expected one insertion scan, found {len(scans)}")
    sc = scans[0]
    check_knn_scan(rep, "", sc, G, allow_self_skip=True)
    # "the smallest distances FROM that sample": d(i, j) with i the node whose list is built
    from ..schema import weight_oriented
    qi, cj = ("idx", ("attr", G, "nodes"), sc.i), ("idx", ("attr", G, "nodes"), sc.j)
    for e in sc.weight_stores:
        rep.ev("ARCS-orientation", e, weight_oriented(e.value, qi, cj),
               "the candidate distance is not d(node i, node j) in this order: for a non-symmetric dissimilarity the "
               "neighbours are ranked by the distance TO i, and differently from calculate_pdf")
    kparam = sc.k
    rep.fn("ARCS-k", fn, "the insertion slot is the parameter k", kparam == ("param", fn.params[1]),
           f"slot is '{show(kparam)}'", line=sc.per.line)
    i = sc.i
    node_i = ("idx", ("attr", G, "nodes"), i)
    # read-out loop
    ro = [li for li in w.loops.values() if li.kind == "for" and li.loops == (sc.per.lid,) and li.lid != sc.cand.lid]
    if len(ro) != 1:
        raise AnalysisError(f"create_arcs: expected one read-out loop per node, found {len(ro)}")
    ro = ro[0]
    r = ("iter", ro.domain, ro.lid)
    dom = ro.domain
    direction = None
    if dom[0] == "call" and dom[1] == ("builtin", "range"):
        a = dom[2]
        if len(a) == 3 and lin_eq(_sub(lin(a[0]), lin(kparam)), {1: -1}) and a[1] == ("const", -1) and a[2] == ("const", -1):
            direction = "desc"
        elif len(a) == 1 and a[0] == kparam or (len(a) == 2 and a[0] == ("const", 0) and a[1] == kparam):
            direction = "asc"
    rep.fn("ARCS-readout", fn, f"for l in {show(dom)}", direction is not None,
           "the read-out must visit exactly the ranks 0..k-1", line=ro.line)
    valid = ("cmp", "!=", *sorted([K("FLOAT_MAX"), ("idx", sc.D, r)], key=repr))
    valid_lt = ("cmp", "<", ("idx", sc.D, r), K("FLOAT_MAX"))  # the same test for a distance (nothing exceeds FLOAT_MAX)
    d_r = ("idx", sc.D, r)
    # argument validation (`if k < 1: raise ...`) dominates the whole body: those complements are not conditions of the steps
    _raises = [e for e in w.events if e.kind == "raise"]
    from ..rules_premise import validation_guard
    own = lambda gs: tuple((g, pol) for g, pol in gs if not validation_guard(_raises, g, pol))
    body = [e for e in w.events if ro.lid in e.loops and e.kind in ("store", "call") and e.name not in ("builtin.range", "<inline>")]
    for e in body:
        if e.kind == "call" and e.name in ("builtin.int",):
            continue
        rep.ev("ARCS-valid", e, has_guard(e.guards, valid) or has_guard(e.guards, valid_lt),
               "read-out statement not guarded by distances[l] != FLOAT_MAX")
        # ... and by nothing else: a filled rank is an arc whatever its length (zero-length arcs of duplicated samples too)
        base_f = set(facts(ro.guards))
        extra = [f for f in facts(e.guards) if f not in base_f and f not in (valid, valid_lt)
                 and not (f[0] == "cmp" and f[1] in ("<", "<=") and f[3] == d_r and f[2] != ("const", 0))]
        if extra:
            rep.ev("ARCS-valid-only", e, False,
                   f"the read-out of rank l is also conditional on '{show(extra[0])[:80]}': ranks that hold a neighbour are dropped "
                   "(the sample keeps fewer than min(k, n-1) arcs, and not the smallest ones)")
    # accumulators
    accs = {
        "density bound": ("attr", G, "density"),
        "radius": ("attr", node_i, "radius"),
    }
    md = [e for e in body if e.kind == "store" and e.target[0] == "idx" and e.target[1][0] == "alloc"
          and e.target[1] not in (sc.D, sc.N) and e.target[2] == r]
    if md:
        accs["per-rank maximum"] = md[0].target
    rep.fn("ARCS-rank-maxima", fn, "per-rank maxima are accumulated at index l", len(md) == 1,
           f"found {len(md)} store(s) into a per-rank array", line=ro.line)
    local_density = None
    # (a plain `self.density = 0` at entry that the final store overwrites is neither here nor there)
    entry_zero = lambda e: not e.loops and e.seq < sc.per.first_seq and e.value in (("const", 0), ("const", 0.0)) and not e.aug
    if not [e for e in w.events if e.kind == "store" and e.target == accs["density bound"] and e.seq <= sc.per.last_seq
            and not entry_zero(e)]:
        local_density = _local_density_bound(w, sc, ro, d_r, accs["density bound"])
        if local_density:
            del accs["density bound"]
            rep.fn("ARCS-acc", fn, "density bound (kept in a local, stored once): updated to distances[l] when larger",
                   True, line=ro.line)
            rep.fn("ARCS-init", fn, "density bound starts from 0 in this call", True)
    rank_density = False
    if "density bound" in accs and md and not [e for e in w.events if e.kind == "store" and e.target == accs["density bound"]
                                                and sc.per.lid in e.loops]:
        # the bound taken once, after the loops, as the largest of the per-rank maxima (each filled distance is counted in
        # its rank's maximum, so this is the largest filled distance; nothing below 0 exists)
        MD = md[0].target[1]
        post = [e for e in w.events if e.kind == "store" and e.target == accs["density bound"] and e.seq > sc.per.last_seq]
        if post and not post[0].loops and not own(post[0].guards) and not post[0].aug:
            v = post[0].value
            if v[0] == "call" and v[1] == ("builtin", "float") and len(v[2]) == 1 and not v[3]:
                v = v[2][0]
            zero_kw = ((), (("initial", ("const", 0)),), (("initial", ("const", 0.0)),))
            forms = [("call", ("attr", MD, "max"), (), kw) for kw in zero_kw] + \
                    [("call", ("mod", f), (MD,), kw) for f in ("numpy.max", "numpy.amax") for kw in zero_kw] + \
                    [("call", ("builtin", "max"), (MD,), ())]
            if v in forms:
                rank_density = True
                del accs["density bound"]
                rep.fn("ARCS-acc", fn, "density bound (taken after the loops): the largest of the per-rank maxima", True, line=ro.line)
                rep.fn("ARCS-init", fn, "density bound is recomputed from this call's maxima", True)
    if "radius" in accs and not [e for e in body if e.kind == "store" and e.target == accs["radius"]] \
            and _local_radius(w, sc, ro, d_r, accs["radius"]):
        del accs["radius"]
        rep.fn("ARCS-acc", fn, "radius (kept in a local, stored once per node): updated to distances[l] when larger", True, line=ro.line)
        rep.fn("ARCS-init", fn, "radius starts from 0 for every node", True)
    for name, tgt in accs.items():
        st = [e for e in body if e.kind == "store" and e.target == tgt]
        want_guard = ("cmp", "<", tgt, d_r)
        ok = len(st) == 1 and st[0].value == d_r and has_guard(st[0].guards, want_guard)
        rep.fn(f"ARCS-acc", fn, f"{name}: updated to distances[l] when distances[l] > {name}", ok,
               f"{len(st)} update(s) of the {name}; expected `if distances[l] > acc: acc = distances[l]`", line=ro.line)
        # initialisation before accumulation, in this function
        if tgt[0] == "idx":  # local array: allocated as zeros in this function
            arr = tgt[1]
            ok_init = arr[0] == "alloc" and arr[1] == "numpy.zeros" and arr[2] and arr[2][0] == kparam
            alloc_ev = [e for e in w.events if e.kind == "call" and e.value == arr]
            ok_init = ok_init and alloc_ev and not alloc_ev[0].loops
            rep.fn("ARCS-init", fn, f"{name} starts from zeros(k), once per call", bool(ok_init),
                   f"the {name} array is '{show(arr)}'", line=ro.line)
            rets = [e for e in w.events if e.kind == "return" and e.fn is w.entry]
            rep.fn("ARCS-return", fn, "the per-rank maxima are returned", len(rets) == 1 and rets[0].value == arr,
                   "create_arcs must return the per-rank maxima")
        else:
            inits = [e for e in w.events if e.kind == "store" and e.target == tgt and e.seq < ro.first_seq
                     and e.value in (("const", 0.0), ("const", 0)) and not e.aug]
            if name == "radius":
                ok_init = len(inits) >= 1 and all(e.loops == (sc.per.lid,) and e.guards == sc.per.guards for e in inits)
                where = "for every node, before its read-out"
            else:
                ok_init = len(inits) == 1 and not inits[0].loops and not own(inits[0].guards)
                where = "once at entry, before the scan"
            rep.fn("ARCS-init", fn, f"{name} is reset to 0 {where}", bool(ok_init),
                   f"the {name} is accumulated with '>' but never reset in this call: a value left by an earlier "
                   "call (larger k) survives")
    # adjacency construction
    adj = ("attr", node_i, "adjacency")
    ins = [e for e in body if e.kind == "call" and e.target[0] == "attr" and e.target[1] == adj]
    ok = False
    if len(ins) == 1:
        e = ins[0]
        if e.name == "insert" and e.args == (("const", 0), ("idx", sc.N, r)):
            ok = direction == "desc"
        elif e.name == "append" and e.args == (("idx", sc.N, r),):
            ok = direction == "asc"
    if not ins:
        # prepend form, after the read-out loop: `adjacency[:0] = [idx_buffer[l] for l in <the filled ranks, ascending>]`
        pre_st = [e for e in w.events if e.kind == "store" and e.target == ("idx", adj, ("slice", None, ("const", 0), None))
                  and e.loops == (sc.per.lid,)]
        if len(pre_st) == 1 and pre_st[0].value[0] == "listcomp" and len(pre_st[0].value[2]) == 1 and not pre_st[0].value[2][0][2]:
            lc = pre_st[0].value
            d2, l2 = lc[2][0][0], lc[2][0][1]
            asc = [("call", ("builtin", "range"), (kparam,), ()), ("call", ("builtin", "range"), (("const", 0), kparam), ())]
            if d2[0] == "listcomp" and len(d2[2]) == 1 and d2[2][0][0] in asc and d2[1] == ("iter", d2[2][0][0], d2[2][0][1]):
                rr = d2[1]
                keep = [("cmp", "!=", *sorted([K("FLOAT_MAX"), ("idx", sc.D, rr)], key=repr)), ("cmp", "<", ("idx", sc.D, rr), K("FLOAT_MAX"))]
                ok = lc[1] == ("idx", sc.N, ("iter", d2, l2)) and len(d2[2][0][2]) == 1 and d2[2][0][2][0] in keep \
                    and not [e for e in w.events if e.kind == "store" and e.target[0] == "idx" and e.target[1] in (sc.D, sc.N)
                             and e.seq > sc.cand.last_seq and e.seq < pre_st[0].seq]
    rep.fn("ARCS-adjacency", fn, "neighbour list is built in ascending order of distance from the paired index buffer",
           ok, "adjacency must be filled with neighbours_idx[l] by insert(0, .) on a descending walk or append on an "
           "ascending one", line=ro.line)
    np_st = [e for e in w.events if e.kind == "store" and e.target == ("attr", node_i, "n_plateaus")]
    rep.fn("ARCS-plateaus", fn, "n_plateaus is reset per node", len(np_st) == 1 and np_st[0].value == ("const", 0),
           "n_plateaus must be reset when arcs are created")
    # fallback
    dens = ("attr", G, "density")
    fb = [e for e in w.events if e.kind == "store" and e.target == dens and e.seq > sc.per.last_seq]
    if rank_density:
        fb = fb[1:]  # (the first store after the loops is the bound itself)
    okf = len(fb) == 1 and fb[0].value in (("const", 1), ("const", 1.0)) and not fb[0].loops \
        and facts(own(fb[0].guards)) == (("cmp", "<", dens, ("const", 1e-05)),)
    if local_density:
        okf = True  # the single store after the loops already carries the fallback (checked by the local view)
    rep.fn("ARCS-fallback", fn, "density bound falls back to 1 when below 1e-5, after the loops", okf,
           "expected `if self.density < 0.00001: self.density = 1` after all nodes were processed")
    run_kinds(rep, w)


def _local_density_bound(w, sc, ro, d_r, field) -> bool:
    """The density bound accumulated in a local and written to the field once, after the loops:
        acc = 0;  per node, per valid rank: if d > acc: acc = d;  [if acc < 1e-5: acc = 1];  self.density = acc"""
    from ..ir import mk_cmp
    per = sc.per
    fin = [e for e in w.events if e.kind == "store" and e.target == field
           and not (not e.loops and e.seq < per.first_seq and e.value in (("const", 0), ("const", 0.0)) and not e.aug)]
    if len(fin) != 1 or fin[0].loops or fin[0].guards or fin[0].aug or fin[0].seq < per.last_seq:
        return False
    v = fin[0].value
    names = [n for n in per.carried if n in ro.carried]
    for n in names:
        P, R = ("phi", per.lid, n), ("phi", ro.lid, n)
        small = mk_cmp("<", P, ("const", 1e-05))
        if v not in (("sel", small, ("const", 1), P), ("sel", small, ("const", 1.0), P)):
            continue
        init, nxt = per.carried[n]
        if init not in (("const", 0), ("const", 0.0)) or nxt != R:
            continue
        init_r, nxt_r = ro.carried[n]
        if init_r != P:
            continue
        upd = ("sel", mk_cmp("<", R, d_r), d_r, R)
        invalid = mk_cmp("==", K("FLOAT_MAX"), d_r)
        valid = mk_cmp("!=", K("FLOAT_MAX"), d_r)
        if nxt_r in (("sel", invalid, R, upd), ("sel", valid, upd, R)):
            return True
    return False


def _local_radius(w, sc, ro, d_r, field) -> bool:
    """The radius accumulated in a local that is reset for every node and written to the node once, after its read-out:
        per node: acc = 0;  per valid rank: if d > acc: acc = d;  node.radius = acc"""
    from ..ir import mk_cmp
    per = sc.per
    fin = [e for e in w.events if e.kind == "store" and e.target == field]
    if len(fin) != 1 or fin[0].loops != ro.loops or facts(fin[0].guards) != facts(ro.guards) or fin[0].aug \
            or fin[0].seq < ro.last_seq or fin[0].value[0] != "phi" or fin[0].value[1] != ro.lid:
        return False
    n = fin[0].value[2]
    if n not in ro.carried:
        return False
    R = ("phi", ro.lid, n)
    init_r, nxt_r = ro.carried[n]
    if init_r not in (("const", 0), ("const", 0.0)):
        return False  # (reset inside the per-node loop: the value entering the read-out is the literal)
    upd = ("sel", mk_cmp("<", R, d_r), d_r, R)
    invalid = mk_cmp("==", K("FLOAT_MAX"), d_r)
    valid = mk_cmp("!=", K("FLOAT_MAX"), d_r)
    valid_lt = ("cmp", "<", d_r, K("FLOAT_MAX"))
    return nxt_r in (("sel", invalid, R, upd), ("sel", valid, upd, R), ("sel", valid_lt, upd, R))


def _detached_pdf_range(w, s_mn, s_mx):
    """(loop, name of the running minimum, name of the running maximum) when min_density / max_density are each
    stored once, outside every loop, from locals that a single pass `for v in xs` maintains as
        lo = FLOAT_MAX; hi = -FLOAT_MAX; if v < lo: lo = v; if v > hi: hi = v"""
    from ..ir import elem_of, mk_cmp
    if len(s_mn) != 1 or len(s_mx) != 1:
        return None
    a, b = s_mn[0], s_mx[0]
    if a.loops or b.loops or a.guards or b.guards or a.aug or b.aug or a.value[0] != "phi" or b.value[0] != "phi" \
            or a.value[1] != b.value[1]:
        return None
    L = w.loops.get(a.value[1])
    if L is None or L.kind != "for" or L.loops or a.value[2] not in L.carried or b.value[2] not in L.carried:
        return None
    v = elem_of(L.domain, L.lid)
    lo, hi = a.value, b.value
    ilo, nlo = L.carried[lo[2]]
    ihi, nhi = L.carried[hi[2]]
    if ilo != K("FLOAT_MAX") or not is_neg_float_max(ihi):
        return None
    if nlo != ("sel", mk_cmp("<", v, lo), v, lo) or nhi != ("sel", mk_cmp("<", hi, v), v, hi):
        return None
    if [e for e in w.events if e.kind == "store" and L.lid in e.loops]:
        return None
    return L, lo[2], hi[2]


def _adjacency_holds_ints(repo) -> bool:
    """create_arcs fills the adjacency lists from an integer-typed index buffer (or through int() / .item() of one)."""
    w = graph_walk(repo, "KNNSubgraph", "create_arcs")
    ints = (("mod", "numpy.intp"), ("mod", "numpy.int64"), ("builtin", "int"), ("mod", "numpy.int_"), ("mod", "numpy.int32"))
    ins = [e for e in w.events if e.kind == "call" and e.name in ("insert", "append") and e.target is not None
           and e.target[0] == "attr" and e.target[1][0] == "attr" and e.target[1][2] == "adjacency"]
    if not ins:
        return False
    for e in ins:
        v = e.args[-1] if e.args else None
        if v is None:
            return False
        if v[0] == "call" and v[1] == ("builtin", "int"):
            continue
        base = v[1][1] if v[0] == "call" and v[1][0] == "attr" and v[1][2] == "item" else v
        if not (base[0] == "idx" and base[1][0] == "alloc" and dict(base[1][3]).get("dtype") in ints):
            return False
    return True


def check_pdf(chk, rep, repo):
    from ..rules_premise import without_validation
    w = without_validation(graph_walk(repo, "KNNSubgraph", "calculate_pdf"))
    fn = w.entry
    G = ("self",)
    alg = TermAlgebra()
    dens = ("attr", G, "density")
    cst = [e for e in w.events if e.kind == "store" and e.target == ("attr", G, "constant")]
    ok = len(cst) == 1 and not cst[0].loops and not cst[0].guards and alg.equal(alg.conv(cst[0].value), 2 * alg.conv(dens) / 9)
    rep.fn("PDF-constant", fn, "constant = 2 * density / 9", ok, f"constant is '{show(cst[0].value) if cst else '?'}'")
    mn, mx = ("attr", G, "min_density"), ("attr", G, "max_density")
    s_mn = [e for e in w.events if e.kind == "store" and e.target == mn]
    s_mx = [e for e in w.events if e.kind == "store" and e.target == mx]
    for e in s_mn + s_mx:
        for t in subterms(e.value):
            if t[0] == "call" and (t[1] in (("builtin", "min"), ("builtin", "max")) or (t[1][0] == "mod" and t[1][1] in (
                    "numpy.min", "numpy.max", "numpy.amin", "numpy.amax", "numpy.nanmin", "numpy.nanmax"))) and len(t[2]) == 1:
                from ..core import AnalysisError
                raise AnalysisError(f"KNNSubgraph.calculate_pdf: '{show(e.target)} = {show(e.value)[:60]}' takes the extreme of a whole "
                                    "sequence; the density rules follow the scalar scan over the nodes - this form is outside the analysable fragment")
    init_mn = [e for e in s_mn if not e.loops and e.value == K("FLOAT_MAX")]
    init_mx = [e for e in s_mx if not e.loops and is_neg_float_max(e.value)]
    detached = None
    if not init_mn and not init_mx:
        detached = _detached_pdf_range(w, s_mn, s_mx)
    rep.fn("PDF-sentinels", fn, "min/max start from +FLOAT_MAX / -FLOAT_MAX",
           (len(init_mn) == 1 and len(init_mx) == 1) or detached is not None,
           "the running minimum / maximum must start from sentinels outside the attainable range")
    # pdf accumulation
    pdf_stores = [e for e in w.events if e.kind == "store" and e.target[0] == "idx" and e.target[1][0] == "alloc"]
    if not pdf_stores:
        raise AnalysisError("calculate_pdf: pdf array not found")
    pdf = pdf_stores[0].target[1]
    per = w.loops[pdf_stores[0].loops[0]]
    from ..schema import node_loop
    nlp = node_loop(per)
    full = nlp is not None and nlp[0] == G and nlp[1] is not None
    rep.fn("PDF-all-nodes", fn, "the pdf is computed for every node", full, f"loop domain {show(per.domain)}", line=per.line)
    i = nlp[1] if full else ("iter", per.domain, per.lid)
    pi = ("idx", pdf, i)
    zero = [e for e in pdf_stores if e.target == pi and not e.aug and e.value in (("const", 0), ("const", 0.0))
            and e.loops == (per.lid,)]
    adds = [e for e in pdf_stores if e.target == pi and e.aug == "+"]
    divs = [e for e in pdf_stores if e.target == pi and e.aug == "/"]
    if not zero and adds and pdf[1] == "numpy.zeros" and pdf[2] and count_of(pdf[2][0]) == G:
        # the array is allocated as zeros in this call and slot i is first touched by the accumulation of node i
        alloc_ev = [e for e in w.events if e.kind == "call" and e.value == pdf]
        early = [e for e in pdf_stores if e.seq < adds[0].seq and e.target != pi]
        if len(alloc_ev) == 1 and not alloc_ev[0].loops and not early:
            zero = alloc_ev
    if not adds and not divs:
        # local-accumulator form: acc = 0.0; for r < k: acc += term; pdf[i] = acc / n
        import dataclasses
        plain = [e for e in pdf_stores if e.target == pi and not e.aug and e.value[0] == "bin" and e.value[1] == "/"
                 and e.value[2][0] == "phi" and e.loops == (per.lid,)]
        if len(plain) == 1:
            ph = plain[0].value[2]
            inner_l = w.loops.get(ph[1])
            if inner_l is not None and ph[2] in inner_l.carried and inner_l.loops == (per.lid,):
                init, end = inner_l.carried[ph[2]]
                binds = [e for e in w.events if e.kind == "bind" and e.name == ph[2] and e.aug == "+" and inner_l.lid in e.loops]
                inits = [e for e in w.events if e.kind == "bind" and e.name == ph[2] and not e.aug and e.loops == (per.lid,)
                         and e.value in (("const", 0), ("const", 0.0)) and e.seq < inner_l.first_seq]
                if init in (("const", 0), ("const", 0.0)) and len(binds) == 1 and len(inits) == 1 \
                        and end == w.binop("+", ph, binds[0].target):
                    zero = inits
                    adds = [dataclasses.replace(binds[0], kind="store", target=pi, value=binds[0].target)]
                    divs = [dataclasses.replace(plain[0], value=plain[0].value[3], aug="/")]
                    pdf_stores = [e for e in pdf_stores if e is not plain[0]] + divs
    okacc = False
    detail = "expected pdf[i] = 0; for r < k: pdf[i] += exp(-w(i, adj_r)/constant); pdf[i] /= k + 1"
    kparam = ("param", fn.params[1])
    stray = [e for e in pdf_stores if e.target[1] == pdf and e not in zero and e not in adds and e not in divs]
    for e in stray:
        rep.ev("PDF-stray", e, False, "the pdf array may only be reset, accumulated and divided (per node)")
    if len(zero) == 1 and len(adds) == 1 and len(divs) == 1 and not stray:
        a = adds[0]
        inner = w.loops[a.loops[-1]] if len(a.loops) == 2 else None
        if inner is not None and inner.domain == ("call", ("builtin", "range"), (kparam,), ()):
            r = ("iter", inner.domain, inner.lid)
            nb = ("call", ("builtin", "int"), (("idx", ("attr", ("idx", ("attr", G, "nodes"), i), "adjacency"), r),), ())
            val = a.value
            # exp(-W / constant)
            if val[0] == "call" and val[1] == ("mod", "numpy.exp") and len(val[2]) == 1:
                arg = val[2][0]
                W = None
                for s in subterms(arg):
                    if as_selector(s) or is_metric_call(s) or is_matrix_read(s):
                        W = s
                        break
                if W is not None:
                    want = -alg.conv(W) / alg.conv(("attr", G, "constant"))
                    if ok and cst[0].seq < a.seq and not alg.equal(alg.conv(arg), want):
                        # the constant read from the local it was computed in (the field holds the same value)
                        want = -alg.conv(W) / alg.conv(cst[0].value)
                    node_i = ("idx", ("attr", G, "nodes"), i)
                    node_j = ("idx", ("attr", G, "nodes"), nb)
                    mentions = weight_names_pair(W, node_i, node_j)
                    if not mentions and _adjacency_holds_ints(repo):
                        # adjacency lists that hold Python ints are read without the int() cast
                        node_j = ("idx", ("attr", G, "nodes"), nb[2][0])
                        mentions = weight_names_pair(W, node_i, node_j)
                    okacc = alg.equal(alg.conv(arg), want) and mentions and not a.guards
                    if not mentions:
                        detail = "the arc weight in the pdf is not w(i, adjacency_r(i))"
            d = divs[0]
            dv = d.value
            okdiv = False
            if dv[0] == "phi" and dv[1] == inner.lid and dv[2] in inner.carried:
                init, end = inner.carried[dv[2]]
                okdiv = init == ("const", 1) and lin_eq(lin(end), {dv: 1, 1: 1})
            elif lin_eq(_sub(lin(dv), lin(kparam)), {1: 1}):
                okdiv = True
            elif dv[0] == "bin" and dv[1] == "+" and ("const", 1) in dv[2:] and any(
                    t[0] == "max" and set(t[1]) == {("const", 0), kparam} for t in dv[2:]):
                okdiv = True  # 1 + max(0, k): the value of the counter for every k (the loop runs max(0, k) times)
            okdiv = okdiv and d.loops == (per.lid,) and not d.guards and d.seq > a.seq
            if not okdiv:
                detail = "the pdf must be divided by k + 1 (counter starting at 1, incremented once per neighbour)"
            okacc = okacc and okdiv and zero[0].seq < a.seq
    rep.fn("PDF-sum", fn, "pdf_i = sum_{r<k} exp(-w(i, adj_r)/constant) / (k + 1)", okacc, detail, line=per.line)
    # min / max tracking
    tr_mn = [e for e in s_mn if e.loops == (per.lid,)]
    tr_mx = [e for e in s_mx if e.loops == (per.lid,)]
    okmn = len(tr_mn) == 1 and tr_mn[0].value == pi and facts(tr_mn[0].guards) == (("cmp", "<", pi, mn),)
    okmx = len(tr_mx) == 1 and tr_mx[0].value == pi and facts(tr_mx[0].guards) == (("cmp", "<", mx, pi),)
    # the same updates spelt `m = min(m, pdf[i])` / `M = max(M, pdf[i])`
    from ..ir import mk_ext
    if len(tr_mn) == 1 and not okmn:
        okmn = tr_mn[0].value == mk_ext("min", [mn, pi]) and facts(tr_mn[0].guards) == facts(per.guards) and not tr_mn[0].aug
    if len(tr_mx) == 1 and not okmx:
        okmx = tr_mx[0].value == mk_ext("max", [mx, pi]) and facts(tr_mx[0].guards) == facts(per.guards) and not tr_mx[0].aug
    late = all(e.seq > divs[0].seq for e in tr_mn + tr_mx) if divs else False
    if not tr_mn and not tr_mx and detached is None:
        # the same tracking in a loop of its own over every node, after the pdf array is final
        later = [e for e in s_mn + s_mx if len(e.loops) == 1 and e.loops != (per.lid,)]
        lids = {e.loops[0] for e in later}
        if len(lids) == 1:
            T = w.loops[next(iter(lids))]
            nlT = node_loop(T)
            if nlT is not None and nlT[0] == G and nlT[1] is not None and T.first_seq > per.last_seq:
                piT = ("idx", pdf, nlT[1])
                tr_mn = [e for e in s_mn if e.loops == (T.lid,)]
                tr_mx = [e for e in s_mx if e.loops == (T.lid,)]
                okmn = len(tr_mn) == 1 and tr_mn[0].value == piT and facts(tr_mn[0].guards) == (("cmp", "<", piT, mn),)
                okmx = len(tr_mx) == 1 and tr_mx[0].value == piT and facts(tr_mx[0].guards) == (("cmp", "<", mx, piT),)
                late = bool(divs) and not [e for e in pdf_stores if e.seq > T.first_seq]
    local_names = {}
    if detached is not None:
        # min / max found by a separate pass over the finished pdf array, kept in locals and stored once
        L, a_mn, a_mx = detached
        final = not [e for e in pdf_stores if e.seq > L.first_seq]
        okmn = okmx = L.domain == pdf and final
        late = bool(divs) and L.first_seq > per.last_seq
        local_names = {("phi", L.lid, a_mn): mn, ("phi", L.lid, a_mx): mx}
    rep.fn("PDF-minmax", fn, "min_density / max_density track the final pdf value of every node", okmn and okmx and late,
           "expected `if pdf[i] < min: min = pdf[i]` and `if pdf[i] > max: max = pdf[i]` after the division")
    # normalisation
    eq = ("cmp", "==", *sorted([mn, mx], key=repr))
    from ..schema import node_loop
    dstores = [e for e in w.events if e.kind == "store" and e.target[0] == "attr" and e.target[2] == "density"
               and e.target[1] != G]
    cstores = [e for e in w.events if e.kind == "store" and e.target[0] == "attr" and e.target[2] == "cost"
               and e.target[1] != G]
    MD = alg.conv(K("MAX_DENSITY"))
    n_ok = 0
    if local_names:
        import dataclasses
        from ..ir import plug_back
        last_store = max(e.seq for e in s_mn + s_mx)

        def fields(t):
            for loc, fld in local_names.items():
                t = plug_back(t, loc, fld)
            return t
        # after `self.min_density = lowest; self.max_density = highest` the locals and the fields hold the same values
        conv_ev = lambda e: dataclasses.replace(e, value=fields(e.value), guards=tuple((fields(c), p) for c, p in e.guards)) \
            if e.seq > last_store else e
        dstores = [conv_ev(e) for e in dstores]
        cstores = [conv_ev(e) for e in cstores]
    shared_cost = 0
    for e in dstores + cstores:
        nl = node_loop(w.loops[e.loops[-1]]) if e.loops else None
        fulln = nl is not None and nl[0] == G and e.target[1] == nl[2]
        node = nl[2] if nl else None
        ii = nl[1] if nl else None
        eq_branch = has_guard(e.guards, eq)
        ne_branch = has_guard(e.guards, mk_not(eq))
        fld = e.target[2]
        ok = False
        if fulln and fld == "cost" and not eq_branch and not ne_branch:
            # one `cost = density - 1` after both arms assigned the density
            dread = ("attr", node, "density")
            prev = [d for d in dstores if d.target == dread and d.seq < e.seq and d.loops == e.loops
                    and d.guards[:len(e.guards)] == e.guards and len(d.guards) == len(e.guards) + 1]
            arms = {p for d in prev for c, p in d.guards[len(e.guards):] if c == eq}
            ok = alg.equal(alg.conv(e.value), alg.conv(dread) - 1) and len(prev) == 2 and arms == {True, False}
            shared_cost += ok
        elif fulln and eq_branch:
            want = MD if fld == "density" else MD - 1
            ok = alg.equal(alg.conv(e.value), want)
        elif fulln and ne_branch and ii is not None:
            p_i = alg.conv(("idx", pdf, ii))
            dform = (MD - 1) * (p_i - alg.conv(mn)) / (alg.conv(mx) - alg.conv(mn)) + 1
            if fld == "density":
                ok = alg.equal(alg.conv(e.value), dform)
            else:
                dread = ("attr", node, "density")
                prev = [d for d in dstores if d.target == dread and d.guards == e.guards and d.seq < e.seq]
                ok = (alg.equal(alg.conv(e.value), alg.conv(dread) - 1) and len(prev) == 1) or \
                    alg.equal(alg.conv(e.value), dform - 1)
        n_ok += ok
        rep.ev("PDF-map", e, ok,
               "density must be (MAX_DENSITY-1)(pdf-min)/(max-min)+1 (MAX_DENSITY when all pdf values are equal) and "
               "cost = density - 1, for every node")
    rep.fn("PDF-map-sites", fn, "density and cost are assigned in both the all-equal and the general case",
           len(dstores) == 2 and (len(cstores) == 2 or (len(cstores) == 1 and shared_cost == 1)),
           f"{len(dstores)} density store(s), {len(cstores)} cost store(s)")
    if hasattr(rep, "chk"):
        run_kinds(rep, w)


def _arms_name(W, a, b) -> bool:
    """Every arm of the arc weight W is about exactly the node pair {a, b}."""
    sel = as_selector(W)
    arms = [sel[1], sel[2]] if sel else [W]
    for arm in arms:
        if is_matrix_read(arm):
            pair = [arm[1][2], arm[2]]
            nodes = [t[1] if t[0] == "attr" and t[2] == "idx" else None for t in pair]
        elif is_metric_call(arm):
            nodes = [t[1] if t[0] == "attr" and t[2] == "features" else None for t in arm[2]]
        else:
            return False
        if sorted(map(repr, nodes)) != sorted(map(repr, [a, b])):
            return False
    return True


def check_eliminate(chk, rep, repo):
    w = graph_walk(repo, "KNNSubgraph", "eliminate_maxima_height")
    fn = w.entry
    G = ("self",)
    h = ("param", fn.params[1])
    st = [e for e in w.events if e.kind == "store"]
    ok = False
    if len(st) == 1 and st[0].loops:
        from ..schema import node_loop
        e = st[0]
        nl = node_loop(w.loops[e.loops[-1]])
        if nl is not None and nl[0] == G:
            node = nl[2]
            want = ("max", tuple(sorted([("bin", "-", ("attr", node, "density"), h), ("const", 0)], key=repr)))
            guard = ("cmp", "<", ("const", 0), h)
            ok = e.target == ("attr", node, "cost") and e.value == want and facts(e.guards) == (guard,)
    rep.fn("ELIM", fn, "height > 0: cost = max(density - height, 0) for every node; otherwise nothing changes", ok,
           "eliminate_maxima_height must be guarded by height > 0 and clamp density - height at 0")


def check_typestate(chk, rep, repo):
    """No two create_arcs on the same subgraph without destroy_arcs in between."""
    n = 0
    for cls in ("KNNSupervisedOPF", "UnsupervisedOPF"):
        w = model_walk(repo, cls, "fit")
        evs = [e for e in w.events if e.kind == "call" and e.name in ("create_arcs", "destroy_arcs")
               and e.target[1] == ("attr", ("self",), "subgraph")]
        state = "none"
        loop_entry = {}
        prev_loops = ()
        for e in evs:
            n += 1
            # entering / leaving loops: the state at the end of a loop body must equal the state at its entry
            for lid in e.loops:
                loop_entry.setdefault(lid, state)
            if e.name == "create_arcs":
                rep.ev("ARCS-typestate", e, state == "none",
                       "create_arcs is called while the arcs of an earlier call are still present "
                       "(neighbours are inserted, never cleared, by create_arcs)")
                state = "present"
            else:
                state = "none"
        # loop-carried: last state inside each loop vs entry
        for lid, st0 in loop_entry.items():
            inside = [e for e in evs if lid in e.loops]
            st = st0
            for e in inside:
                st = "present" if e.name == "create_arcs" else "none"
            li = w.loops[lid]
            rep.fn("ARCS-typestate-loop", li.fn, f"arc state is the same at entry and exit of the loop at line {li.line}",
                   st == st0, "the loop body leaves arcs behind for its next iteration", line=li.line)
    chk.floor("create_arcs / destroy_arcs calls in the two fit methods", n, 6)


def check_destroy(rep, repo, pre=""):
    """destroy_arcs (and reset, which ends with it) clears the arcs of EVERY node, unconditionally: this is what the
    typestate rule `create_arcs only on an arc-free graph` stands on."""
    from ..schema import node_loop
    from ..ir import facts
    specs = {"destroy_arcs": {"adjacency": None, "n_plateaus": ("const", 0)},
             "reset": {"pred": K("NIL"), "relevant": K("IRRELEVANT")}}
    for meth, fields in specs.items():
        w = graph_walk(repo, "Subgraph", meth)
        fn = w.entry
        for fld, want in fields.items():
            st = [e for e in w.events if e.kind == "store" and e.target[0] == "attr" and e.target[2] == fld]
            ok = False
            detail = f"expected one unconditional store to .{fld} per node, in a loop over all nodes"
            if len(st) == 1 and len(st[0].loops) == 1 and not facts(st[0].guards):
                nl = node_loop(w.loops[st[0].loops[0]])
                full = nl is not None and nl[0] == ("self",) and st[0].target[1] == nl[2]
                val = st[0].value
                okv = (val == want) if want is not None else (
                    (val[0] == "alloc" and val[1] == "list" and not val[2]) or val == ("list", ()))
                ok = full and okv
                if not full:
                    detail = f"the loop '{show(w.loops[st[0].loops[0]].domain)}' does not visit every node of the graph"
                elif not okv:
                    detail = f".{fld} is set to '{show(val)}'"
            rep.fn(pre + "DESTROY", fn, f"{meth}: .{fld} is cleared for every node", ok, detail)
        # ... and nothing else: the costs, densities, labels and predecessors (for destroy_arcs) that fit computed are what
        # predict reads afterwards
        allowed = set(fields) | ({"adjacency", "n_plateaus"} if meth == "reset" else set())
        for e in w.events:
            if e.kind == "store" and e.target[0] == "attr" and e.target[2] not in allowed:
                rep.ev(pre + "DESTROY-stray", e, False,
                       f"{meth} also writes .{e.target[2]}: state computed by fit (and read by predict) is wiped when the arcs are dropped")
    w = graph_walk(repo, "Subgraph", "reset")
    calls = [e for e in w.events if e.kind == "call" and e.name in ("destroy_arcs", "<inline>")
             and ("destroy_arcs" in (e.name, ) or (e.target and str(e.target[1]).endswith(".destroy_arcs")))]
    okr = len(calls) >= 1 and not any(facts(e.guards) for e in calls)
    if not okr:
        # ... or does the same itself: both arc fields cleared for every node, unconditionally, in this walk
        done = 0
        for fld, want in specs["destroy_arcs"].items():
            st = [e for e in w.events if e.kind == "store" and e.target[0] == "attr" and e.target[2] == fld]
            if len(st) == 1 and len(st[0].loops) == 1 and not facts(st[0].guards):
                nl = node_loop(w.loops[st[0].loops[0]])
                val = st[0].value
                okv = (val == want) if want is not None else ((val[0] == "alloc" and val[1] == "list" and not val[2]) or val == ("list", ()))
                if nl is not None and nl[0] == ("self",) and st[0].target[1] == nl[2] and okv:
                    done += 1
        okr = done == len(specs["destroy_arcs"])
    rep.fn(pre + "DESTROY", w.entry, "reset also destroys the arcs", okr,
           "reset must call destroy_arcs unconditionally (or clear both arc fields of every node itself)")


def check(chk, repo):
    chk.explanation = EXPLANATION
    rep = Rep(chk, repo)
    check_create_arcs(chk, rep, repo)
    check_pdf(chk, rep, repo)
    check_eliminate(chk, rep, repo)
    check_typestate(chk, rep, repo)
    check_destroy(rep, repo)
    from ..common import check_model_premises
    check_model_premises(rep, repo)
    # premise: the distances ranked and summed are the configured dissimilarity (flag, matrix and node pair of every selector)
    from .c10 import check_walk_selectors
    for m in ("create_arcs", "calculate_pdf"):
        check_walk_selectors(rep, repo, "graph", "KNNSubgraph", m, set(), pre="WEIGHT:")
    chk.undecided.append("that the k slots kept by the scan are the k smallest distances (insertion-scan loop invariant)")
    chk.assumptions.append("k >= 1; ties among distances may appear in either order")
