"""C09: a prediction depends only on the fitted model and the sample itself (non-interference)."""

from ..common import model_walk, run_kinds
from ..core import AnalysisError
from ..effects import Effects
from ..ir import is_log_call, read_summaries, root_object, show, subterms, write_summaries
from ..kinds import count_of
from ..rules_ift import Rep
from ..rules_knn import check_knn_scan, find_knn_scans

EXPLANATION = (
    "Non-interference argument for the three predict bodies (SupervisedOPF - shared by SemiSupervisedOPF -, "
    "KNNSupervisedOPF, UnsupervisedOPF): (1) the set of model fields written during predict (its own stores "
    "on self-rooted paths plus the write summaries of the methods it calls on the model, plus 'features' if "
    "any registry metric or its decorator writes through a parameter) is disjoint from the set of model "
    "fields it reads, so neither earlier samples nor earlier calls can influence a later prediction; (2) in "
    "the per-sample loop no value defined in a previous iteration is read (every local is defined earlier in "
    "the same iteration on every path), and arrays allocated outside the loop but written inside are either "
    "fully reset at the top of each iteration or read only under the validity test of the paired buffer; "
    "(3) the batch position has kind NodeIdx[query graph] and is used only to select the query node - in "
    "particular it is never compared with a training index (kind rule K3); (4) the result lists the query "
    "nodes in order. This decides the property for all batches and call sequences, modulo the effect "
    "summaries being name-resolved over-approximations."
)

ALLOWED_WRITES = {"relevant"}


def model_rooted(t) -> bool:
    return root_object(t) == ("self",)


def check_one(chk, rep, repo, cls, eff):
    w = model_walk(repo, cls, "predict")
    fn = w.entry
    ws, rs = write_summaries(repo), read_summaries(repo)
    writes = {}
    reads = set()
    for ev in w.events:
        tops = [x for x in (ev.target, ev.value) if x is not None] + list(ev.args) + [v for _, v in ev.kwargs]
        tops += [g for g, _ in ev.guards]
        for top in tops:
            for t in subterms(top):
                if t[0] == "attr" and model_rooted(t):
                    if ev.kind == "store" and t == ev.target:
                        continue
                    if ev.kind == "call" and t == ev.target:
                        continue  # the method name itself
                    reads.add(t[2])
        if ev.kind == "store" and model_rooted(ev.target):
            f = ev.target
            while f[0] == "idx":
                f = f[1]
            if f[0] == "attr":
                writes.setdefault(f[2], []).append(ev)
        if ev.kind == "call" and ev.target is not None and ev.target[0] == "attr":
            recv, meth = ev.target[1], ev.target[2]
            if show(recv).startswith("logger"):
                continue
            if model_rooted(recv) or any(model_rooted(a) for a in ev.args):
                if meth == "distance_fn":
                    for f in eff.registry_functions():
                        if any(eff.writes.get(f.fq, {}).values()):
                            writes.setdefault("features", []).append(ev)
                    for fq, wr in eff.writes.items():
                        if ".<locals>." in fq and fq.startswith("opfython.utils.decorator") and any(wr.values()):
                            writes.setdefault("features", []).append(ev)
                    reads |= {"features"}
                    continue
                if root_object(recv)[0] in ("alloc", "new") and not any(model_rooted(a) for a in ev.args):
                    continue
                for f in ws.get(meth, set()):
                    writes.setdefault(f.lstrip("_"), []).append(ev)
                reads |= {f.lstrip("_") for f in rs.get(meth, set())}
    chk.note(f"{cls}.predict.model_fields_read", sorted(reads))
    chk.note(f"{cls}.predict.model_fields_written", sorted(writes))
    clash = set(writes) & reads
    rep.fn("NI-disjoint", fn, f"{cls}.predict: fields written on the model {sorted(writes)} are never read by predict",
           not clash, f"written and read: {sorted(clash)}")
    for f in sorted(writes):
        for ev in writes[f][:3]:
            if f in clash or f not in ALLOWED_WRITES:
                rep.ev("NI-write", ev, False,
                       f"predict writes the model field '{f}'" + (", which predict also reads" if f in clash else
                                                                   " (only relevance flags may be written)"))
    # (2) per-sample loop
    per = None
    from ..schema import node_loop
    for li in w.loops.values():
        if li.kind == "for" and not li.loops:
            nlp = node_loop(li)
            if nlp is not None and nlp[0][0] == "new":
                per = li
                Q, i, x = nlp
    if per is None:
        raise AnalysisError(f"{cls}.predict: per-sample loop over the prediction subgraph not found")
    tainted = {("phi", per.lid, n) for n in per.carried}
    changed = True
    while changed:
        changed = False
        for li in w.loops.values():
            if per.lid in li.loops:
                for n, (init, end) in li.carried.items():
                    ph = ("phi", li.lid, n)
                    if ph not in tainted and any(s in tainted for s in subterms(init)):
                        # a carried variable whose first value comes from the previous sample
                        tainted.add(ph)
                        changed = True
    n_ev = 0
    for ev in w.events:
        if per.lid not in ev.loops or ev.kind == "bind":
            continue
        n_ev += 1
        tops = [x for x in (ev.target, ev.value) if x is not None] + list(ev.args) + [g for g, _ in ev.guards]
        bad = [s for top in tops for s in subterms(top) if s in tainted]
        if bad:
            rep.ev("NI-carried", ev, False,
                   f"'{bad[0][2]}' is read before it is assigned in this iteration: its value comes from the "
                   "previous sample of the batch")
    rep.fn("NI-carried-summary", fn, f"{n_ev} events of the per-sample loop read no value of a previous iteration",
           True, line=per.line)
    # scratch arrays
    from ..common import require_scalar_fragment
    require_scalar_fragment(w, w.entry.qual)
    from ..rules_knn import unclamp_k
    wk = unclamp_k(w, ("attr", ("self",), "subgraph"))
    scans = find_knn_scans(wk)
    # the number of neighbours consulted is a property of the model: it must not depend on the batch being predicted
    for sc0 in scans:
        dep = [t for t in subterms(sc0.k) if t[0] == "new" and t[1] in ("Subgraph", "KNNSubgraph")] + \
              [t for t in subterms(sc0.k) if t[0] == "param"]
        rep.fn("NI-k", fn, "the number of neighbours does not depend on the query batch", not dep,
               f"k is '{show(sc0.k)[:100]}': it reads the prediction subgraph / the arguments, so the same sample is "
               "classified with another k in a batch of another size", line=sc0.per.line)
    scratch = {}
    for ev in wk.events:
        if ev.kind == "store" and per.lid in ev.loops:
            r = root_object(ev.target)
            if r[0] == "alloc":
                alloc_ev = [e for e in wk.events if e.kind == "call" and e.value == r]
                if alloc_ev and per.lid not in alloc_ev[0].loops:
                    scratch.setdefault(r, ev)
    covered = set()
    for sc in scans:
        check_knn_scan(rep, "", sc, ("attr", ("self",), "subgraph"), allow_self_skip=False, orientation=False)
        covered |= {sc.D, sc.N}
    # a result buffer with one cell per query (`out[i] = v` at the batch position, never read inside the per-sample loop)
    # carries nothing from one sample to another
    own_cell = set()
    for arr, ev in scratch.items():
        stores = [e for e in wk.events if e.kind == "store" and root_object(e.target) == arr and per.lid in e.loops]
        reads = [e for e in wk.events if per.lid in e.loops and e.kind != "bind" and any(
            root_object(t) == arr and t[0] == "idx" for top in [x for x in (e.value,) if x is not None] + list(e.args or ())
            + [g for g, _ in e.guards] for t in subterms(top))]
        if i is not None and stores and all(e.target == ("idx", arr, i) and not e.aug for e in stores) and not reads:
            own_cell.add(arr)
    if not scans and any(arr not in own_cell for arr in scratch):
        from ..core import AnalysisError
        arr0 = next(a for a in scratch if a not in own_cell)
        raise AnalysisError(f"{w.entry.qual}: buffer '{show(arr0)[:60]}' is kept across the queries of a batch by a scan the "
                            "k-nearest rules do not recognise (no insertion scan found): whether a query can see what an "
                            "earlier query left in it cannot be decided for this form")
    for arr, ev in scratch.items():
        rep.ev("NI-scratch", ev, arr in covered or arr in own_cell,
               f"array '{show(arr)}' outlives one sample and is neither reset per sample nor read under a validity test")
    # (3) kinds: the batch position only selects the query node
    for ev in w.events:
        if per.lid not in ev.loops or ev.kind == "bind" or i is None or is_log_call(ev):
            continue
        tops = [t for t in (ev.target, ev.value) if t is not None] + list(ev.args) + [g for g, _ in ev.guards]
        for top in tops:
            for s in subterms(top):
                if i in s[1:] if isinstance(s, tuple) else False:
                    if s != x and s[0] not in ("iter", "iterproj") and not (s[0] == "idx" and s[1] in own_cell and s[2] == i):
                        rep.ev("NI-position", ev, False,
                               f"the batch position is used for something other than selecting the query node: '{show(s)[:100]}'")
    for ev in w.events:
        if ev.kind == "store" and root_object(ev.target) == Q:
            t = ev.target
            while t[0] == "attr":
                t = t[1]
            if t[0] == "idx" and t[1] == ("attr", Q, "nodes") and per.lid in ev.loops:
                rep.ev("NI-query-node", ev, t == x,
                       "" if t == x else "a result is stored on a query node other than the one being predicted")
    run_kinds(rep, w)
    # (4) result order
    from ..rules_premise import main_returns
    rets = main_returns(w)
    okr = False
    if len(rets) == 1:
        v = rets[0].value
        comps = [v] if v[0] == "listcomp" else (list(v[1]) if v[0] == "tuple" else [])
        okr = bool(comps)
        for c in comps:
            if not (c[0] == "listcomp" and len(c[2]) == 1 and c[2][0][0] == ("attr", Q, "nodes") and not c[2][0][2]
                    and c[1][0] == "attr" and c[1][1] == ("iter", c[2][0][0], c[2][0][1])):
                okr = False
    if not okr and len(rets) == 1 and x is not None:
        from ..rules_premise import appended_results
        okr = appended_results(w, per, x, rets[0].value) is not None  # one `out.append(node.field)` per query, after its stores
    rep.fn("NI-result-order", fn, "results are listed per query node, in query order", okr,
           f"returns '{show(rets[0].value)[:120] if rets else '?'}'")
    return len(scans)


def check(chk, repo):
    chk.explanation = EXPLANATION
    rep = Rep(chk, repo)
    from ..common import get_effects
    eff = get_effects(repo)
    n = 0
    for cls in ("SupervisedOPF", "KNNSupervisedOPF", "UnsupervisedOPF"):
        n += check_one(chk, rep, repo, cls, eff)
    semi, sup = repo.need_method("SemiSupervisedOPF", "predict"), repo.need_method("SupervisedOPF", "predict")
    rep.fn("NI-shared", semi, "SemiSupervisedOPF.predict is SupervisedOPF.predict", semi.fq == sup.fq,
           "semi-supervised prediction is a separate function that this rule set did not analyse")
    chk.floor("k-nearest scans in predict methods", n, 2)
    from ..common import check_model_premises
    check_model_premises(rep, repo)
    # a query's identity (its row of a pre-computed matrix) is what the caller says it is, never its batch position
    from .c10 import check_constructor_forwarding, check_model_forwarding, check_row_ids
    check_row_ids(chk, rep, repo, only={"Subgraph._build"}, floor=1)
    # ... and the distance read for (training node, query) is the entry of THEIR identifiers (never of a batch position)
    from .c10 import check_walk_selectors
    for cls in ("SupervisedOPF", "KNNSupervisedOPF", "UnsupervisedOPF"):
        check_walk_selectors(rep, repo, "model", cls, "predict", set(), pre="WEIGHT:")
    chk.floor("query-graph constructions in predict", check_model_forwarding(rep, repo, ("predict",)), 3)
    check_constructor_forwarding(rep, repo)
    chk.assumptions += ["effect summaries resolve callees by method name (over-approximation)",
                        "a fresh Subgraph/KNNSubgraph built inside predict shares no state with the model "
                        "except views of the caller's query rows"]
