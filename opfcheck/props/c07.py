"""C07: no call modifies caller data; results depend only on argument values."""

import ast

from ..core import AnalysisError, unparse
from ..effects import Effects, array_params
from ..ir import show
from ..rules_ift import Rep

EXPLANATION = (
    "Interprocedural effect analysis over the whole package (name-resolved call graph, per-function "
    "flow-sensitive IR): (i) for every function reachable from any of the 47 registry values (through its "
    "decorator chain), from the four fit and the four predict methods, no parameter that can carry a caller "
    "array is written through - in-place augmented assignment, subscript store, in-place array method, out=, "
    "numpy in-place helpers, or passing it to a callee that does - and no field that holds a view of caller "
    "rows (Node.features, found by the analysis) is written through; NumPy view/copy rules decide aliasing "
    "(basic index / asarray / row iteration = view, array index / arithmetic = copy). (ii) no function in "
    "that set declares `global`, assigns a module attribute, or mutates a module-level container, and the "
    "module-level tables it reads are never assigned elsewhere. (iii) no RNG / clock / id / hash value is "
    "produced in that set except clock reads whose value reaches only logger arguments. "
    "SupervisedOPF.learn is outside 'fit or predict' (C17 states that it exchanges samples)."
)

ENTRY_METHODS = [(c, m) for c in ("SupervisedOPF", "SemiSupervisedOPF", "KNNSupervisedOPF", "UnsupervisedOPF")
                 for m in ("fit", "predict")]


def check(chk, repo):
    chk.explanation = EXPLANATION
    rep = Rep(chk, repo)
    from ..common import get_effects
    base = get_effects(repo)
    roots = list(base.registry_functions())
    for cls, m in ENTRY_METHODS:
        roots.append(repo.need_method(cls, m))
    # the decorator closures receive the caller's vectors first
    for fi in list(base.funcs.values()):
        if ".<locals>." in fi.name and fi.module == "opfython.utils.decorator":
            roots.append(fi)
    eff = Effects(repo, roots=roots)
    chk.note("borrow_holding_fields", sorted(f for f in eff.borrow_fields if not f.startswith("_")))
    rep.fn("BORROW-fields", repo.need_method("Node", "__init__"),
           "Node.features is recognised as a view of caller rows", "features" in eff.borrow_fields,
           "the analysis no longer sees that Node.features aliases the caller's matrix")
    registry = eff.registry_functions()
    chk.floor("registry metric functions", len(registry), 47)
    roots.append(repo.need_method("OPF", "get_distances"))
    reach = eff.reachable(roots)
    # learn / prune are public entry points of their own (C17), reached only through name-based
    # over-approximation of `self.<m>` calls; they are not part of "fit or predict"
    reach = [f for f in reach if f.qual not in ("SupervisedOPF.learn", "SupervisedOPF.prune")]
    chk.note("functions_reachable", len(reach))
    chk.floor("functions reachable from distances, fit and predict", len(reach), 60)
    n_params = 0
    for fi in sorted(reach, key=lambda f: f.fq):
        ws = eff.writes.get(fi.fq, {})
        arrs = array_params(fi)
        is_root = any(fi.fq == r.fq for r in roots)
        for p in arrs:
            if not is_root and (fi.fq, p) not in eff.borrowed_params:
                continue  # this parameter never carries caller data (a heap, a scratch buffer, a local list, ...)
            n_params += 1
            hits = ws.get(p, [])
            if not hits:
                rep.fn("OWN-param", fi, f"{fi.qual}({p}) is not written through", True)
            for ev, how in hits:
                rep.ev("OWN-param", ev, False, f"parameter '{p}' of {fi.qual}: {how}")
        for p, hits in ws.items():
            if p.startswith("<field"):
                for ev, how in hits:
                    rep.ev("OWN-field", ev, False, f"{p[1:-1]} holds a view of the caller's rows: {how}")
    chk.note("array_parameters_checked", n_params)
    # (ii) module state
    for fi in reach:
        for n in ast.walk(fi.node):
            if isinstance(n, (ast.Global, ast.Nonlocal)):
                rep.fn("STATE-global", fi, unparse(n), False, "function rebinds module/closure state", line=n.lineno)
    mutable_tables = {}
    for mi in repo.modules.values():
        for node in mi.tree.body:
            if isinstance(node, ast.Assign):
                for t in node.targets:
                    if isinstance(t, ast.Name) and isinstance(node.value, (ast.Dict, ast.List, ast.Set)):
                        mutable_tables.setdefault(t.id, []).append(mi.name)
    for fi in repo.all_functions():
        mi = repo.modules[fi.module]
        for n in ast.walk(fi.node):
            tgt = None
            if isinstance(n, ast.Assign):
                tgt = n.targets
            elif isinstance(n, ast.AugAssign):
                tgt = [n.target]
            for t in tgt or []:
                base = t
                while isinstance(base, ast.Subscript):
                    base = base.value
                d = None
                if isinstance(base, ast.Name) and base.id in mutable_tables and base.id not in fi.params \
                        and isinstance(t, ast.Subscript):
                    d = base.id
                if isinstance(base, ast.Attribute) and isinstance(base.value, ast.Name) \
                        and base.value.id in mi.imports and mi.imports[base.value.id].startswith("opfython"):
                    d = unparse(base)
                if d:
                    rep.fn("STATE-module-write", fi, unparse(n), False,
                           f"module-level state '{d}' is modified at run time", line=n.lineno)
            if isinstance(n, ast.Call) and isinstance(n.func, ast.Attribute) and isinstance(n.func.value, ast.Name) \
                    and n.func.value.id in mutable_tables and n.func.value.id not in fi.params \
                    and n.func.attr in ("append", "update", "pop", "clear", "setdefault", "extend", "insert", "remove"):
                if not _is_local(fi, n.func.value.id):
                    rep.fn("STATE-module-write", fi, unparse(n), False,
                           f"module-level table '{n.func.value.id}' is mutated at run time", line=n.lineno)
    rep.fn("STATE-summary", repo.need_method("OPF", "__init__"),
           f"module-level tables {sorted(mutable_tables)} are never written at run time", True)
    # (iii) nondeterminism
    n_clock = 0
    def via_caller(f):
        """A private helper is analysed inside the public functions it is inlined into (a clock value may be handed
        to it or returned by it on its way to the logger)."""
        return f.name.startswith("_") and not f.name.startswith("__") and ".<locals>." not in f.name and any(
            f.fq in eff.inlined_walker(g).inlined for g in reach if g is not f and not g.name.startswith("_"))
    seen_clock = set()
    for fi in reach:
        if via_caller(fi):
            continue
        for ev in eff.nondet_calls(fi, inlined=True):
            name = ev.target[1] if ev.target[0] == "mod" else show(ev.target)
            key = (ev.fn.fq, getattr(ev.node, "lineno", 0), getattr(ev.node, "col_offset", 0), name)
            if key in seen_clock:
                continue
            seen_clock.add(key)
            if name.startswith("time."):
                ok, where = eff.flows_only_to_logger(fi, ev, inlined=True)
                n_clock += 1
                rep.ev("DET-clock", ev, ok, "" if ok else f"a clock value reaches '{where}' (not only the logger)")
            else:
                rep.ev("DET-source", ev, False, f"nondeterministic source {name} inside a distance/fit/predict path")
    chk.note("clock_reads_checked", n_clock)
    # (iii-b) recycled memory: an array from np.empty holds whatever an earlier computation of the process left in
    # the block.  An element that is read to decide or compute its own new value (running maximum / sum / counter)
    # must have a defined start: the array is zeros/ones/full, or is fill()-ed / slice-assigned before, on every path
    n_empty = 0
    for fi in reach:
        for ev, arr, how in uninitialised_accumulators(eff.walker(fi)):
            n_empty += 1
            rep.ev("DET-uninit", ev, how is None, how or "")
    # ... and a masked ufunc (`where=`) leaves the masked-out slots of its `out=` array untouched: handing it np.empty
    # keeps recycled memory in exactly those slots
    for fi in reach:
        for ev in eff.walker(fi).events:
            if ev.kind != "call":
                continue
            kw = dict(ev.kwargs or ())
            o = kw.get("out")
            if "where" in kw and o is not None:
                o = _peel(o)
                n_empty += 1
                bad = o[0] == "alloc" and o[1] in ("numpy.empty", "numpy.empty_like", "numpy.ndarray")
                rep.ev("DET-uninit", ev, not bad,
                       f"the masked operation writes only where its `where=` mask holds; the other slots of '{show(o)[:60]}' keep "
                       "whatever the allocator handed back (np.empty): the result depends on what the process computed earlier")
    chk.note("np_empty_accumulators_checked", n_empty)
    # (iv) hidden state in decorators: anything on a distance / fit / predict path that is wrapped by a decorator
    # other than the known transparent ones keeps state between calls (memoisation) or changes the call
    transparent = {"njit", "jit", "avoid_zero_division", "property", "setter", "wraps", "staticmethod", "classmethod"}
    for fi in reach:
        for d in fi.decorators:
            last = d.split("(")[0].split(".")[-1]
            if last not in transparent:
                from ..rules_premise import passthrough_decorator
                okd, whyd = passthrough_decorator(repo, fi, d)
                if okd:
                    rep.fn("STATE-decorator", fi, f"@{d} is a pass-through wrapper (times / logs, calls once, returns the result)", True)
                    continue
                rep.fn("STATE-decorator", fi, f"@{d}", False, (whyd + "; " if whyd else "") +
                       f"{fi.qual} is wrapped by @{d}: a cache or wrapper keeps state between calls, so results depend "
                       "on the call history (stale entries survive a re-fit or a reused buffer)")
    # (iv-b) the repository's own decorators are stateless: the wrapper closure captures the wrapped function only
    n_clos = 0
    dec_mod = repo.module("opfython.utils.decorator")
    for name, fi in sorted(dec_mod.functions.items()):
        inner = [x for x in fi.node.body if isinstance(x, (ast.FunctionDef, ast.AsyncFunctionDef))]
        outer_locals = set()
        for st in fi.node.body:
            if st in inner:
                continue
            for x in ast.walk(st):
                if isinstance(x, ast.Name) and isinstance(x.ctx, ast.Store):
                    outer_locals.add(x.id)
        for fn_in in inner:
            n_clos += 1
            own = {a.arg for a in fn_in.args.posonlyargs + fn_in.args.args + fn_in.args.kwonlyargs}
            captured = sorted({x.id for x in ast.walk(fn_in) if isinstance(x, ast.Name) and x.id in outer_locals
                               and x.id not in own})
            scoped = [x for x in ast.walk(fn_in) if isinstance(x, (ast.Nonlocal, ast.Global))]
            fattr = [x for x in ast.walk(fi.node) if isinstance(x, (ast.Assign, ast.AugAssign))
                     for t in (x.targets if isinstance(x, ast.Assign) else [x.target])
                     if isinstance(t, (ast.Attribute, ast.Subscript)) and isinstance(getattr(t, "value", None), ast.Name)
                     and t.value.id in ({fn_in.name} | set(fi.params))]
            ok = not captured and not scoped and not fattr
            rep.fn("STATE-closure", fi, f"the wrapper returned by {name} captures only the wrapped function", ok,
                   "" if ok else f"the wrapper keeps state between calls ({'captures ' + ', '.join(captured) if captured else 'nonlocal/global or function attribute'}): "
                   "a result can depend on earlier calls (e.g. the same array object refilled in place)")
    chk.note("decorator_closures_checked", n_clos)
    # (iv-b) every node starts from its own fresh state: defaults set per object, no container shared through a default
    from ..rules_premise import check_mutable_defaults, check_node_defaults
    check_node_defaults(rep, repo, "FRESH-")
    check_mutable_defaults(rep, repo, "FRESH-")
    # (v) fit / predict do not change the model's configuration, and fit rebuilds its graph from its arguments
    from ..common import check_fresh_graph, competitions_of, model_walk
    from ..ir import Walker
    for cls in ("SupervisedOPF", "SemiSupervisedOPF", "KNNSupervisedOPF", "UnsupervisedOPF"):
        config = set()
        for ci in repo.mro(cls):
            init = ci.methods.get("__init__")
            if init is not None:
                wi = Walker(repo, init, self_class=cls, inline=lambda f: False)
                for e in wi.events:
                    if e.kind == "store" and e.target[0] == "attr" and e.target[1] == ("self",):
                        config.add(e.target[2])
        config.discard("subgraph")
        for m in ("fit", "predict"):
            w = model_walk(repo, cls, m)
            if w.entry.cls != cls and m == "predict":
                continue
            bad = [e for e in w.events if e.kind == "store" and e.target[0] == "attr" and e.target[1] == ("self",)
                   and e.target[2] in config]
            bad = [e for e in bad if not _per_call_scratch(repo, cls, w, e.target[2])]
            rep.fn("STATE-config", w.entry, f"{cls}.{m} leaves the configuration {sorted(config)} untouched", not bad,
                   "" if not bad else f"'{bad[0].text()[:80]}' changes an option of the model: a later fit/predict of the same "
                   "object on other data gives different results than a fresh, identically configured model")
            # ... also element-wise, through a callee: a configuration array (the loaded distance matrix) handed to a
            # function that writes through that parameter is changed for every later call
            from ..effects import bind_args
            for e in w.events:
                if e.kind != "call":
                    continue
                for callee in eff.callees(e, e.fn):
                    cw = eff.writes.get(callee.fq, {})
                    if not cw:
                        continue
                    for cp, arg in bind_args(callee, e):
                        a = _peel(arg)
                        if cp in cw and a[0] == "attr" and a[1] == ("self",) and a[2] in config:
                            ev0, how = cw[cp][0]
                            rep.ev("STATE-config", e, False,
                                   f"self.{a[2]} is passed to {callee.qual}, which writes through its parameter '{cp}' "
                                   f"({how}: {ev0.text()[:60]}): the model's own {a[2]} is altered by {cls}.{m}, so a second "
                                   "call on the same inputs computes with different values")
        w, comps = competitions_of(repo, cls, "fit", 2)
        check_fresh_graph(rep, w, comps[0].loop.first_seq, cls[:4] + ":")
    chk.undecided.append("bit-for-bit equality of two fits as a run-time fact (follows from determinism + no shared state)")
    chk.assumptions += ["NumPy view/copy rules as documented", "numba-compiled bodies have NumPy semantics",
                        "call resolution by method name is an over-approximation of the real call graph"]


def _per_call_scratch(repo, cls, w, field) -> bool:
    """A field the documented API does not know (no constructor parameter, no documented property of that name) that this
    entry point re-creates - unconditionally, from a fresh value - before anything reads it: per-call working state, not
    an option carried from call to call."""
    from ..ir import api_signature, subterms
    from ..rules_premise import without_validation
    name = field.lstrip("_")
    for ci in repo.mro(cls):
        init = ci.methods.get("__init__")
        if init is not None and api_signature(init) is not None and name in api_signature(init):
            return False
        g = ci.getters.get(name)
        if g is not None and api_signature(g) is not None:
            return False
    v = without_validation(w)
    tgt = ("attr", ("self",), field)
    for e in v.events:
        tops = [x for x in (e.value,) if x is not None] + list(e.args or ()) + [g for g, _ in e.guards]
        if e.kind == "store" and e.target == tgt:
            fresh = e.value[0] in ("alloc", "const", "list", "dict", "tuple", "new") and not e.loops and not e.guards and not e.aug
            return fresh and not any(t == tgt for top in tops for t in subterms(top))
        if e.kind == "store":
            tops.append(e.target)
        if any(t == tgt for top in tops for t in subterms(top)):
            return False  # read before it is re-created
    return False


def _peel(t):
    while t[0] == "old":
        t = t[1]
    return t


def uninitialised_accumulators(w):
    """(store event, array, reason or None) for every self-dependent element update of an np.empty array allocated in
    the walked function: `A[e] op= v`, `A[e] = f(A[e])`, or `A[e] = v` under a test that reads A[e]."""
    from ..ir import subterms
    allocs = {}
    for ev in w.events:
        if ev.kind == "call" and ev.value is not None and ev.value[0] == "alloc" \
                and ev.value[1] in ("numpy.empty", "numpy.empty_like", "numpy.ndarray"):
            allocs[ev.value] = ev
    if not allocs:
        return
    for ev in w.events:
        if ev.kind != "store" or ev.target[0] != "idx" or _peel(ev.target[1]) not in allocs:
            continue
        arr = _peel(ev.target[1])
        ix = ev.target[2]

        def self_read(t):
            return any(x[0] == "idx" and _peel(x[1]) == arr and x[2] == ix for x in subterms(t))
        dep = bool(ev.aug) or self_read(ev.value) or any(self_read(c) for c, _ in ev.guards)
        if not dep:
            continue
        init = None
        for e2 in w.events:
            if e2.seq >= ev.seq:
                break
            whole = (e2.kind == "call" and e2.target is not None and e2.target[0] == "attr" and e2.target[2] == "fill"
                     and _peel(e2.target[1]) == arr) or \
                    (e2.kind == "store" and e2.target[0] == "idx" and _peel(e2.target[1]) == arr
                     and e2.target[2][0] == "slice" and all(x == ("const", None) for x in e2.target[2][1:]))
            if whole and e2.loops == ev.loops[:len(e2.loops)] and e2.guards == ev.guards[:len(e2.guards)]:
                init = e2
        how = None
        if init is None:
            how = (f"{show(arr)} comes from np.empty and its element [{show(ix)}] is read to compute its own new value "
                   "before anything defined it: the start value is recycled memory, so the result depends on what the "
                   "process computed earlier")
        yield ev, arr, how


def _is_local(fi, name):
    for n in ast.walk(fi.node):
        if isinstance(n, ast.Assign):
            for t in n.targets:
                if isinstance(t, ast.Name) and t.id == name:
                    return True
    return False
