"""C10: pre-computed distances are equivalent to computing the metric on the fly (necessary conditions)."""

from ..common import graph_walk, model_walk, run_kinds
from ..core import AnalysisError
from ..ir import Walker, has_guard, mk_not, show, subterms
from ..kinds import count_of
from ..rules_ift import Rep
from ..schema import is_flag, is_matrix, weight_terms
from ..termalg import TermAlgebra

EXPLANATION = (
    "Necessary structural conditions, each of which breaks the equivalence when violated: (a) SELECTOR AGREEMENT "
    "at every arc-weight site (10 today): the pre-computed arm reads M[a.idx][b.idx] and the metric arm is called "
    "on (a.features, b.features) for the SAME two nodes in the SAME order (the registry contains asymmetric "
    "metrics), the flag selecting the arms is the pre-computed flag with the right polarity, M is the loaded "
    "matrix, and the KNN-subgraph routines receive the model's function / flag / matrix in the right positions; "
    "(b) ROW-ID PROVENANCE (K6): Subgraph._build gives node i the id I[i] taken with the same enumerate counter "
    "that yields its feature row (or i itself when no index array is given), every other Node construction is "
    "reported, and each model forwards its I_* parameter next to the matching X_*; (c) MATRIX BUILDERS: "
    "pre_compute_distance and get_distances range over all rows / nodes and store at [i][j] the metric of (i, j) "
    "in that order; normalisation is (D - min)/(max - min); (d) FILE AGREEMENT: for every extension the reader "
    "dispatches on, the delimiter np.savetxt writes is the delimiter that extension's loader parses, and no lossy "
    "fmt is given (default %.18e round-trips float64). Bit-equality of two runs is a run-time fact that follows; "
    "it is not decided."
)

WALKS = (
    ("model", "SupervisedOPF", "fit"), ("model", "SupervisedOPF", "predict"), ("model", "SemiSupervisedOPF", "fit"),
    ("graph", "KNNSubgraph", "create_arcs"), ("graph", "KNNSubgraph", "calculate_pdf"),
    ("model", "KNNSupervisedOPF", "predict"), ("model", "UnsupervisedOPF", "predict"),
    ("model", "UnsupervisedOPF", "_normalized_cut"),
)


def _private_same_module(fi):
    """Inline private module-level helpers of the same module (extract-function refactorings)."""
    return lambda f: f.cls is None and f.module == fi.module and f.name.startswith("_")


def node_of_field(t, field):
    if t[0] == "attr" and t[2] == field:
        return t[1]
    return None


def check_selectors(chk, rep, repo):
    seen = set()
    for kind, cls, m in WALKS:
        check_walk_selectors(rep, repo, kind, cls, m, seen)
    check_selector_forwarding(chk, rep, repo, seen)


def check_walk_selectors(rep, repo, kind, cls, m, seen, pre=""):
    """Every arc weight of one entry point is `matrix[a.idx][b.idx] if <the configured flag> else metric(a.features,
    b.features)` for the same ordered pair of nodes (also used as a premise by the forest properties: the weights that
    compete are the configured dissimilarity)."""
    if True:
        w = model_walk(repo, cls, m) if kind == "model" else graph_walk(repo, cls, m)
        wts = weight_terms(w)
        if not wts:
            raise AnalysisError(f"{cls}.{m}: no arc-weight selector found (the rule would pass vacuously)")
        if pre:
            from .c03 import _Only
            rep = _Only(rep, pre, None)
        for form, flag, pre, fn, ev in wts:
            key = (ev.fn.fq, ev.line, w.entry.fq)
            if key in seen:
                continue
            seen.add(key)
            okflag = is_flag(flag)
            rep.ev("SEL-flag", ev, okflag,
                   "" if okflag else f"the matrix arm is selected by '{show(flag)}', not by the pre-computed flag "
                   "(or with inverted polarity)", construct=f"selector at {ev.fn.qual}: {ev.text()[:80]}")
            M, a, b = pre[1][1], pre[1][2], pre[2]
            rep.ev("SEL-matrix", ev, is_matrix(M), f"matrix arm reads '{show(M)}' instead of the loaded matrix",
                   construct=f"matrix of selector at {ev.fn.qual}: {ev.text()[:80]}")
            fa, fb = (fn[2] + (None, None))[:2]
            na, nb = node_of_field(a, "idx"), node_of_field(b, "idx")
            ma = node_of_field(fa, "features") if fa else None
            mb = node_of_field(fb, "features") if fb else None
            ok = na is not None and nb is not None and na == ma and nb == mb and len(fn[2]) == 2
            detail = ""
            if not ok:
                if na is None or nb is None:
                    detail = f"matrix arm is indexed by '{show(a)[:60]}', '{show(b)[:60]}': node ids (.idx) are required"
                elif na == mb and nb == ma and na != nb:
                    detail = ("the two arms name the nodes in opposite order: M[a][b] vs metric(b, a) differ for "
                              "the asymmetric metrics of the registry")
                else:
                    detail = (f"arms name different nodes: matrix ({show(na)[:50]}, {show(nb)[:50]}) vs metric "
                              f"({show(ma)[:50] if ma else '?'}, {show(mb)[:50] if mb else '?'})")
            rep.ev("SEL-pair", ev, ok, detail, construct=f"node pair of selector at {ev.fn.qual}: {ev.text()[:80]}")
        if not isinstance(rep, Rep):
            return
        run_kinds(rep, w, rules=("K2",))


def check_selector_forwarding(chk, rep, repo, seen):
    chk.floor("arc-weight selector sites (per analysed entry point)", len(seen), 8)
    # argument positions at the calls into the KNN subgraph
    n_calls = 0
    for cls, m in (("KNNSupervisedOPF", "fit"), ("UnsupervisedOPF", "fit")):
        w = model_walk(repo, cls, m)
        for ev in w.events:
            if ev.kind == "call" and ev.name in ("create_arcs", "calculate_pdf"):
                callee = repo.need_method("KNNSubgraph", ev.name)
                params = [p for p in callee.params if p != "self"]
                bound = dict(zip(params, ev.args))
                bound.update({k: v for k, v in ev.kwargs})
                want = {"distance_function": ("attr", ("self",), "distance_fn"),
                        "pre_computed_distance": ("attr", ("self",), "pre_computed_distance"),
                        "pre_distances": ("attr", ("self",), "pre_distances")}
                ok = all(bound.get(k) == v for k, v in want.items())
                n_calls += 1
                rep.ev("SEL-forward", ev, ok,
                       "the model's metric / flag / matrix do not reach the KNN subgraph in the right positions")
    chk.floor("calls into KNNSubgraph.create_arcs / calculate_pdf", n_calls, 6)


def _values(t):
    """The value of a term, through conversions that keep every element as it is: np.asarray(v) / np.asanyarray(v) /
    np.array(v) without a dtype are v; a selection whose arms agree is that arm."""
    if not isinstance(t, tuple) or not t:
        return t
    t = tuple(_values(x) if isinstance(x, tuple) else x for x in t)
    if t[0] == "call" and t[1] in (("mod", "numpy.asarray"), ("mod", "numpy.asanyarray")) and len(t[2]) == 1 and not t[3]:
        return t[2][0]
    if t[0] == "alloc" and t[1] in ("numpy.array", "numpy.asarray") and len(t[2]) == 1 and not t[3]:
        return t[2][0]
    if t[0] == "sel" and t[2] == t[3]:
        return t[2]
    if t[0] == "old":
        return t[1]
    return t


def _lift_choice(t):
    """`(A if c else B)[i].item()` is `A[i].item() if c else B[i].item()`; `np.arange(n)[i]` is i and
    `(np.arange(n) + b)[i]` is i + b (and `.item()` of such a number is the number)."""
    if t is None:
        return t
    item = False
    core = t
    if core[0] == "call" and core[1][0] == "attr" and core[1][2] == "item" and not core[2] and not core[3]:
        item, core = True, core[1][1]
    if core[0] == "idx" and core[1][0] == "sel":
        c, a, b = core[1][1], core[1][2], core[1][3]
        wrap = (lambda x: ("call", ("attr", x, "item"), (), ())) if item else (lambda x: x)
        return ("sel", c, _lift_choice(wrap(("idx", a, core[2]))), _lift_choice(wrap(("idx", b, core[2]))))
    if core[0] == "idx":
        base, i = core[1], core[2]
        ar = lambda x: (x[0] == "call" and x[1] == ("mod", "numpy.arange") and len(x[2]) == 1 and not x[3]) or \
                       (x[0] == "alloc" and x[1] == "numpy.arange" and len(x[2]) == 1 and not x[3])
        if ar(base):
            return i
        if base[0] == "bin" and base[1] == "+" and (ar(base[2]) or ar(base[3])):
            other = base[3] if ar(base[2]) else base[2]
            return ("bin", "+", *sorted([i, other], key=repr))
    return t


def check_row_ids(chk, rep, repo, only=None, floor=2):
    n = 0
    # a private helper (other than the graph builders themselves) is analysed inside the functions that call it, where
    # the arrays it receives have the caller's names; it is not analysed a second time on its own
    anchors = ("_build", "_load", "_read_distances")

    from ..ir import api_signature

    def extension(f):  # a method the documented API does not have (of a graph class, or of a record class added next to it)
        return f.cls is not None and not f.name.startswith("__") and api_signature(f) is None

    def helper_of(fi):
        return lambda f: extension(f) or (f.name.startswith("_") and not f.name.startswith("__") and f.name not in anchors
                                          and f.module == fi.module and (f.cls is None or f.cls == fi.cls))
    walks = {}
    for fi in repo.all_functions():
        if fi.module.startswith("opfython.utils"):
            continue
        if only is not None and fi.qual not in only:
            continue
        if only is not None and fi.cls:
            walks[fi.fq] = (fi, model_walk(repo, fi.cls, fi.name))  # with the entry point's private helpers inlined
        else:
            walks[fi.fq] = (fi, Walker(repo, fi, self_class=fi.cls, inline=helper_of(fi)))
    inlined = {fq for _, w in walks.values() for fq in w.inlined}
    for fq, (fi, w) in walks.items():
        if only is None and fq in inlined and ((fi.name.startswith("_") and not fi.name.startswith("__")
                                               and fi.name not in anchors) or extension(fi)):
            continue
        for ev in w.events:
            if not (ev.kind == "call" and ev.name == "__new__" and ev.value[0] == "new" and ev.value[1] == "Node"):
                continue
            n += 1
            args = dict(zip(["idx", "label", "features"], ev.value[2]))
            args.update(dict(ev.value[3]))
            idx, feats = _lift_choice(_values(args.get("idx"))), _values(args.get("features"))
            if idx is not None and idx[0] == "sel":
                # `idx = i if I is None else I[i].item()`: each arm under its own condition
                arms = [(idx[2], ev.guards + ((idx[1], True),)), (idx[3], ev.guards + ((idx[1], False),))]
            else:
                arms = [(idx, ev.guards)]
            arms = [(a, tuple((_values(c0), pl) for c0, pl in g)) for a, g in arms]
            verdicts = [_row_id_ok(fi, a, feats, g) for a, g in arms]
            ok = all(v[0] for v in verdicts)
            detail = next((v[1] for v in verdicts if not v[0]), "")
            rep.ev("K6", ev, ok, detail)
    chk.floor("Node constructions", n, floor)
    if only is not None:
        return
    _check_forwarding(chk, rep, repo)


def _row_id_ok(fi, idx, feats, guards):
    class _E:  # minimal event view for the guard queries below
        pass
    ev = _E()
    ev.guards = guards
    if True:
        if True:
            ok, detail = False, ("a node's row id must come from the caller's index array for these rows "
                                 "(I[i] with the counter that yields the row), or be the running row number when "
                                 "no index array was given")
            if idx is not None and feats is not None and feats[0] == "idx" and feats[2][0] == "iterproj" \
                    and feats[2][3] == (0,) and feats[2][1] == ("call", ("builtin", "enumerate"), (feats[1],), ()):
                # `for i, row in enumerate(X)`: row is X[i]
                feats = ("iterproj", feats[2][1], feats[2][2], (1,))
            Xsrc = counter = None
            if idx is not None and feats is not None and feats[0] == "iterproj":
                dom, lid = feats[1], feats[2]
                if dom[0] == "call" and dom[1] == ("builtin", "enumerate") and feats[3][:1] == (1,):
                    counter = ("iterproj", dom, lid, (0,))
                    src = dom[2][0]
                    Xsrc = src[2][0] if src[0] == "call" and src[1] == ("builtin", "zip") else src
            elif idx is not None and feats is not None and feats[0] == "idx" and feats[2][0] == "iter":
                # `for i in range(len(X)): row = X[i]`
                dom = feats[2][1]
                sizes = (("call", ("builtin", "len"), (feats[1],), ()), ("idx", ("attr", feats[1], "shape"), ("const", 0)))
                if dom[0] == "call" and dom[1] == ("builtin", "range") and len(dom[2]) == 1 and not dom[3] and dom[2][0] in sizes:
                    Xsrc, counter = feats[1], feats[2]
            if Xsrc is not None:
                if True:
                    if Xsrc[0] == "param" and Xsrc[1].startswith("X"):
                        Ip = ("param", "I" + Xsrc[1][1:])
                        own = [q for q in fi.params if q != "self"]
                        if Ip[1] not in own and fi.name == "_build" and len(own) >= 3 and own[0] == Xsrc[1]:
                            Ip = ("param", own[2])  # the index parameter of _build under another name (`indexes`)
                        given = ("cmp", "is not", Ip, ("const", None))
                        has_arr = has_guard(ev.guards, given)
                        no_arr = has_guard(ev.guards, mk_not(given))
                        def flat(t):
                            # I.ravel() / I.flatten() / I.reshape(-1): the same identifiers in the same order (read one
                            # at a time with .item(), a column vector and its flat view give the same numbers)
                            while t[0] == "call" and t[1][0] == "attr" and not t[3] and (
                                    (t[1][2] in ("ravel", "flatten") and not t[2])
                                    or (t[1][2] == "reshape" and t[2] in ((("const", -1),), (("neg", ("const", 1)),)))):
                                t = t[1][1]
                            return t
                        if idx[0] == "call" and idx[1][0] == "attr" and idx[1][2] == "item" \
                                and idx[1][1][0] == "idx" and idx[1][1][2] == counter and flat(idx[1][1][1]) == Ip:
                            ok = has_arr
                            if not ok:
                                detail = "the index array is used without testing that it was given"
                        elif idx == counter:
                            ok = no_arr and fi.qual == "Subgraph._build"
                            if not no_arr:
                                detail = "row number used as row id although an index array may have been given"
                        elif idx[0] == "bin" and idx[1] == "+" and counter in (idx[2], idx[3]):
                            base = idx[3] if idx[2] == counter else idx[2]
                            while base[0] == "old":
                                base = base[1]
                            ok = no_arr and count_of(base) is not None
                            if not no_arr:
                                detail = ("synthesised row id (node count + i) used although the caller may have "
                                          "given the rows' index array")
            return ok, detail


def _check_forwarding(chk, rep, repo):
    nf = check_model_forwarding(rep, repo, ("fit", "predict"))
    chk.floor("subgraph constructions in fit/predict", nf, 7)
    check_constructor_forwarding(rep, repo)


def check_model_forwarding(rep, repo, methods):
    # models forward I_* next to the matching X_*
    nf = 0
    for cls in ("SupervisedOPF", "SemiSupervisedOPF", "KNNSupervisedOPF", "UnsupervisedOPF"):
        for m in methods:
            w = model_walk(repo, cls, m)
            if w.entry.cls != cls:
                continue
            for ev in w.events:
                if ev.kind == "call" and ev.name == "__new__" and ev.value[0] == "new" \
                        and ev.value[1] in ("Subgraph", "KNNSubgraph"):
                    args = dict(zip(["X", "Y", "I"], ev.value[2]))
                    args.update(dict(ev.value[3]))
                    X, I = args.get("X"), args.get("I")
                    ok = X is not None and I is not None and X[0] == "param" and I[0] == "param" \
                        and X[1].startswith("X") and I[1] == "I" + X[1][1:]
                    nf += 1
                    rep.ev("ID-forward", ev, ok,
                           f"the subgraph for {show(X) if X else '?'} must receive the matching index array; got "
                           f"{show(I) if I else 'none'}")
    return nf


def check_constructor_forwarding(rep, repo):
    # ... and the graph constructors hand that array on, on every path, to the method that creates the nodes
    fi = repo.need_method("Subgraph", "__init__")
    w = Walker(repo, fi, self_class="Subgraph", inline=lambda f: f.cls == "Subgraph" and f.name.startswith("_")
               and not f.name.startswith("__") and f.name not in ("_build", "_load"))
    builds = [e for e in w.events if e.kind == "call" and e.name == "_build" and e.target == ("attr", ("self",), "_build")]
    bfi = repo.need_method("Subgraph", "_build")
    names = bfi.params[1:]
    ikey = "I" if "I" in names else (names[2] if len(names) >= 3 else "I")  # (the index parameter of _build, whatever its name)
    for e in builds:
        args = dict(zip(names, e.args))
        args.update(dict(e.kwargs))
        rep.ev("ID-forward", e, args.get(ikey) == ("param", "I"),
               f"Subgraph.__init__ must pass its index array I to _build on every path; got '{show(args[ikey]) if ikey in args else 'nothing'}' "
               "(the nodes silently get their positions as row ids)")
    rep.fn("ID-forward-present", fi, "Subgraph.__init__ builds its nodes through _build", len(builds) >= 1,
           "no call of self._build in the constructor")
    kfi = repo.need_method("KNNSubgraph", "__init__")
    wk = Walker(repo, kfi, self_class="KNNSubgraph", inline=lambda f: f.cls == "KNNSubgraph" and f.name.startswith("_")
                and not f.name.startswith("__"))
    sup = [e for e in wk.events if e.kind == "call" and e.name == "__init__"]
    oks = False
    for e in sup:
        args = dict(zip(fi.params[1:], e.args))
        args.update(dict(e.kwargs))
        oks = all(args.get(n) == ("param", n) for n in ("X", "Y", "I"))
    rep.fn("ID-forward", kfi, "KNNSubgraph.__init__ forwards X, Y, I unchanged to Subgraph.__init__", oks and len(sup) == 1,
           "the KNN subgraph must be built from the caller's arrays and index array")


def _row_fill_view(w):
    """`D[i] = [E(y) for y in xs]` fills row i cell by cell: the view shows it as `for j, y in enumerate(xs): D[i][j] = E(y)`
    (the comprehension's loop becomes an ordinary inner loop of the store)."""
    import dataclasses
    import types
    from ..ir import plug_back
    events, loops = [], dict(w.loops)
    changed = False
    for e in w.events:
        v = e.value
        if e.kind == "store" and not e.aug and e.target[0] == "idx" and e.target[1][0] == "alloc" and e.target[2][0] != "tuple" \
                and v is not None and v[0] == "listcomp" and len(v[2]) == 1 and not v[2][0][2] and v[2][0][1] in loops:
            dom, lid, _ = v[2][0]
            if dom[0] == "call" and dom[1] == ("builtin", "enumerate"):
                events.append(e)
                continue
            en = ("call", ("builtin", "enumerate"), (dom,), ())
            j = ("iterproj", en, lid, (0,))
            elt = plug_back(v[1], ("iter", dom, lid), ("idx", dom, j))
            loops[lid] = dataclasses.replace(loops[lid], domain=en, kind="for", loops=e.loops)
            events.append(dataclasses.replace(e, target=("idx", e.target, j), value=elt, loops=e.loops + (lid,)))
            changed = True
        else:
            events.append(e)
    if not changed:
        return w
    return types.SimpleNamespace(events=events, loops=loops, entry=w.entry)


def _nested_index(events):
    """D[i, j] on a freshly allocated 2-D array is D[i][j]."""
    import dataclasses
    return [dataclasses.replace(e, target=("idx", ("idx", e.target[1], e.target[2][1][0]), e.target[2][1][1]))
            if e.kind == "store" and e.target[0] == "idx" and e.target[1][0] == "alloc" and e.target[2][0] == "tuple"
            and len(e.target[2][1]) == 2 and all(x[0] != "slice" for x in e.target[2][1]) else e for e in events]


def _whole_row_fill(w, fi) -> None:
    """No cell-by-cell store: if the matrix is built row by row (`row[:] = [f(x, y) for y in data]`) or in one expression
    (`np.array([[f(a, b) for b in xs] for a in xs])`) which pair lands in which cell is decided by comprehension order and
    broadcasting - outside the scalar fragment these rules read (exit 2, not a finding)."""
    from ..ir import subterms
    for e in w.events:
        whole = e.kind == "store" and e.target[0] == "idx" and e.target[2][0] == "slice" and e.value is not None and (
            any(t[0] == "listcomp" for t in subterms(e.value))
            or (e.target[1][0] == "alloc" and str(e.target[1][1]).startswith("numpy.")))  # a block of rows placed at once
        nested = e.value is not None and any(
            t[0] in ("alloc", "call") and str(t[1]).endswith(("numpy.array", "numpy.asarray", "numpy.array')")) and t[2]
            and t[2][0][0] == "listcomp" and t[2][0][1][0] == "listcomp" for t in subterms(e.value))
        if whole or nested:
            raise AnalysisError(f"{fi.qual}: the distance matrix is filled by whole rows / one nested comprehension "
                                f"('{e.text()[:60]}'); the builder rules read cell-by-cell stores - outside the analysable fragment")


def check_builders(chk, rep, repo):
    # pre_compute_distance
    fi = repo.need_function("opfython.math.general", "pre_compute_distance")
    from ..common import registry_accessor
    acc = registry_accessor(repo)
    same = _private_same_module(fi)
    w = _row_fill_view(Walker(repo, fi, inline=lambda f: same(f) or acc(f)))
    # `data = np.asarray(data)` keeps every row as it is; argument validation dominates the body without being part of it
    import dataclasses
    import types
    from ..rules_premise import validation_guard
    _raises = [e for e in w.events if e.kind == "raise"]
    w = types.SimpleNamespace(entry=w.entry, loops={lid: dataclasses.replace(l2, domain=_values(l2.domain)) for lid, l2 in w.loops.items()},
                              events=[dataclasses.replace(
                                  e, target=_values(e.target), value=_values(e.value), args=tuple(_values(a) for a in (e.args or ())),
                                  guards=tuple((_values(g), pl) for g, pl in e.guards if not validation_guard(_raises, g, pl)))
                                  for e in w.events])
    st = [e for e in _nested_index(w.events) if e.kind == "store" and e.target[0] == "idx" and e.target[1][0] == "idx"
          and e.target[1][1][0] == "alloc" and e.target[2][0] != "slice"]
    ok = False
    detail = "expected distances[i][j] = DISTANCES[distance](data[i], data[j]) for all i, j in range(len(data))"
    if not st:
        _whole_row_fill(w, fi)
    if len(st) == 1 and len(st[0].loops) == 2:
        e = st[0]
        li, lj = w.loops[e.loops[0]], w.loops[e.loops[1]]
        size = ("idx", ("attr", ("param", "data"), "shape"), ("const", 0))
        sizes = (size, ("call", ("builtin", "len"), (("param", "data"),), ()))
        arr_t = e.target[1][1]

        def rows(lp):
            """Index term when the loop visits every row number of `data` once, ascending."""
            d = lp.domain
            if d[0] == "call" and d[1] == ("builtin", "range") and not d[3] and (
                    (len(d[2]) == 1 and d[2][0] in sizes) or (len(d[2]) == 2 and d[2][0] == ("const", 0) and d[2][1] in sizes)):
                return ("iter", d, lp.lid)
            if d[0] == "call" and d[1] == ("builtin", "enumerate") and len(d[2]) == 1 and not d[3]:
                x = d[2][0]
                square = x == arr_t and arr_t[2] and arr_t[2][0][0] == "tuple" and len(arr_t[2][0][1]) == 2 \
                    and all(t in sizes for t in arr_t[2][0][1])
                if x == ("param", "data") or square:
                    return ("iterproj", d, lp.lid, (0,))
            return None

        i, j = rows(li), rows(lj)
        full = i is not None and j is not None
        val = e.value
        okv = (val[0] == "call" and val[1] == ("idx", ("mod", "opfython.math.distance.DISTANCES"), ("param", "distance"))
               and val[2] == (("idx", ("param", "data"), i), ("idx", ("param", "data"), j)))
        okt = e.target[1][2] == i and e.target[2] == j
        arr0 = e.target[1][1]
        okdt = not arr0[3] or dict(arr0[3]) in ({"dtype": ("builtin", "float")}, {"dtype": ("mod", "numpy.float64")})
        ok = full and okv and okt and not e.guards and okdt
        if full and okv and okt and not okdt:
            detail = ("the matrix is allocated with a caller-dependent element type: metric values are truncated / "
                      "rounded when stored (integer or float32 features), unlike the on-the-fly computation")
        if full and okv and not okt:
            detail = "the cell written is not [i][j] for the pair (i, j) evaluated (transposed or shifted)"
        arr = e.target[1][1]
        sv = [c for c in w.events if c.kind == "call" and c.name == "numpy.savetxt"]
        rep.fn("BUILD-saved", fi, "the matrix that was filled is the one written", len(sv) == 1 and sv[0].args[1:2] == (arr,)
               and sv[0].args[:1] == (("param", "output"),), "np.savetxt(output, <the filled matrix>) expected")
    if not ok:
        _whole_row_fill(w, fi)  # (assembled from blocks / rows: exit 2 rather than a finding)
    rep.fn("BUILD-file", fi, "pre_compute_distance fills [i][j] with the metric of rows (i, j)", ok, detail)
    # get_distances
    w = _row_fill_view(model_walk(repo, "OPF", "get_distances"))
    fi = w.entry
    G = ("attr", ("self",), "subgraph")
    st = [e for e in _nested_index(w.events) if e.kind == "store" and e.target[0] == "idx" and e.target[1][0] == "idx"
          and e.target[1][1][0] == "alloc"]
    ok = False
    if not st:
        _whole_row_fill(w, w.entry)
    if len(st) == 1 and len(st[0].loops) == 2:
        from ..schema import node_loop
        e = st[0]
        li, lj = w.loops[e.loops[0]], w.loops[e.loops[1]]
        nli, nlj = node_loop(li), node_loop(lj)
        full = nli is not None and nlj is not None and nli[0] == G and nlj[0] == G and nli[1] is not None \
            and nlj[1] is not None
        i, j = (nli[1], nlj[1]) if full else (None, None)
        okv = full and e.value == ("call", ("attr", ("self",), "distance_fn"),
                                    (("attr", nli[2], "features"), ("attr", nlj[2], "features")), ())
        D = e.target[1][1]
        nn = ("attr", G, "n_nodes")
        okshape = bool(D[2]) and D[2][0][0] == "tuple" and len(D[2][0][1]) == 2 and all(
            t in (nn, ("call", ("builtin", "len"), (("attr", G, "nodes"),), ())) for t in D[2][0][1])
        rep.fn("BUILD-shape", fi, "the matrix has one row and one column per training node", okshape,
               f"the matrix is allocated as '{show(D)[:80]}'")
        okdt = not D[3] or dict(D[3]) in ({"dtype": ("builtin", "float")}, {"dtype": ("mod", "numpy.float64")})
        ok = full and okv and e.target[1][2] == i and e.target[2] == j and not e.guards and okdt
        rets = [r for r in w.events if r.kind == "return" and r.fn is w.entry]
        import dataclasses as _dc
        split = []
        for r in rets:
            # one `return distances` after `if normalize: distances = ...` is the two returns
            if r.value is not None and r.value[0] == "sel" and r.value[1] == ("param", "normalize"):
                split.append(_dc.replace(r, value=r.value[2], guards=r.guards + ((r.value[1], True),)))
                split.append(_dc.replace(r, value=r.value[3], guards=r.guards + ((r.value[1], False),)))
            else:
                split.append(r)
        rets = split
        alg = TermAlgebra()
        okn = False
        for r in rets:
            if has_guard(r.guards, ("param", "normalize")):
                d = alg.conv(("free", "D"))
                mn = alg.conv(("call", ("attr", D, "min"), (), ()))
                mx = alg.conv(("call", ("attr", D, "max"), (), ()))
                try:
                    got = alg.conv(_replace(r.value, D, ("free", "D")))
                    okn = alg.equal(got, (d - mn.subs({}, simultaneous=True)) / (mx - mn)) if False else None
                except Exception:
                    okn = False
                # compare structurally through sympy with D kept as one symbol
                dd = alg.atom(D)
                mn = alg.atom(("call", ("attr", D, "min"), (), ()))
                mx = alg.atom(("call", ("attr", D, "max"), (), ()))
                okn = alg.equal(alg.conv(r.value), (dd - mn) / (mx - mn))
        plain = [r for r in rets if r.value == D]
        rep.fn("BUILD-normalize", fi, "normalize=True returns (D - min)/(max - min)", bool(okn),
               "the normalised matrix is not the min-max rescaling of the distance matrix")
        rep.fn("BUILD-plain", fi, "normalize=False returns the matrix itself", len(plain) == 1,
               "the un-normalised result is not the computed matrix")
    rep.fn("BUILD-model", fi, "get_distances fills [i][j] with the metric of training nodes (i, j)", ok,
           "expected distances[i][j] = distance_fn(nodes[i].features, nodes[j].features) over all pairs")


def _replace(t, a, b):
    if t == a:
        return b
    if isinstance(t, tuple):
        return tuple(_replace(x, a, b) for x in t)
    return t


def ext_term(param):
    return ("idx", ("call", ("attr", ("param", param), "split"), (("const", "."),), ()), ("const", -1))


def resolve(t, ext_t, ext):
    """Value of a term that selects on the file extension, for one concrete extension."""
    # a lookup table keyed by the extension: TABLE[ext] / TABLE.get(ext, default)
    if t[0] == "idx" and t[1][0] == "dict" and t[2] == ext_t:
        hit = [v for k, v in t[1][1] if k == ("const", ext)]
        return hit[0] if len(hit) == 1 else None
    if t[0] == "call" and t[1][0] == "attr" and t[1][2] == "get" and t[1][1][0] == "dict" and t[2][:1] == (ext_t,) \
            and len(t[2]) <= 2 and not t[3]:
        hit = [v for k, v in t[1][1][1] if k == ("const", ext)]
        if len(hit) == 1:
            return hit[0]
        return t[2][1] if len(t[2]) == 2 and not hit else (("const", None) if not hit else None)
    while t[0] == "sel":
        c = t[1]
        if c[0] == "cmp" and c[1] in ("==", "!=") and ext_t in (c[2], c[3]):
            other = c[2] if c[3] == ext_t else c[3]
            if other[0] != "const":
                return None
            truth = (other[1] == ext) if c[1] == "==" else (other[1] != ext)
            t = t[2] if truth else t[3]
        else:
            return None
    return t


def check_file_agreement(chk, rep, repo):
    # reader table: extension -> loader -> delimiter
    w = model_walk(repo, "OPF", "_read_distances")
    ext_r = ext_term(w.entry.params[1])
    from ..schema import extension_dispatch
    readers = extension_dispatch(w, ext_r, ("csv", "txt", "json"), "opfython.stream.loader")
    rep.fn("FILE-readers", w.entry, f"reader dispatch by extension: {readers}", set(readers) >= {"csv", "txt"},
           "the reader no longer dispatches on .csv and .txt")
    delims = {}
    for ext, loader in readers.items():
        lf = repo.need_function("opfython.stream.loader", loader)
        lw = Walker(repo, lf, inline=_private_same_module(lf))
        calls = [e for e in lw.events if e.kind == "call" and e.name == "numpy.loadtxt"]
        if len(calls) != 1:
            raise AnalysisError(f"{loader}: expected one np.loadtxt call")
        d = dict(calls[0].kwargs).get("delimiter", ("const", None))
        delims[ext] = d[1] if d[0] == "const" else None
        rep.ev("FILE-loader-arg", calls[0], calls[0].args[:1] == (("param", lf.params[0]),),
               "the loader must read the path it was given")
        rep.fn("FILE-loader-fresh", lf, f"{loader} reads the file on every call", not lf.decorators,
               f"{loader} is wrapped by {lf.decorators}: a cached result survives a rewrite of the same path, so a model "
               "built after pre_compute_distance gets the old matrix")
    # writer
    fi = repo.need_function("opfython.math.general", "pre_compute_distance")
    ww = Walker(repo, fi, inline=_private_same_module(fi))
    sv = [e for e in ww.events if e.kind == "call" and e.name == "numpy.savetxt"]
    if len(sv) != 1:
        raise AnalysisError("pre_compute_distance: expected one np.savetxt call")
    kw = dict(sv[0].kwargs)
    ext_w = ext_term("output")
    for ext in sorted(readers):
        d = kw.get("delimiter", ("const", " "))
        val = resolve(d, ext_w, ext)
        wrote = val[1] if val is not None and val[0] == "const" else None
        want = delims.get(ext)
        # np.loadtxt(delimiter=" ") and np.savetxt default both mean a single blank
        ok = wrote is not None and wrote == want
        rep.ev("FILE-delimiter", sv[0], ok,
               f"a '.{ext}' file is written with delimiter {wrote!r} but read back by {readers[ext]} with {want!r}",
               construct=f"np.savetxt delimiter for .{ext}")
    check_savetxt_format(rep, sv[0], "FILE-format")
    for k in kw:
        if k not in ("delimiter", "fmt"):
            rep.ev("FILE-extra", sv[0], k in ("newline",), f"np.savetxt option {k}= changes the file layout",
                   construct=f"np.savetxt {k}=")


def check_savetxt_format(rep, sv, rule):
    fmt = dict(sv.kwargs).get("fmt")
    okfmt = fmt is None or (fmt[0] == "const" and isinstance(fmt[1], str) and _digits(fmt[1]) >= 17)
    rep.ev(rule, sv, okfmt, "the distance file must round-trip float64 exactly (>= 17 significant digits): rounding the "
           "stored weights changes their order type (small distances collapse), differently for each metric",
           construct="np.savetxt fmt")


def distance_file_writer(repo):
    fi = repo.need_function("opfython.math.general", "pre_compute_distance")
    ww = Walker(repo, fi, inline=_private_same_module(fi))
    sv = [e for e in ww.events if e.kind == "call" and e.name == "numpy.savetxt"]
    if len(sv) != 1:
        raise AnalysisError("pre_compute_distance: expected one np.savetxt call")
    return sv[0]


def _digits(fmt: str) -> int:
    import re
    m = re.fullmatch(r"%\.(\d+)([eEgG])", fmt.strip())
    if not m:
        return 0
    n = int(m.group(1))
    return n + 1 if m.group(2) in "eE" else n


def check_constructor_config(rep, repo):
    """OPF.__init__: a matrix file was given  <=>  the flag is True and the matrix is read from THAT file; otherwise the
    flag is False and no matrix is kept. The selector sites trust these two fields."""
    from ..ir import facts, mk_not
    fi = repo.need_method("OPF", "__init__")
    w = Walker(repo, fi, self_class="OPF", inline=lambda f: f.cls == "OPF" and f.name.startswith("_")
               and not f.name.startswith("__") and f.name != "_read_distances")
    pf = ("param", "pre_computed_distance")
    flag = ("attr", ("self",), "pre_computed_distance")
    bpf = ("call", ("builtin", "bool"), (pf,), ())
    given = [pf, bpf, ("cmp", "is not", pf, ("const", None)), mk_not(("cmp", "is", pf, ("const", None)))]
    absent = [mk_not(pf), mk_not(bpf), ("cmp", "is", pf, ("const", None)), ("not", pf)]

    from ..rules_premise import validation_guard
    _raises = [e for e in w.events if e.kind == "raise"]

    def under(e, alts):
        # (the complement of an argument check that raises - `if not isinstance(file, str): raise` - is not a condition)
        fs = facts(tuple((g, pol) for g, pol in e.guards
                         if not validation_guard(_raises, g, pol) or any(f in alts for f in facts(((g, pol),)))))
        return len(fs) == 1 and fs[0] in alts

    st = [e for e in w.events if e.kind == "store" and e.target == flag]
    on = [e for e in st if e.value == ("const", True) and under(e, given)]
    off = [e for e in st if e.value == ("const", False) and under(e, absent)]
    direct = [e for e in st if not e.guards and e.value in (("call", ("builtin", "bool"), (pf,), ()),)]
    # (default first: `flag = False`, unconditionally, then `flag = True` under the test - the same configuration)
    off0 = [e for e in st if e.value == ("const", False) and not e.guards and not e.loops]
    ok = (len(on) == 1 and len(off) == 1 and len(st) == 2) or (len(direct) == 1 and len(st) == 1) or (
        len(on) == 1 and len(off0) == 1 and len(st) == 2 and off0[0].seq < on[0].seq)
    if len(direct) == 1 and len(st) == 1:
        # the flag itself (just set to bool(file)) may be what later statements test
        given.append(flag)
        absent += [mk_not(flag), ("not", flag)]
    rep.fn("INIT-flag", fi, "pre_computed_distance is True exactly when a matrix file was given", ok,
           f"stores to the flag: {[e.text()[:60] for e in st]}")
    rd = [e for e in w.events if e.kind == "call" and e.name == "_read_distances" and e.target == ("attr", ("self",), "_read_distances")]
    okr = len(rd) == 1 and rd[0].args == (pf,) and under(rd[0], given)
    rep.fn("INIT-read", fi, "the matrix is read from the given file when (and only when) one was given", okr,
           f"_read_distances calls: {[e.text()[:70] for e in rd]}")
    none = [e for e in w.events if e.kind == "store" and e.target == ("attr", ("self",), "pre_distances")]
    # (a default `None` assigned first, unconditionally, and overwritten by the guarded read is the same configuration)
    okn = all(e.value == ("const", None) and (under(e, absent) or (not e.guards and not e.loops and rd and e.seq < rd[0].seq))
              for e in none)
    rep.fn("INIT-matrix", fi, "no matrix is kept when no file was given", okn and len(none) <= 1,
           f"stores to pre_distances: {[e.text()[:60] for e in none]}")
    # _read_distances stores what it loaded
    fr = repo.need_method("OPF", "_read_distances")
    wr = Walker(repo, fr, self_class="OPF", inline=lambda f: f.cls == "OPF" and f.name.startswith("_") and not f.name.startswith("__"))
    stores = [e for e in wr.events if e.kind == "store" and e.target == ("attr", ("self",), "pre_distances")]
    loaded = [e for e in wr.events if e.kind == "call" and e.name and (e.name.startswith("opfython.stream.loader.") or e.name in ("load_csv", "load_txt"))]
    vals = {e.value for e in loaded}
    CHANGING = {"abs", "absolute", "fabs", "round", "around", "rint", "floor", "ceil", "trunc", "clip", "sqrt", "square", "exp", "log",
                "log1p", "negative", "sign", "maximum", "minimum", "nan_to_num", "tril", "triu", "transpose", "sort", "float32", "float16",
                "int32", "int64", "intp"}

    def changed(v, depth=0):
        """a function that changes entries applied on the way from the loader to the field (np.abs, np.round, .T, a narrower dtype)"""
        if depth > 8 or not isinstance(v, tuple) or not v:
            return False
        if v[0] in ("call", "alloc"):
            f = v[1]
            name = f[1] if isinstance(f, tuple) and f[0] == "mod" else (f if isinstance(f, str) else "")
            if name.startswith("numpy.") and name.rpartition(".")[2] in CHANGING and any(
                    u in vals for a0 in v[2] for u in subterms(a0)):
                return True
            if isinstance(f, tuple) and f[0] == "attr" and f[2] in ("round", "clip", "transpose", "astype") and any(u in vals for u in subterms(f[1])):
                if f[2] != "astype" or (v[2] and v[2][0] not in (("mod", "numpy.float64"), ("builtin", "float"))):
                    return True
            return any(changed(a0, depth + 1) for a0 in v[2])
        if v[0] == "attr" and v[2] == "T" and any(u in vals for u in subterms(v[1])):
            return True
        if v[0] in ("sel", "old"):
            return any(changed(x, depth + 1) for x in v[1:] if isinstance(x, tuple))
        return False
    from ..ir import subterms
    oks = len(stores) == 1 and (stores[0].value in vals or stores[0].value[0] in ("sel", "call", "ret", "phi", "alloc") or
                                (stores[0].value[0] == "old" and stores[0].value[1] in vals)) and not changed(stores[0].value)
    rep.fn("INIT-store", fr, "_read_distances keeps the matrix it loaded", oks,
           f"stores to pre_distances: {[e.text()[:70] for e in stores]}")


def check(chk, repo):
    chk.explanation = EXPLANATION
    rep = Rep(chk, repo)
    check_constructor_config(rep, repo)
    check_selectors(chk, rep, repo)
    check_row_ids(chk, rep, repo)
    check_builders(chk, rep, repo)
    check_file_agreement(chk, rep, repo)
    from ..common import check_model_premises
    check_model_premises(rep, repo)
    chk.undecided += ["bit-equality of forests / predictions of the two runs (a run-time fact that follows from the above)"]
    chk.assumptions += ["np.savetxt's default '%.18e' and np.loadtxt round-trip float64 exactly",
                        "the index arrays passed by the caller identify rows of the matrix file (the property's premise)"]
