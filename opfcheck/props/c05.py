"""C05: structural rules of the indexed heap (H1-H7) + client-side preconditions."""

from ..common import competitions_of
from ..ir import show
from ..rules_heap import check_heap
from ..rules_ift import Rep
from ..schema import acceptance

EXPLANATION = (
    "Structural necessary conditions for priority-queue correctness decided from the source of Heap: "
    "H1 min/max branches of go_up/go_down mirror each other; H2 every store into p[] is paired with the pos[] "
    "update of the element placed there; H3 sift guards (root test, parent = dad(i) invariant, direction per "
    "policy, bounds test of each child against last, right child compared with the better of (i, left), "
    "descent at the chosen child); H4 index algebra of dad/left_son/right_son; H5 colour typestate "
    "(GRAY only in insert, BLACK only in remove, WHITE at construction; update stores the cost then inserts "
    "WHITE / sifts others from pos[p]); H6 capacity guards, failing paths write nothing and return falsy, "
    "last changes by one in the right order, fullness/emptiness predicates; H7 positions are never used "
    "where elements are required. Client side: every H.update in the four models is dominated by an "
    "improvement test in the policy's direction on the same (q, v), every H.remove by not is_empty(). "
    "That every history returns extremal elements exactly once needs an inductive array invariant and is "
    "not decided (model checking would be another technique family)."
)

CLIENTS = (("SupervisedOPF", "fit", 2), ("SemiSupervisedOPF", "fit", 2), ("KNNSupervisedOPF", "fit", 2),
           ("UnsupervisedOPF", "fit", 2))


def check(chk, repo):
    chk.explanation = EXPLANATION
    rep = Rep(chk, repo)
    check_heap(rep, repo, "")
    from ..rules_premise import check_constants, check_transparent_properties
    check_transparent_properties(rep, repo, "PREMISE-")
    check_constants(rep, repo, "PREMISE-")
    sites = 0
    seen = set()
    for cls, meth, floor in CLIENTS:
        w, comps = competitions_of(repo, cls, meth, floor)
        for comp in comps:
            for u in comp.updates:
                key = (comp.fn.fq, u.event.line)
                if key in seen:
                    continue
                seen.add(key)
                sites += 1
                acc = acceptance(comp, u)
                want = ("v<h", "v<=h") if comp.policy == "min" else ("h<v", "h<=v")
                ok = acc is not None and acc[1] in want
                rep.ev("CLIENT-improve", u.event, ok,
                       "" if ok else f"H.update on a {comp.policy}-heap is not dominated by an improvement test "
                       f"on the same element and value (found {acc[1] if acc else 'none'})")
        for e in w.events:
            if e.kind == "call" and e.name == "remove" and e.value and e.value[0] == "hremove":
                h = e.value[1]
                from ..schema import nonempty_guard
                counted = any(cp.counted and cp.remove_event is e for cp in comps)
                rep.ev("CLIENT-nonempty", e, counted or any(nonempty_guard(g, pol, h) for g, pol in e.guards),
                       "H.remove() is not dominated by `not H.is_empty()` (nor is it the single removal of a loop "
                       "that runs once per node of a fully seeded queue)")
    # (Prim, the supervised competition - shared or duplicated by the semi-supervised fit -, the two density clusterings)
    chk.floor("distinct H.update call sites in the models", sites, 4)
    chk.undecided.append("extremal-element / exactly-once semantics over all operation histories")
    chk.assumptions.append("Python list indexing semantics; Heap is used single-threaded")
