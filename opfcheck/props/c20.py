"""C20: evaluation measures match their definitions (counting-kernel + role + closing-formula rules)."""

from ..core import AnalysisError
from ..common import inline_same_module_private
from ..ir import Walker, facts, show
from ..rules_ift import Rep
from ..termalg import TermAlgebra

EXPLANATION = (
    "For each measure in opfython.math.general the counting kernel and the closing arithmetic are extracted "
    "from the IR and compared with the statement's definition, for all label vectors at once: the loop must "
    "range over zip(true labels, predictions) once; OPF accuracy: both increments are +1 under true != pred, "
    "one at [pred][a] (false positives of the predicted class) and one at [true][b] (false negatives of the "
    "true class) with a != b; RELATIONAL role rule - the column indexed by the prediction is divided by "
    "N - N_c and the column indexed by the true label by N_c, where N_c = bincount of the TRUE labels; closing "
    "form (sympy) 1 - sum(per-class sums over the two columns)/(2K), K = max(true labels) + 1; confusion matrix: "
    "K x K zeros, +1 at [true][pred] unconditionally, returned; per-label accuracy: +1 at [true] under true != "
    "pred, divided by the per-class counts of the true labels, 1 - that; purity: confusion_matrix(labels, preds) "
    "in that order, max over axis 0 (the true-class axis of M[true][pred]) summed and divided by len(labels); "
    "normalize: (a - mean(a, axis=0))/std(a, axis=0). The bounds and '= 1 iff all correct' are properties of "
    "these formulas, not separately decided."
)

GEN = "opfython.math.general"


def asarr(p):
    return ("call", ("mod", "numpy.asarray"), (("param", p),), ())


def is_labels(t, name):
    return t in (("param", name), asarr(name))


def kernel(w, rep, fn, true_name="labels", pred_name="preds"):
    """(loop, true term, pred term, prefiltered) of the counting loop over zip(labels, preds), or over
    the list of misclassified pairs [(l, p) for l, p in zip(labels, preds) if l != p]."""
    loops = [li for li in w.loops.values() if li.kind == "for" and not li.loops]
    good = []
    for li in loops:
        d = li.domain
        if d[0] == "call" and d[1] == ("builtin", "zip") and len(d[2]) == 2 and (
                (is_labels(d[2][0], true_name) and is_labels(d[2][1], pred_name))
                or (is_labels(d[2][1], true_name) and is_labels(d[2][0], pred_name))):
            good.append((li, False))
        elif d[0] == "listcomp" and len(d[2]) == 1:
            inner, ilid, conds = d[2][0]
            if inner[0] == "call" and inner[1] == ("builtin", "zip") and len(inner[2]) == 2 \
                    and is_labels(inner[2][0], true_name) and is_labels(inner[2][1], pred_name):
                pos = ("iterproj", inner, ilid, ("pos",))
                t0, t1 = ("idx", inner[2][0], pos), ("idx", inner[2][1], pos)
                if d[1] == ("tuple", (t0, t1)) and conds == (("cmp", "!=", *sorted([t0, t1], key=repr)),):
                    good.append((li, True))
                elif d[1] == t0 and conds == (("cmp", "!=", *sorted([t0, t1], key=repr)),):
                    good.append((li, "true-only"))  # the true labels of the misclassified pairs
    if len(good) > 1:
        # several counting passes (one per kind of error): a different way of counting, which these rules do not read
        raise AnalysisError(f"{fn.qual}: expected one counting pass over zip(true labels, predictions), found {len(good)} "
                            f"(loop domains: {[show(l.domain)[:60] for l in loops]}); this form is outside the analysable fragment")
    rep.fn("KERNEL-zip", fn, "one pass over zip(true labels, predictions)", len(good) == 1,
           f"loop domains: {[show(l.domain)[:100] for l in loops]}")
    if len(good) != 1:
        return None
    li, pre = good[0]
    if pre == "true-only":
        return li, ("iter", li.domain, li.lid), None, pre
    if pre:
        # iterating the list of (l, p) pairs: the loop targets are projections of its elements
        return li, ("iterproj", li.domain, li.lid, (0,)), ("iterproj", li.domain, li.lid, (1,)), pre
    pos = ("iterproj", li.domain, li.lid, ("pos",))
    kt = 0 if is_labels(li.domain[2][0], true_name) else 1  # zip(preds, labels) pairs the same positions
    return li, ("idx", li.domain[2][kt], pos), ("idx", li.domain[2][1 - kt], pos), pre


from ..ir import mk_cmp, subterms, tkey  # noqa: E402
from ..rules_premise import values_of  # noqa: E402


def n_class_ok(t, true_name="labels", pred_name="preds"):
    for mx in ("numpy.max", "numpy.amax"):
        for lab in (("param", true_name), asarr(true_name)):
            top = ("call", ("mod", mx), (lab,), ())
            if t == ("bin", "+", *sorted([("const", 1), top], key=repr)):
                return True
            # max(max(labels), max(preds)) + 1: the property's inputs have their predictions within the labels' range,
            # where the larger of the two maxima is the labels'
            for mp in ("numpy.max", "numpy.amax"):
                for pr in (("param", pred_name), asarr(pred_name)):
                    both = ("max", tuple(sorted([top, ("call", ("mod", mp), (pr,), ())], key=tkey)))
                    if t == ("bin", "+", *sorted([("const", 1), both], key=repr)):
                        return True
    return False


def wide_counter(arr) -> bool:
    """np.zeros(...) whose element type can count any number of samples (default float64, or a fixed wide type)."""
    kw = dict(arr[3])
    if set(kw) - {"dtype"}:
        return False
    d = kw.get("dtype")
    return d is None or d in (("builtin", "float"), ("builtin", "int"), ("mod", "numpy.float64"), ("mod", "numpy.int64"),
                              ("mod", "numpy.uint64"), ("mod", "numpy.intp"))


def _scalar_fragment(w, fi):
    """In-place whole-array arithmetic on buffers that alias one another (`out=`, views bound to locals) needs numpy's
    aliasing semantics to be read; the rules here read the measures as written element by element."""
    from ..core import AnalysisError
    for e in w.events:
        if e.kind == "call" and "out" in dict(e.kwargs or ()):
            raise AnalysisError(f"{fi.qual}: `{e.text()[:60]}` writes its result into an existing buffer (out=): in-place "
                                "whole-array updates of aliased buffers are outside the analysable fragment")


def check_accuracy(rep, repo):
    fi = repo.need_function(GEN, "opf_accuracy")
    w = Walker(repo, fi, inline=inline_same_module_private(fi))
    _scalar_fragment(w, fi)
    k = kernel(w, rep, fi)
    if not k:
        return
    li, T, P, pre = k
    if P is None:
        rep.fn("ACC-increments", fi, "two +1 increments per misclassified pair, none otherwise", False,
               "the counting loop sees the true labels of the misclassified pairs only: false positives cannot be booked")
        return
    neq = ("cmp", "!=", *sorted([T, P], key=repr))
    want_guard = () if pre else (neq,)
    inc = [e for e in w.events if e.kind == "store" and li.lid in e.loops]
    ok_inc = len(inc) == 2 and all(e.aug == "+" and e.value == ("const", 1) and facts(e.guards) == want_guard for e in inc)
    rep.fn("ACC-increments", fi, "two +1 increments per misclassified pair, none otherwise", ok_inc,
           f"{len(inc)} store(s) in the counting loop; each must be `+= 1` under true != pred")
    if not ok_inc:
        return
    cols = {}
    arr = None
    for e in inc:
        t = e.target
        if t[0] == "idx" and t[1][0] == "idx" and t[2][0] == "const":
            arr = t[1][1]
            cols[t[1][2]] = t[2][1]
    if not cols and all(e.target[0] == "idx" and e.target[2] in (T, P) for e in inc) and len({e.target[1] for e in inc}) == 2:
        # two separate per-class counters (one array per kind of error) combined later by whole-array operations
        # (np.stack / column arithmetic): which counter ends up in which column is a whole-array computation
        from ..core import AnalysisError
        raise AnalysisError(f"{fi.qual}: the two kinds of error are counted in separate arrays and combined by whole-array "
                            "operations; the column each one is normalised in is outside the analysable (one 2-column table) fragment")
    ok_roles = set(cols) == {T, P} and cols.get(T) != cols.get(P)
    rep.fn("ACC-roles", fi, "false positives are counted on the predicted class, false negatives on the true class",
           ok_roles, f"increments at {[show(e.target)[-40:] for e in inc]}")
    if not ok_roles:
        return
    shape_ok = arr[0] == "alloc" and arr[1] == "numpy.zeros" and arr[2] and arr[2][0][0] == "tuple" \
        and n_class_ok(arr[2][0][1][0]) and arr[2][0][1][1] == ("const", 2) and wide_counter(arr)
    rep.fn("ACC-shape", fi, "error table has K = max(labels) + 1 rows and 2 columns", shape_ok, f"table is '{show(arr)}'")
    cP, cT = cols[P], cols[T]
    counts_ok = lambda t: t in (("call", ("mod", "numpy.bincount"), (asarr("labels"),), ()),
                                ("call", ("mod", "numpy.bincount"), (("param", "labels"),), ()))
    divs = [e for e in w.events if e.kind == "store" and e.aug == "/" and e.target[0] == "idx" and e.target[1] == arr]
    from ..ir import subterms as _subt
    if not divs and any(e.kind == "store" and e.target[0] == "idx" and e.target[1] != arr and e.target[1][0] == "alloc"
                        and any(u == arr for u in _subt(e.value)) for e in w.events):
        from ..core import AnalysisError
        raise AnalysisError(f"{fi.qual}: the error counts are kept as they are and the rates are written into a second table by "
                            "whole-column arithmetic; the measure rules follow the in-place normalisation of the one table - this "
                            "form is outside the analysable fragment")
    d = {}
    for e in divs:
        ix = e.target[2]
        if ix[0] == "tuple" and len(ix[1]) == 2 and ix[1][0] == ("slice", None, None, None) and ix[1][1][0] == "const":
            d[ix[1][1][1]] = e.value
    vT, vP = d.get(cT), d.get(cP)
    okT = vT is not None and counts_ok(vT)
    rep.fn("ACC-fn-denominator", fi, "false negatives of class c are divided by N_c (count of true labels c)", okT,
           f"the true-label column is divided by '{show(vT) if vT else 'nothing'}'")
    okP = False
    if vP is not None and vP[0] == "bin" and vP[1] == "-" and counts_ok(vP[3]):
        tot = vP[2]
        okP = (tot[0] == "call" and tot[1] in (("mod", "numpy.nansum"), ("mod", "numpy.sum")) and len(tot[2]) == 1
               and counts_ok(tot[2][0]) and not tot[3]) or tot in (("call", ("builtin", "len"), (("param", "labels"),), ()),
                                                                   ("call", ("builtin", "len"), (asarr("labels"),), ()))
    rep.fn("ACC-fp-denominator", fi, "false positives of class c are divided by N - N_c (samples of other classes)", okP,
           f"the predicted-class column is divided by '{show(vP) if vP else 'nothing'}'")
    rep.fn("ACC-divisions", fi, "each column is normalised exactly once", len(divs) == 2 and len(d) == 2,
           f"{len(divs)} in-place division(s) of the error table")
    rets = [e for e in w.events if e.kind == "return" and e.fn is w.entry]
    okc = False
    if len(rets) == 1:
        alg = TermAlgebra()
        per_class = ("call", ("mod", "numpy.nansum"), (arr,), (("axis", ("const", 1)),))
        total = None
        for name in ("numpy.sum", "numpy.nansum"):
            cand = ("call", ("mod", name), (per_class,), ())
            from ..ir import contains
            if contains(rets[0].value, cand):
                total = cand
        if total is not None:
            K = None
            from ..ir import subterms
            for s in subterms(rets[0].value):
                if n_class_ok(s):
                    K = s
            if K is not None:
                okc = alg.equal(alg.conv(rets[0].value), 1 - alg.conv(total) / (2 * alg.conv(K)))
        order = all(e.seq < rets[0].seq for e in divs)
    rep.fn("ACC-closing", fi, "accuracy = 1 - sum_c(FP_c/(N-N_c) + FN_c/N_c) / (2K)", okc,
           f"returns '{show(rets[0].value)[:200] if rets else '?'}'")


def check_confusion(rep, repo):
    fi = repo.need_function(GEN, "confusion_matrix")
    from ..rules_premise import main_returns, values_view
    w0 = Walker(repo, fi, inline=inline_same_module_private(fi))
    w = values_view(w0)
    k = kernel(w, rep, fi)
    if not k:
        return
    li, T, P, pre = k
    inc = [e for e in w.events if e.kind == "store" and li.lid in e.loops]
    ok = False
    arr = None
    if pre:
        rep.fn("CM-all-pairs", fi, "the confusion matrix counts every pair, not only the misclassified ones", False,
               "the counting loop runs over the misclassified pairs only")
    if len(inc) == 1:
        e = inc[0]
        t = e.target
        if t[0] == "idx" and t[1][0] == "idx":
            arr = t[1][1]
            ok = e.aug == "+" and e.value == ("const", 1) and not e.guards and t[1][2] == T and t[2] == P
        elif t[0] == "idx" and t[2][0] == "tuple":
            arr = t[1]
            ok = e.aug == "+" and e.value == ("const", 1) and not e.guards and t[2][1] == (T, P)
    rep.fn("CM-count", fi, "every (true, predicted) pair adds exactly 1 at [true][pred]", ok,
           f"increment: {[e.text() for e in inc]}")
    if arr is not None:
        shape = arr[0] == "alloc" and arr[1] == "numpy.zeros" and arr[2] and arr[2][0][0] == "tuple" \
            and len(arr[2][0][1]) == 2 and all(n_class_ok(x) for x in arr[2][0][1]) and wide_counter(arr)
        rep.fn("CM-shape", fi, "K x K zeros with K = max(labels) + 1, counters wide enough for any sample count", shape,
               f"matrix is '{show(arr)}' (a counter type taken from the labels wraps around for narrow integer labels)")
        rets = [values_of(r.value) for r in main_returns(w0)]
        rets = [e for e in w.events if e.kind == "return" and e.fn is w.entry and e.value in rets]
        rep.fn("CM-return", fi, "the counted matrix is returned", len(rets) == 1 and rets[0].value == arr, "")


def check_per_label(rep, repo):
    fi = repo.need_function(GEN, "opf_accuracy_per_label")
    w = Walker(repo, fi, inline=inline_same_module_private(fi))
    _scalar_fragment(w, fi)
    from ..rules_premise import values_view
    w = values_view(w)
    k = kernel(w, rep, fi)
    if not k:
        return
    li, T, P, pre = k
    neq = ("cmp", "!=", *sorted([T, P], key=repr)) if P is not None else None
    inc = [e for e in w.events if e.kind == "store" and li.lid in e.loops]
    ok = len(inc) == 1 and inc[0].aug == "+" and inc[0].value == ("const", 1) \
        and facts(inc[0].guards) == (() if pre else (neq,)) \
        and inc[0].target[0] == "idx" and inc[0].target[2] == T
    rep.fn("PL-count", fi, "a misclassified sample adds 1 to the errors of its TRUE class", ok,
           f"increment: {[e.text() for e in inc]}")
    if not ok:
        return
    arr = inc[0].target[1]
    rep.fn("PL-shape", fi, "per-class error counters are wide zeros", arr[0] == "alloc" and arr[1] == "numpy.zeros"
           and wide_counter(arr) and arr[2] and n_class_ok(arr[2][0]), f"counters are '{show(arr)}'")
    divs = [e for e in w.events if e.kind == "bind" and e.aug == "/" and e.target is not None] + \
           [e for e in w.events if e.kind == "store" and e.aug == "/"]
    counts = [("idx", ("call", ("mod", "numpy.unique"), (lab,), (("return_counts", ("const", True)),)), ("const", 1))
              for lab in (("param", "labels"), asarr("labels"))]
    counts += [("call", ("mod", "numpy.bincount"), (lab,), ()) for lab in (("param", "labels"), asarr("labels"))]
    if len(divs) == 1 and divs[0].target not in counts and any(
            t[0] == "call" and t[1][0] == "mod" and t[1][1].startswith("collections.") for t in subterms(divs[0].target)):
        from ..core import AnalysisError
        raise AnalysisError(f"{fi.qual}: the class sizes come from a collections table ('{show(divs[0].target)[:60]}'); in which order "
                            "its entries line up with the classes is not something the measure rules can read - outside the analysable fragment")
    okd = len(divs) == 1 and divs[0].target in counts
    rep.fn("PL-denominator", fi, "errors of class c are divided by N_c (count of true labels c)", okd,
           f"division by '{show(divs[0].target) if divs else 'nothing'}'")
    rets = [e for e in w.events if e.kind == "return" and e.fn is w.entry]
    okr = False
    if len(rets) == 1:
        v = rets[0].value
        okr = v[0] == "bin" and v[1] == "-" and v[2] == ("const", 1) and arr in (v[3], ) or \
            (v[0] == "bin" and v[1] == "-" and v[2] == ("const", 1) and v[3][0] == "bin" and v[3][1] == "/" and v[3][2] == arr)
    rep.fn("PL-closing", fi, "per-label accuracy = 1 - FN_c / N_c (recall)", okr and okd,
           f"returns '{show(rets[0].value)[:120] if rets else '?'}'")


def check_purity(rep, repo):
    fi = repo.need_function(GEN, "purity")
    w = Walker(repo, fi, inline=inline_same_module_private(fi))
    from ..rules_premise import main_returns
    rets = main_returns(w)
    ok = False
    if len(rets) == 1:
        cm = ("call", ("mod", "opfython.math.general.confusion_matrix"), (("param", "labels"), ("param", "preds")), ())
        # (an optional class count the documented signature does not have, handed on at its default)
        v0 = rets[0].value
        for t in subterms(v0):
            if t[0] == "call" and t[1] == cm[1] and t[2][:2] == cm[2] and all(x == ("const", None) for x in t[2][2:]) \
                    and all(v == ("const", None) for _, v in t[3]):
                cm = t
        vret = values_of(rets[0].value)
        cmv = values_of(cm)
        sizes = [("call", ("builtin", "len"), (("param", "labels"),), ()), ("attr", ("param", "labels"), "size"),
                 ("idx", ("attr", ("param", "labels"), "shape"), ("const", 0))]
        for mx in ("numpy.max", "numpy.amax"):
            for cmx in (cm, cmv):
                inner = ("call", ("mod", mx), (cmx,), (("axis", ("const", 0)),))
                for n_t in sizes:
                    want = ("bin", "/", ("call", ("mod", "numpy.sum"), (inner,), ()), n_t)
                    if rets[0].value == want or vret == want:
                        ok = True
        ok = ok or _purity_loop(w, rets[0].value, cm) or _purity_scalar_loops(w, rets[0].value, cm)
        if not ok:
            # the counts filled in place by a worker the change added (inlined here): a K x K table of zeros incremented at
            # [true label][predicted label] once per pair IS the confusion matrix
            tabs = {t for t in subterms(rets[0].value) if t[0] == "alloc" and t[1] == "numpy.zeros"}
            for T in tabs:
                incs = [e for e in w.events if e.kind == "store" and e.target[0] == "idx" and e.target[1][0] == "idx" and e.target[1][1] == T]
                lab, prd = values_of(("param", "labels")), values_of(("param", "preds"))

                def elem(x, arr_name):
                    x = values_of(x)
                    return x[0] == "idx" and values_of(x[1]) == ("param", arr_name) and x[2][0] == "iterproj" and x[2][1][0] == "call" \
                        and x[2][1][1] == ("builtin", "zip") and [values_of(a) for a in x[2][1][2]] == [("param", "labels"), ("param", "preds")]
                if len(incs) == 1 and incs[0].aug == "+" and incs[0].value == ("const", 1) and not incs[0].guards \
                        and elem(incs[0].target[1][2], "labels") and elem(incs[0].target[2], "preds"):
                    for mx in ("numpy.max", "numpy.amax"):
                        inner = ("call", ("mod", mx), (T,), (("axis", ("const", 0)),))
                        for n_t in sizes:
                            if rets[0].value == ("bin", "/", ("call", ("mod", "numpy.sum"), (inner,), ()), n_t):
                                ok = True
    rep.fn("PUR", fi, "purity = sum over predicted groups of max over true classes of M[true][pred], / N", ok,
           f"returns '{show(rets[0].value)[:160] if rets else '?'}' (the matrix must be confusion_matrix(labels, preds) "
           "and the maximum must run over axis 0, the true-class axis)")


def _purity_loop(w, value, cm) -> bool:
    """The same sum spelt as a loop over the predicted groups: acc = 0; for g in range(M.shape[1]): acc += max(M[:, g])."""
    from ..ir import elem_of, tkey
    n = ("call", ("builtin", "len"), (("param", "labels"),), ())
    if not (value[0] == "bin" and value[1] == "/" and value[3] == n and value[2][0] == "phi"):
        return False
    li = w.loops.get(value[2][1])
    if li is None or li.kind != "for" or li.loops or value[2][2] not in li.carried:
        return False
    shape = ("attr", cm, "shape")
    doms = [("call", ("builtin", "range"), (("idx", shape, ("const", k)),), ()) for k in (0, 1)]  # the matrix is square
    if li.domain not in doms:
        return False
    init, nxt = li.carried[value[2][2]]
    if init not in (("const", 0), ("const", 0.0)):
        return False
    g = elem_of(li.domain, li.lid)
    col = ("idx", cm, ("tuple", (("slice", None, None, None), g)))
    acc = ("phi", li.lid, value[2][2])
    for mx in (("mod", "numpy.max"), ("mod", "numpy.amax"), ("builtin", "max")):
        term = ("call", mx, (col,), ())
        if nxt in (("bin", "+", *sorted([acc, term], key=tkey)),):
            stores = [e for e in w.events if li.lid in e.loops and e.kind == "store"]
            return not stores
    return False


def _purity_scalar_loops(w, value, cm) -> bool:
    """The same sum entry by entry: acc = 0; for g in range(#classes): best = 0; for row in M: if row[g] > best: best = row[g];
    acc += best.  (M or M.tolist(); the entries are counts >= 0, so the running maximum may start at 0.)"""
    from ..ir import tkey
    n = ("call", ("builtin", "len"), (("param", "labels"),), ())
    if value[0] != "bin" or value[1] != "/" or value[3] != n:
        return False
    num = value[2]
    if num[0] == "call" and num[1] in (("mod", "numpy.float64"), ("builtin", "float")) and len(num[2]) == 1 and not num[3]:
        num = num[2][0]
    if num[0] != "phi":
        return False
    outer = w.loops.get(num[1])
    if outer is None or outer.kind != "for" or outer.loops or num[2] not in outer.carried:
        return False
    rows = [cm, ("call", ("attr", cm, "tolist"), (), ())]
    sizes = [("call", ("builtin", "len"), (r,), ()) for r in rows] + [("idx", ("attr", cm, "shape"), ("const", k)) for k in (0, 1)]
    if outer.domain not in [("call", ("builtin", "range"), (sz,), ()) for sz in sizes]:
        return False
    g = ("iter", outer.domain, outer.lid)
    init, nxt = outer.carried[num[2]]
    acc = ("phi", outer.lid, num[2])
    if init not in (("const", 0), ("const", 0.0)) or nxt[0] != "bin" or nxt[1] != "+" or acc not in nxt[2:4]:
        return False
    best = nxt[3] if nxt[2] == acc else nxt[2]
    if best[0] != "phi":
        return False
    inner = w.loops.get(best[1])
    if inner is None or inner.kind != "for" or inner.loops != (outer.lid,) or inner.domain not in rows or best[2] not in inner.carried:
        return False
    row = ("iter", inner.domain, inner.lid)
    entry = ("idx", row, g)
    b0, b1 = inner.carried[best[2]]
    B = ("phi", inner.lid, best[2])
    if b0 not in (("const", 0), ("const", 0.0)) or b1 != ("sel", ("cmp", "<", B, entry), entry, B):
        return False
    stores = [e for e in w.events if outer.lid in e.loops and e.kind == "store"]
    return not stores


def check_normalize(rep, repo):
    fi = repo.need_function(GEN, "normalize")
    w = Walker(repo, fi, inline=inline_same_module_private(fi))
    rets = [e for e in w.events if e.kind == "return" and e.fn is w.entry]
    a = ("param", fi.params[0])
    ok = False
    if len(rets) == 1:
        mean = ("call", ("mod", "numpy.mean"), (a,), (("axis", ("const", 0)),))
        std = ("call", ("mod", "numpy.std"), (a,), (("axis", ("const", 0)),))
        # (the property speaks of non-constant columns: `where(std == 0, <anything>, std)` is std there)
        def spread(d):
            if d == std:
                return True
            if d[0] == "call" and d[1] == std[1] and d[2] == std[2] and dict(d[3]) == {**dict(std[3]), "ddof": ("const", 0)}:
                return True  # the default ddof spelt out
            if d[0] == "call" and d[1] == ("mod", "numpy.where") and len(d[2]) == 3 and not d[3]:
                c, x, y = d[2]
                zero = [("const", 0), ("const", 0.0)]
                if y == std and c in [mk_cmp("==", std, z) for z in zero]:
                    return True
                if x == std and c in [mk_cmp("!=", std, z) for z in zero] + [("cmp", "<", z, std) for z in zero]:
                    return True
            return False
        v = values_of(rets[0].value)
        a, mean, std = values_of(a), values_of(mean), values_of(std)
        ok = v[0] == "bin" and v[1] == "/" and v[2] == ("bin", "-", a, mean) and spread(v[3])
    rep.fn("NORM", fi, "normalize = (a - column mean) / column standard deviation", ok,
           f"returns '{show(rets[0].value)[:160] if rets else '?'}'")


def check_measures_inplace(rep, repo):
    """A measure is a function of its arguments: nothing it (or a helper it calls) does may rearrange an argument or the
    array it returns - e.g. a diagnostic that sorts "a copy" obtained with np.asarray."""
    from ..rules_premise import check_function_inplace
    for name in ("opf_accuracy", "opf_accuracy_per_label", "confusion_matrix", "purity", "normalize"):
        fi = repo.need_function(GEN, name)
        check_function_inplace(rep, Walker(repo, fi, inline=inline_same_module_private(fi)), "MEASURE-inplace", name)


def check(chk, repo):
    chk.explanation = EXPLANATION
    rep = Rep(chk, repo)
    check_measures_inplace(rep, repo)
    check_accuracy(rep, repo)
    check_confusion(rep, repo)
    check_per_label(rep, repo)
    check_purity(rep, repo)
    check_normalize(rep, repo)
    chk.floor("measures analysed", 5, 5)
    chk.undecided.append("the bounds and '= 1 iff all correct' (properties of the formula the code is shown to equal)")
    chk.assumptions.append("labels are 0..K-1 with every class present among the true labels (the property's premise)")
