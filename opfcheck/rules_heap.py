"""E7: structural rules for opfython.core.heap.Heap (H1-H7).

Necessary conditions for priority-queue correctness, decided from the source of
the eight methods.  Not a proof over histories (DESIGN.md, C05 "not decided").
"""

from __future__ import annotations

import ast
import copy
from typing import Dict, List, Optional, Tuple

from .core import AnalysisError, Repo, unparse
from .ir import Event, Term, Walker, conj, facts, has_guard, mk_not, show, subterms

SELF = ("self",)
P = ("attr", SELF, "p")
POS = ("attr", SELF, "pos")
COST = ("attr", SELF, "cost")
COLOR = ("attr", SELF, "color")
LAST = ("attr", SELF, "last")
SIZE = ("attr", SELF, "size")
POLICY = ("attr", SELF, "policy")


def K(n):
    return ("K", n)


def nil_subst(repo: Repo) -> Dict[Term, Term]:
    """Inside the queue the empty-slot marker -1 may be spelt c.NIL (when that constant is -1): read it as the number."""
    return {("K", "NIL"): ("const", -1)} if repo.constants.get("NIL") == -1 else {}


def heap_walks(repo: Repo) -> Dict[str, Walker]:
    out = {}
    for m in ("__init__", "is_full", "is_empty", "dad", "left_son", "right_son", "go_up", "go_down",
              "insert", "remove", "update"):
        fi = repo.need_method("Heap", m)
        out[m] = Walker(repo, fi, self_class="Heap", subst=nil_subst(repo), inline=heap_helper)
    return out


def _policy_derived_fields(repo: Repo) -> Dict[str, Dict[Term, Term]]:
    """Fields the policy setter derives from its argument (`self._min_first = policy == "min"`) and nothing else writes:
    in a heap of policy P they hold that expression evaluated at P.  {policy: {field term: constant}}"""
    import ast as _ast
    from .ir import mk_cmp
    ci = repo.find_class("Heap")
    st = ci.setters.get("policy")
    out: Dict[str, Dict[Term, Term]] = {"min": {}, "max": {}}
    if st is None or len(st.params) != 2:
        return out
    w = Walker(repo, st, self_class="Heap", inline=lambda f: False)
    arg = ("param", st.params[1])
    for e in w.events:
        if e.kind != "store" or e.target[0] != "attr" or e.target[1] != SELF or e.target[2] in ("_policy", "policy") or e.loops:
            continue
        fld = e.target[2]
        # written nowhere else in the class
        others = 0
        for fi in list(ci.methods.values()) + list(ci.setters.values()):
            if fi is st:
                continue
            for n in _ast.walk(fi.node):
                if isinstance(n, _ast.Attribute) and n.attr == fld and isinstance(n.ctx, (_ast.Store, _ast.Del)):
                    others += 1
        if others:
            continue
        for pol in ("min", "max"):
            def ev(t):
                if t == arg:
                    return ("const", pol)
                if isinstance(t, tuple) and t and t[0] == "cmp" and t[1] in ("==", "!="):
                    return mk_cmp(t[1], ev(t[2]), ev(t[3]))
                if isinstance(t, tuple) and t and t[0] == "not":
                    v = ev(t[1])
                    return ("const", not v[1]) if v[0] == "const" and isinstance(v[1], bool) else ("not", v)
                return t
            v = ev(e.value)
            if v[0] == "const":
                out[pol][("attr", SELF, fld)] = v
    return out


def heap_helper(f) -> bool:
    """Private helpers of the queue, and public methods the documented API does not have (a comparator made public)."""
    from .ir import api_signature
    if f.cls != "Heap" or f.name.startswith("__"):
        return False
    return f.name.startswith("_") or (api_signature(f) is None and not f.decorators)


# ---------------------------------------------------------------------------
# helpers
# ---------------------------------------------------------------------------


def strip_old(t: Term) -> Term:
    while t[0] == "old":
        t = t[1]
    return t


def strip_int(t: Term) -> Term:
    while t[0] == "call" and t[1] == ("builtin", "int") and len(t[2]) == 1:
        t = t[2][0]
    return t


def lin(t: Term) -> Optional[Dict[object, float]]:
    """Linear form {atom: coeff, 1: const} of an integer expression, or None."""
    t = strip_int(t)
    if t[0] == "const" and isinstance(t[1], (int, float)) and not isinstance(t[1], bool):
        return {1: t[1]}
    if t[0] == "bin":
        op, l, r = t[1], lin(t[2]), lin(t[3])
        if l is None or r is None:
            return None
        if op in ("+", "-"):
            out = dict(l)
            for k, v in r.items():
                out[k] = out.get(k, 0) + (v if op == "+" else -v)
            return {k: v for k, v in out.items() if v != 0 or k == 1}
        if op == "*":
            if set(l) <= {1}:
                c = l.get(1, 0)
                return {k: v * c for k, v in r.items()}
            if set(r) <= {1}:
                c = r.get(1, 0)
                return {k: v * c for k, v in l.items()}
            return None
        if op == "<<" and set(r) <= {1}:
            c = 2 ** int(r.get(1, 0))
            return {k: v * c for k, v in l.items()}
        return None
    if t[0] == "neg":
        l = lin(t[1])
        return None if l is None else {k: -v for k, v in l.items()}
    return {t: 1}


def lin_eq(a: Optional[dict], b: dict) -> bool:
    if a is None:
        return False
    keys = set(a) | set(b)
    return all(a.get(k, 0) == b.get(k, 0) for k in keys)


class HeapKinds:
    """Pos (heap position) vs Elem (queued element) inside Heap methods."""

    def __init__(self, w: Walker):
        self.w = w
        self.fn = w.entry.name
        self.params = w.entry.params[1:]

    def kind(self, t: Term, depth: int = 0) -> Optional[str]:
        if depth > 12:
            return None
        tag = t[0]
        if tag == "old":
            return self.kind(t[1], depth + 1)
        if tag == "param":
            if self.fn in ("go_up", "go_down", "dad", "left_son", "right_son") and self.params and t[1] == self.params[0]:
                return "Pos"
            if self.fn in ("insert", "update") and self.params and t[1] == self.params[0]:
                return "Elem"
            return None
        if tag == "const":
            return "PosLit" if isinstance(t[1], int) and not isinstance(t[1], bool) else None
        if t == LAST:
            return "Pos"
        if tag == "call" and t[1][0] == "attr" and t[1][1] == SELF and t[1][2] in ("dad", "left_son", "right_son"):
            return "Pos"
        if tag == "call" and t[1] == ("builtin", "int") and len(t[2]) == 1:
            return self.kind(t[2][0], depth + 1)
        if tag == "idx":
            if t[1] == P:
                return "Elem"
            if t[1] == POS:
                return "Pos"
            return None
        if tag == "sel":
            a, b = self.kind(t[2], depth + 1), self.kind(t[3], depth + 1)
            return a if a == b else (a or b) if (a is None or b is None) else "Mixed"
        if tag == "phi":
            li = self.w.loops.get(t[1])
            if li and t[2] in li.carried:
                a = self.kind(li.carried[t[2]][0], depth + 1)
                return a
            return None
        if tag == "bin":
            l = lin(t)
            if l is not None:
                atoms = [k for k in l if k != 1]
                ks = {self.kind(a, depth + 1) for a in atoms}
                if ks == {"Pos"}:
                    return "Pos"
                if "Elem" in ks:
                    return "ElemArith"
            return None
        return None


# ---------------------------------------------------------------------------
# the rules
# ---------------------------------------------------------------------------


def _flip_cost_comparisons(node: ast.AST) -> ast.AST:
    node = copy.deepcopy(node)
    swap = {ast.Lt: ast.Gt, ast.Gt: ast.Lt, ast.LtE: ast.GtE, ast.GtE: ast.LtE}
    for n in ast.walk(node):
        if isinstance(n, ast.Compare) and any(isinstance(x, ast.Subscript) for x in ast.walk(n)):
            n.ops = [swap.get(type(o), type(o))() for o in n.ops]
    return node


def _policy_if(fi) -> Optional[Tuple[ast.If, str]]:
    for s in fi.node.body:
        if isinstance(s, ast.If) and isinstance(s.test, ast.Compare) and len(s.test.ops) == 1:
            l, r = s.test.left, s.test.comparators[0]
            if unparse(l) == "self.policy" and isinstance(r, ast.Constant) and isinstance(s.test.ops[0], ast.Eq):
                return s, r.value
            if unparse(r) == "self.policy" and isinstance(l, ast.Constant) and isinstance(s.test.ops[0], ast.Eq):
                return s, l.value
    return None


def policy_of(ev_guards) -> Optional[str]:
    """'min' / 'max' from the policy guard dominating an event."""
    for g, pol in ev_guards:
        if g[0] == "cmp" and g[1] == "==" and POLICY in (g[2], g[3]):
            other = g[2] if g[3] == POLICY else g[3]
            if other[0] == "const" and other[1] in ("min", "max"):
                if pol:
                    return other[1]
                return "max" if other[1] == "min" else "min"
    return None


def cost_of_pos(pos: Term) -> Term:
    return ("idx", COST, ("idx", P, pos))


def _cost_cmp(t: Term) -> Optional[Tuple[Term, Term, bool]]:
    """(pos_lo, pos_hi, strict) for `cost[p[lo]] < cost[p[hi]]`."""
    if t[0] == "cmp" and t[1] in ("<", "<="):
        l, r = t[2], t[3]
        if l[0] == "idx" and l[1] == COST and r[0] == "idx" and r[1] == COST:
            li, ri = l[2], r[2]
            if li[0] == "idx" and li[1] == P and ri[0] == "idx" and ri[1] == P:
                return li[2], ri[2], t[1] == "<"
    return None


def check_heap(rep, repo: Repo, pre: str = "") -> None:
    W = heap_walks(repo)
    heap_mod = repo.modules[W["insert"].entry.module]

    # ---- H4 index algebra -----------------------------------------------------
    for name, want in (("dad", None), ("left_son", {("param", "_"): 2, 1: 1}), ("right_son", {("param", "_"): 2, 1: 2})):
        w = W[name]
        rets = [e for e in w.events if e.kind == "return" and e.fn is w.entry]
        own_params = [x for x in w.entry.params if x != "self"]
        if len(own_params) != 1:
            raise AnalysisError(f"Heap.{name}: expected one position parameter, found {own_params}")
        prm = ("param", own_params[0])  # (a static method has no self)
        if len(rets) == 2 and name == "dad":
            # `if i > 0: return <parent>` / `return <something for i <= 0>`: positions are >= 0 and the root has no parent
            # (the sifts never ask for it), so the branch for positive positions is the function
            from .ir import facts as _facts
            pos = [e for e in rets if _facts(e.guards) in ((("cmp", "<", ("const", 0), prm),), (("cmp", "<=", ("const", 1), prm),))]
            if len(pos) == 1:
                rets = pos
        if len(rets) != 1:
            raise AnalysisError(f"Heap.{name}: expected a single return")
        t = rets[0].value
        if name == "dad" and t[0] == "sel" and t[1] in (("cmp", "<", ("const", 0), prm), ("cmp", "<=", ("const", 1), prm)):
            t = t[2]  # the same as a conditional expression

            def unabs(x):  # abs(i - 1) is i - 1 where i >= 1
                if not isinstance(x, tuple) or not x:
                    return x
                if x[0] == "call" and x[1] == ("builtin", "abs") and len(x[2]) == 1 and lin_eq(lin(x[2][0]), {prm: 1, 1: -1}):
                    return x[2][0]
                return tuple(unabs(y) if isinstance(y, tuple) else y for y in x)
            t = unabs(t)
        if name == "dad":
            inner = strip_int(t)
            # the truncating quotient spelt in integers: `n // 2 if n >= 0 else -(-n // 2)` is int(n / 2); for the positions the
            # sifts ask about (n = i - 1 >= 0) it is n // 2
            if inner[0] == "sel" and inner[1][0] == "cmp" and inner[1][1] in ("<=", "<"):
                c0 = inner[1]
                nn = c0[3] if c0[2] in (("const", 0), ("const", -1)) else None
                if nn is not None and inner[2] == ("bin", "//", nn, ("const", 2)) and inner[3] in (
                        ("neg", ("bin", "//", ("neg", nn), ("const", 2))),
                        ("bin", "-", ("const", 0), ("bin", "//", ("neg", nn), ("const", 2)))) \
                        and (c0 == ("cmp", "<=", ("const", 0), nn) or c0 == ("cmp", "<", ("const", -1), nn)):
                    inner = inner[2]
            ok = False
            if inner[0] == "bin" and inner[1] in ("/", "//") and inner[3] == ("const", 2):
                ok = lin_eq(lin(inner[2]), {prm: 1, 1: -1}) and (inner[1] == "//" or t != inner)
            elif inner[0] == "bin" and inner[1] == ">>" and inner[3] == ("const", 1):
                ok = lin_eq(lin(inner[2]), {prm: 1, 1: -1})
            rep.ev(pre + "H4", rets[0], ok, "parent position must be floor((i - 1) / 2)")
        else:
            exp = {prm: 2, 1: want[1]}
            rep.ev(pre + "H4", rets[0], lin_eq(lin(t), exp), f"{name} must be 2*i + {want[1]}")

    # ---- policy-specialised walks of the two sift routines -----------------------------------
    # `self.policy` is replaced by the constant "min" / "max": wherever the dispatch is written (outer if,
    # comparator helper, conditional expression) each walk sees one policy only.
    helper = heap_helper
    SP: Dict[Tuple[str, str], Walker] = {}
    derived = _policy_derived_fields(repo)
    for name in ("go_up", "go_down"):
        for pol in ("min", "max"):
            SP[(name, pol)] = Walker(repo, repo.need_method("Heap", name), self_class="Heap", inline=helper,
                                     subst={POLICY: ("const", pol), **nil_subst(repo), **derived.get(pol, {})})

    # the sift rules read comparisons of costs written as comparisons; an element picked by `min(..., key=f)` /
    # `max(..., key=f)` / `sorted(...)` hides them in a key function: outside the analysable fragment
    for (name, pol), wsp in SP.items():
        for e in wsp.events:
            if e.kind == "call" and e.name in ("builtin.min", "builtin.max", "builtin.sorted") and "key" in dict(e.kwargs or ()):
                raise AnalysisError(f"Heap.{name}: the element to move is selected with {e.name[8:]}(..., key=...); the sift "
                                    "rules cover explicit cost comparisons only")

    # ... and sifts written with the "hole" technique (the moving element is held aside, the others are shifted into the
    # hole inside the loop, the held element is stored once after it) have no swaps for H2 / H3 to read
    def deep_strip(t):
        if not isinstance(t, tuple) or not t:
            return t
        if t[0] == "old":
            return deep_strip(t[1])
        return tuple(deep_strip(x) if isinstance(x, tuple) else x for x in t)

    def lift(t):
        """sel(c, cost[p[a]], cost[p[b]])  ->  cost[p[sel(c, a, b)]]  (a running best cost is the cost at the best position)."""
        if not isinstance(t, tuple) or not t:
            return t
        t = tuple(lift(x) if isinstance(x, tuple) else x for x in t)
        if t[0] == "sel" and all(isinstance(a, tuple) and a[:2] == ("idx", COST) and a[2][:2] == ("idx", P) for a in t[2:4]):
            return ("idx", COST, ("idx", P, ("sel", t[1], t[2][2][2], t[3][2][2])))
        return t

    def is_dad_of(t, x) -> bool:
        """t is floor((x - 1) / 2) in one of the spellings H4 accepts for Heap.dad."""
        if t == ("call", ("attr", SELF, "dad"), (x,), ()):
            return True
        inner = strip_int(t)
        if inner[0] == "bin" and ((inner[1] == "//" and inner[3] == ("const", 2)) or (inner[1] == ">>" and inner[3] == ("const", 1))
                                  or (inner[1] == "/" and inner[3] == ("const", 2) and inner != t)):
            return lin_eq(lin(inner[2]), {x: 1, 1: -1})
        return False

    def hole_parts(wsp):
        """(shift stores, final placement stores) of a sift written with the hole technique, else ([], [])."""
        pst = [e for e in wsp.events if e.kind == "store" and e.target[0] == "idx" and e.target[1] == P]
        swaps = {id(e) for e in pst for f in pst if f is not e and f.stmt is e.stmt
                 and deep_strip(e.value) == ("idx", P, deep_strip(f.target[2])) and deep_strip(f.value) == ("idx", P, deep_strip(e.target[2]))}
        sh = [e for e in pst if e.loops and id(e) not in swaps and deep_strip(e.value)[:2] == ("idx", P)]
        fin = [e for e in pst if not e.loops and id(e) not in swaps]
        return (sh, fin) if sh and fin else ([], [])

    hole_up, hole_down = {}, {}
    for (name, pol), wsp in SP.items():
        shifts, final = hole_parts(wsp)
        if shifts and final and name == "go_up":
            hole_up[pol] = (shifts, final)  # decided by the hole-form rules of H3-up below
        elif shifts and final:
            hole_down[pol] = (shifts, final)  # decided by H3-down on a view in which the hole holds the held element

    # ---- H1 mirror -----------------------------------------------------------
    def mirror_sig(w: Walker, pol: str):
        from .schema import rewrite

        def f(t):
            c = _cost_cmp(t)
            if c is None and t[0] == "cmp":
                c = _cost_cmp(lift(deep_strip(t)))  # one side is a held copy (`key = cost[node]`) / a running best cost
            if c is not None:
                lo, hi, strict = c
                a, b = (lo, hi) if pol == "min" else (hi, lo)
                return ("call", ("free", "better" if strict else "better_or_equal"), (rewrite(a, f), rewrite(b, f)), ())
            if t[0] == "old":
                return rewrite(t[1], f)
            if t[0] == "phi":
                return ("phi", 0, t[2])
            return None

        from .ir import norm_cond, norm_sels
        out = []
        R = lambda t: show(rewrite(norm_sels(t), f))
        for e in w.events:
            if e.kind in ("bind",):
                continue
            if (e.kind == "call" and e.name == "<inline>") or (e.kind == "return" and e.fn is not w.entry):
                continue  # bookkeeping of an inlined private helper: its body's events are listed themselves
            gs = []
            for g in facts(e.guards):
                g = norm_cond(norm_sels(g))
                gs.extend(g[1] if g[0] == "and" else [g])
            out.append((e.kind, e.name if e.kind == "call" else e.aug,
                        R(e.target) if e.target is not None else None,
                        R(e.value) if e.value is not None and e.kind == "store" else None,
                        tuple(R(a) for a in e.args),
                        tuple(R(g) for g in gs)))
        for li in w.loops.values():
            if li.cond is not None:
                out.append(("loop", show(rewrite(li.cond, f))))
        return out

    for name in ("go_up", "go_down"):
        a, b = mirror_sig(SP[(name, "min")], "min"), mirror_sig(SP[(name, "max")], "max")
        rep.fn(pre + "H1", SP[(name, "min")].entry, f"min and max behaviour of {name} mirror each other", a == b,
               "the two policies differ by more than the direction of the cost comparisons")

    # ---- H3 go_up -------------------------------------------------------------
    for pol in ("min", "max"):
        w = SP[("go_up", pol)]
        loops = [li for li in w.loops.values() if li.kind == "while"]
        if len(loops) != 1:
            rep.fn(pre + "H3-up-loop", w.entry, f"go_up sifts in one loop  [{pol}]", False,
                   f"expected one sift loop in go_up, found {len(loops)}: an inserted / improved element is not moved towards the root")
            continue
        li = loops[0]
        I = ("phi", li.lid, w.entry.params[1])
        cs = [] if li.cond == ("const", True) else list(conj(li.cond))
        # continuation tests written as `if not <test>: break` at the top of the body (before anything is moved)
        first_store = min([e.seq for e in w.events if e.kind == "store" and li.lid in e.loops] or [10 ** 9])
        base_f = set(facts(li.guards)) | set(cs)
        for bk in w.events:
            if bk.kind == "break" and bk.loops and bk.loops[-1] == li.lid and bk.seq < first_store:
                own = [f for f in facts(bk.guards) if f not in base_f]
                if len(own) == 1:
                    cs.append(mk_not(own[0]))
        pos_guard = [c for c in cs if c in (("cmp", "<", ("const", 0), I), ("cmp", "<=", ("const", 1), I))]
        fnode = li.node
        rep.fn(pre + "H3-up-root", w.entry, "while " + unparse(fnode.test) + f"  [{pol}]", len(pos_guard) == 1,
               "sift-up must stop at the root (i > 0)", line=li.line)
        if pol in hole_up:
            # hole form: node = p[i0] is held aside; while i > 0 and cost[p[dad(i)]] (worse than) cost[node]:
            #            p[i] = p[dad(i)]; pos[p[i]] = i; i = dad(i);   then p[i] = node; pos[node] = i
            i_name = w.entry.params[1]
            start = ("param", i_name)
            held = ("idx", P, start)
            dad_call = ("call", ("attr", SELF, "dad"), (I,), ())
            cc = [x for x in (_cost_cmp(deep_strip(c)) for c in cs) if x]
            okc, parent = False, None
            if len(cc) == 1:
                lo, hi, strict = cc[0]
                child, parent = (lo, hi) if pol == "min" else (hi, lo)
                okc = child == start and strict
                if parent[0] == "phi" and parent[1] == li.lid and parent[2] in li.carried:
                    j0, j1 = li.carried[parent[2]]
                    i0c, i1c = li.carried.get(i_name, (None, None))
                    okc = okc and i0c is not None and j0 == ("call", ("attr", SELF, "dad"), (i0c,), ()) \
                        and j1 == ("call", ("attr", SELF, "dad"), (i1c,), ())
                else:
                    okc = okc and is_dad_of(parent, I)
            rep.fn(pre + "H3-up-cmp", w.entry, "while " + unparse(fnode.test) + f"  [{pol}, hole form]", okc,
                   "the loop must run while the element at dad(i) is strictly worse than the held element (the one that was at "
                   "the start position)", line=li.line)
            i0c, i1c = li.carried.get(i_name, (None, None))
            rep.fn(pre + "H3-up-move", w.entry, f"i moves to its parent after the shift  [{pol}]", parent is not None and i1c == parent,
                   f"i becomes '{show(i1c) if i1c else '?'}' instead of the parent position", line=li.line)
            shifts, final = hole_up[pol]
            sh = {(strip_old(e.target[2]), deep_strip(e.value)) for e in shifts}
            rep.fn(pre + "H3-up-swap", w.entry, f"the parent is shifted into the hole: p[i] = p[dad(i)]  [{pol}]",
                   parent is not None and sh == {(I, ("idx", P, parent))},
                   "the loop body must move exactly the parent element into position i", line=li.line)
            fin_ok = len(final) == 1 and strip_old(final[0].target[2]) == I and deep_strip(final[0].value) == held \
                and final[0].seq > li.last_seq and all(
                    f in (("cmp", "!=", *sorted([I, start], key=repr)),) or f in facts(li.guards) for f in facts(final[0].guards))
            rep.fn(pre + "H3-up-place", w.entry, f"the held element is stored at the final position after the loop  [{pol}]", fin_ok,
                   "after the shifts the element taken from the start position must be written to p[i] (i = where the loop "
                   "stopped), unconditionally or when i moved", line=li.line)
            continue
        cc = [x for x in (_cost_cmp(c) for c in cs) if x]
        ok = False
        detail = "sift-up must compare the cost of the element at the parent position with the one at i"
        if len(cc) == 1:
            lo, hi, strict = cc[0]
            child, parent = (lo, hi) if pol == "min" else (hi, lo)
            dad_call = ("call", ("attr", SELF, "dad"), (I,), ())
            inv = False
            if parent == dad_call:
                inv = True
            elif parent[0] == "phi" and parent[1] == li.lid and parent[2] in li.carried:
                j0, j1 = li.carried[parent[2]]
                i0, i1 = li.carried.get(w.entry.params[1], (None, None))
                inv = (
                    i0 is not None
                    and j0 == ("call", ("attr", SELF, "dad"), (i0,), ())
                    and j1 == ("call", ("attr", SELF, "dad"), (i1,), ())
                )
            ok = child == I and inv
            if child != I and parent == I:
                detail = f"comparison direction is wrong for policy {pol!r}"
            elif not inv:
                detail = "the position compared with i is not provably dad(i)"
            i0, i1 = li.carried.get(w.entry.params[1], (None, None))
            moved = i1 == parent
            rep.fn(pre + "H3-up-move", w.entry, f"i moves to its parent after the swap  [{pol}]", moved,
                   f"i becomes '{show(i1) if i1 else '?'}' instead of the parent position", line=li.line)
            st = [e for e in w.events if e.kind == "store" and li.lid in e.loops and e.target[0] == "idx" and e.target[1] == P]
            sw = {(strip_old(e.target[2]), strip_old(e.value)) for e in st}
            good = sw == {(parent, ("idx", P, I)), (I, ("idx", P, parent))}
            rep.fn(pre + "H3-up-swap", w.entry, f"p[parent] and p[i] are exchanged  [{pol}]", good,
                   "the sift-up body does not exchange exactly p[parent] and p[i]", line=li.line)
        rep.fn(pre + "H3-up-cmp", w.entry, "while " + unparse(fnode.test) + f"  [{pol}]", ok, detail, line=li.line)

    # ---- H3 go_down --------------------------------------------------------------
    def sel_leaves(t):
        t = strip_old(t)
        if t[0] == "sel":
            return sel_leaves(t[2]) | sel_leaves(t[3])
        return {t}

    from .ir import derived_phis, substitute_view
    for pol in ("min", "max"):
        w = SP[("go_down", pol)]
        w = substitute_view(w, derived_phis(w))  # `left` carried next to `i` as left_son(i)
        hole = None
        raw0 = SP[("go_down", pol)]
        pname = next((a for a in raw0.entry.params if a != "self"), None)
        held_swap = [e for e in raw0.events if e.kind == "store" and e.loops and e.target[0] == "idx" and e.target[1] == P
                     and pname is not None and deep_strip(e.value) == ("idx", P, ("param", pname))]
        if pol in hole_down or held_swap:
            # hole form: the element taken from the start position is held aside (`node`, `key = cost[node]`) and is, in
            # effect, the occupant of the hole at the current position i.  The view says exactly that: comparisons with
            # the held key read cost[p[i]], and a running `best` cost selected arm by arm is the cost at the selected position
            import dataclasses
            import types
            from .ir import plug_back
            raw = SP[("go_down", pol)]
            # (held-swap form: the element taken from the start position is exchanged level by level, `p[i], p[j] = p[j], node`;
            #  it is the occupant of the current position i by the same argument, and the ordinary swap rules decide the view)
            shifts, final = hole_down[pol] if pol in hole_down else (held_swap, [])
            lh = raw.loops[shifts[0].loops[-1]]
            iname = raw.entry.params[1]
            Ih = ("phi", lh.lid, iname)
            keyt = ("idx", COST, ("idx", P, ("param", iname)))
            heldt = ("idx", P, ("param", iname))

            def V(t):
                if t is None:
                    return None
                t = plug_back(deep_strip(t), keyt, ("idx", COST, ("idx", P, Ih)))
                if pol not in hole_down:
                    t = plug_back(t, heldt, ("idx", P, Ih))
                return lift(t)
            view = types.SimpleNamespace(entry=w.entry, repo=w.repo, guard_src=dict(w.guard_src), binop=w.binop,
                                         old_cause=getattr(w, "old_cause", {}), inlined=getattr(w, "inlined", []))
            view.events = [dataclasses.replace(
                e, target=V(e.target), value=V(e.value), args=tuple(V(a) for a in (e.args or ())),
                guards=tuple((V(g), pl) for g, pl in e.guards)) for e in w.events]
            view.loops = {lid: dataclasses.replace(l2, cond=V(l2.cond), guards=tuple((V(g), pl) for g, pl in l2.guards),
                                                   carried={n: (V(a), V(b)) for n, (a, b) in l2.carried.items()})
                          for lid, l2 in w.loops.items()}
            for g, src in list(w.guard_src.items()):
                view.guard_src.setdefault(V(g), src)
            w = view
            hole = (shifts, final, Ih, lh) if pol in hole_down else None
        # child selections: binds whose value is left_son(I) / right_son(I) (or 2I+1 / 2I+2) under a cost test
        cands = []
        import dataclasses as _dc
        expanded = []
        for e in w.events:
            # `j = left if <test> else i` is `if <test>: j = left` / `else: j = i`
            if e.kind == "bind" and e.value is not None and strip_old(e.value)[0] == "sel" and isinstance(e.stmt, ast.Assign) \
                    and isinstance(e.stmt.value, ast.IfExp):
                sv = strip_old(e.value)
                expanded.append(_dc.replace(e, value=sv[2], guards=e.guards + ((sv[1], True),)))
                expanded.append(_dc.replace(e, value=sv[3], guards=e.guards + ((sv[1], False),)))
            else:
                expanded.append(e)
        for e in expanded:
            if e.kind != "bind" or not e.guards:
                continue
            v = strip_old(e.value)
            cur = None
            which = None
            if v[0] == "call" and v[1][0] == "attr" and v[1][1] == SELF and v[1][2] in ("left_son", "right_son") and len(v[2]) == 1:
                cur, which = strip_old(v[2][0]), ("left" if v[1][2] == "left_son" else "right")
            else:
                lf = lin(v)
                if lf is not None and len([k for k in lf if k != 1]) == 1:
                    atom = [k for k in lf if k != 1][0]
                    if lf.get(atom) == 2 and lf.get(1) in (1, 2):
                        cur, which = atom, ("left" if lf.get(1) == 1 else "right")
                    elif lf.get(atom) == 1 and lf.get(1) == 1 and atom[0] == "call" and atom[1] == ("attr", SELF, "left_son") \
                            and len(atom[2]) == 1:
                        cur, which = strip_old(atom[2][0]), "right"  # left_son(x) + 1 is right_son(x) (H4)
            if cur is not None and any(_cost_cmp(c) for c in facts(e.guards)):
                # (the same selection bound once in an inlined helper and once more from its result is one selection)
                if not any(c[1] == v and c[3] == which and facts(c[0].guards) == facts(e.guards) for c in cands):
                    cands.append((e, v, cur, which))
        if len(cands) != 2 or {c[3] for c in cands} != {"left", "right"}:
            rep.fn(pre + "H3-down-children", w.entry, f"go_down selects among the left and the right child under cost tests  [{pol}]",
                   False, f"expected one left and one right child selection guarded by a cost comparison, found {[c[3] for c in cands]}: "
                   "the element moved to the root is not compared with both of its children")
            continue
        cands.sort(key=lambda c: c[0].seq)
        first, second = cands
        I = first[2]
        ok_same = second[2] == I
        rep.fn(pre + "H3-down-children", w.entry, f"both children are children of the same position  [{pol}]",
               ok_same, "left and right child are computed from different positions")
        # a test of the position against `last` that dominates the first child's selection restricts the walk; it may only say
        # that the position has a left child (2 * i + 1 <= last) or something weaker (i < last, i <= last) - for the current
        # position and, in the loop form, for the start position tested before the descent
        dl = deep_strip(LAST)
        for posn in ([deep_strip(I)] + ([("param", w.entry.params[-1])] if I[0] == "phi" else [])):
            want = lin(("bin", "-", ("bin", "+", ("bin", "*", ("const", 2), posn), ("const", 1)), dl))
            weaker = [{posn: 1, dl: -1, 1: 1}, {posn: 1, dl: -1, 1: 0}]
            for c in facts(first[0].guards):
                c = deep_strip(c)
                if c[0] != "cmp" or c[1] not in ("<", "<=", ">", ">="):
                    continue
                x, y = (c[2], c[3]) if c[1] in ("<", "<=") else (c[3], c[2])
                have = lin(("bin", "-", x, y))
                if have is None or set(k for k in have if k != 1 and have[k] != 0) != {posn, dl}:
                    continue
                if c[1] in ("<", ">"):
                    have = dict(have)
                    have[1] = have.get(1, 0) + 1
                oke = lin_eq(have, want) or any(lin_eq(have, wk) for wk in weaker)
                rep.fn(pre + "H3-down-entry", w.entry, f"test of a position against `last` before its children are compared: "
                       f"{show(c)[:80]}  [{pol}]", oke,
                       "an exit taken before the children are compared must leave exactly the positions without a left child "
                       "(2 * i + 1 > last): this one also skips positions whose only child is the last element")
        for (e, child, cur, which) in (first, second):
            cs = list(facts(e.guards))
            bound = [c for c in cs if c[0] == "cmp" and (
                (c[1] == "<=" and strip_old(c[2]) == child and strip_old(c[3]) == LAST)
                or (c[1] == "<" and strip_old(c[2]) == child and strip_old(c[3]) == ("bin", "+", *sorted([LAST, ("const", 1)], key=repr))))]
            if not bound and which == "left":
                # `i < (last + 1) // 2` is `2 * i + 1 <= last` for integers: the positions that own a left child
                half = ("bin", "//", ("bin", "+", *sorted([LAST, ("const", 1)], key=repr)), ("const", 2))
                halves = [half, ("bin", "//", ("bin", "+", LAST, ("const", 1)), ("const", 2)),
                          ("bin", "//", ("bin", "+", ("const", 1), LAST), ("const", 2))]
                bound = [c for c in cs if c[0] == "cmp" and c[1] == "<" and strip_old(c[2]) == cur
                         and deep_strip(c[3]) in [deep_strip(h) for h in halves]]
            if not bound:
                # the same bound in another integer spelling: `left < last` is `left + 1 <= last` (right = left + 1)
                want = lin(("bin", "-", deep_strip(child), deep_strip(LAST)))
                for c in cs:
                    if c[0] != "cmp" or c[1] not in ("<", "<=", ">", ">="):
                        continue
                    x, y = (c[2], c[3]) if c[1] in ("<", "<=") else (c[3], c[2])
                    have = lin(("bin", "-", deep_strip(x), deep_strip(y)))
                    if have is None or want is None:
                        continue
                    if c[1] in ("<", ">"):
                        have = dict(have)
                        have[1] = have.get(1, 0) + 1
                    if lin_eq(have, want):
                        bound.append(c)
            g_last = e.guards[-1][0]
            src = w.guard_src.get(g_last)
            text = src[1] if src else e.text()
            line = src[0] if src else e.line
            rep.fn(pre + "H3-down-bound", w.entry, f"{which} child: " + text + f"  [{pol}]", len(bound) == 1,
                   f"the {which} child must be tested against the last occupied position", line=line)
            cc = [x for x in (_cost_cmp(c) for c in cs) if x]
            ok = False
            detail = f"the {which} child must be compared with the best position so far"
            if len(cc) == 1:
                lo, hi, strict = cc[0]
                c_pos, other = (lo, hi) if pol == "min" else (hi, lo)
                c_pos, other = strip_old(c_pos), strip_old(other)
                if e is first[0]:
                    ok = c_pos == child and other == I
                else:
                    leaves = sel_leaves(other)
                    ok = c_pos == child and leaves == {first[1], I} and other[0] == "sel"
                    if c_pos == child and other == I:
                        detail = ("the second child is compared with i instead of the better of (i, first child): "
                                  "the larger/smaller child can be promoted above its sibling")
                if not ok and c_pos != child and other == child:
                    detail = f"comparison direction is wrong for policy {pol!r}"
            rep.fn(pre + "H3-down-cmp", w.entry, f"{which} child: " + text + f"  [{pol}]", ok, detail, line=line)
        # the chosen position J: where the walk continues
        J = None
        rec = None
        for e in w.events:
            if e.kind == "call" and e.name == "go_down" and e.args:
                J, rec = strip_old(e.args[0]), e
        loop_form = None
        if J is None and I[0] == "phi":
            li = w.loops.get(I[1])
            if li is not None and I[2] in li.carried:
                J = strip_old(li.carried[I[2]][1])
                loop_form = li
        if J is None:
            rep.fn(pre + "H3-down-rec", w.entry, f"go_down continues at the chosen child  [{pol}]", False,
                   "neither a recursive descent nor a position-carrying loop: the sift-down stops after one level")
            continue
        okJ = J[0] == "sel" and sel_leaves(J) == {first[1], second[1], I}
        rep.fn(pre + "H3-down-choice", w.entry, f"the walk continues at the better of (i, left, right)  [{pol}]", okJ,
               f"the position the walk continues at is '{show(J)[:120]}'")
        neq = ("cmp", "!=", *sorted([I, J], key=repr))
        st = [e for e in w.events if e.kind == "store" and e.target[0] == "idx" and e.target[1] == P]
        if hole is not None:
            st = [e for e in st if e.loops]  # (the placement after the loop has its own rule)
        if rec is not None:
            rep.ev(pre + "H3-down-rec", rec, has_guard(rec.guards, neq),
                   "descent must continue at the chosen child only when it differs from i")
        else:
            init = loop_form.carried[I[2]][0]
            rep.fn(pre + "H3-down-rec", w.entry, f"the loop starts at the given position and stops when nothing moves  [{pol}]",
                   init == ("param", w.entry.params[1]) and all(has_guard(e.guards, neq) for e in st),
                   "the descent loop must start at i and exchange only while the chosen child differs from i")
        if hole is not None:
            shifts, final, Ih, lh = hole
            start = ("param", w.entry.params[1])
            sh = {(deep_strip(e.target[2]), deep_strip(e.value)) for e in st}
            good = sh == {(deep_strip(I), ("idx", P, deep_strip(J)))} and all(has_guard(e.guards, neq) for e in st)
            rep.fn(pre + "H3-down-swap", w.entry, f"the chosen child is shifted into the hole: p[i] = p[j] when j != i  [{pol}]", good,
                   "the loop body must move exactly the chosen child into position i")
            fin_ok = len(final) == 1 and strip_old(final[0].target[2]) == Ih and deep_strip(final[0].value) == ("idx", P, start) \
                and final[0].seq > lh.last_seq and all(
                    f in (("cmp", "!=", *sorted([Ih, start], key=repr)),) or f in facts(lh.guards) for f in facts(final[0].guards))
            rep.fn(pre + "H3-down-place", w.entry, f"the held element is stored at the final position after the loop  [{pol}]", fin_ok,
                   "after the shifts the element taken from the start position must be written to p[i] (i = where the loop "
                   "stopped), unconditionally or when i moved")
            continue
        sw = {(strip_old(e.target[2]), strip_old(e.value)) for e in st}
        good = sw == {(J, ("idx", P, I)), (I, ("idx", P, J))} and all(has_guard(e.guards, neq) for e in st)
        rep.fn(pre + "H3-down-swap", w.entry, f"p[j] and p[i] are exchanged when j != i  [{pol}]", good,
               "the sift-down does not exchange exactly p[chosen child] and p[i]")

    def plain_subscripts(stmt) -> bool:
        if not isinstance(stmt, ast.Assign) or len(stmt.targets) != 1 or not isinstance(stmt.targets[0], ast.Tuple):
            return False
        elts = stmt.targets[0].elts
        vals = stmt.value.elts if isinstance(stmt.value, ast.Tuple) else []
        return all(isinstance(t, ast.Subscript) and isinstance(t.slice, (ast.Name, ast.Constant)) for t in elts) \
            and all(isinstance(v, (ast.Name, ast.Constant)) for v in vals) and len(vals) == len(elts)

    def copies_only(t) -> bool:
        if not isinstance(t, tuple) or not t:
            return True
        if t[0] == "old":
            return True
        if t[0] == "idx" and t[1] == P:
            return False
        return all(copies_only(x) for x in t if isinstance(x, tuple))

    # ---- H2 inverse maintenance ----------------------------------------------------
    n_h2 = 0
    for name in ("go_up", "go_down", "insert", "remove"):
        w = W[name]
        stores = [e for e in w.events if e.kind == "store"]
        hk = HeapKinds(w)

        def npos(t: Term) -> Term:
            """A local that holds a *position* keeps its value when p[] is written."""
            if t[0] == "old" and hk.kind(t[1]) in ("Pos", "PosLit"):
                return npos(t[1])
            if t[0] == "idx" and t[1] == P:
                return ("idx", P, npos(t[2]))
            return t

        for e in stores:
            if e.target[0] == "idx" and e.target[1] == P:
                a, v = npos(e.target[2]), e.value
                if v == ("const", -1):
                    continue
                n_h2 += 1
                match = [
                    f for f in stores
                    if f.seq > e.seq and f.guards == e.guards and f.loops == e.loops
                    and f.target[0] == "idx" and f.target[1] == POS and npos(f.value) == a
                    and (npos(f.target[2]) == ("idx", P, a)
                         # the element itself, held in a local: only when it is not spelt as a read of p[] (the same
                         # spelling read after the store denotes another element)
                         or (f.target[2] == v and not any(u[0] == "idx" and u[1] == P for u in subterms(v)))
                         or (f.target[2][0] == "old" and f.target[2][1] == strip_old(v))
                         # ... or the same local copy on every arm of a policy selection (each read of p[] is an old copy)
                         or (f.target[2] == v and copies_only(v))
                         # ... or one simultaneous assignment `p[i], pos[x] = x, i` whose subscripts are plain locals: x is
                         # the local's value on both sides, whatever p[] holds by then
                         or (f.target[2] == v and f.stmt is e.stmt and plain_subscripts(e.stmt)))
                ]
                rep.ev(pre + "H2", e, len(match) >= 1,
                       f"p[{show(a)}] is written but pos[...] of the element placed there is not set to {show(a)}")
                if match:
                    from .ir import write_summaries
                    ws = write_summaries(repo)
                    between = [c for c in w.events if e.seq < c.seq < match[0].seq and c.kind == "call"
                               and c.target is not None and c.target[0] == "attr" and c.target[1] == SELF
                               and ({"p", "pos"} & ws.get(c.target[2], set()))]
                    rep.ev(pre + "H2-atomic", e, not between,
                           "" if not between else f"{between[0].text()} runs between the store into p[] and the "
                           "matching pos[] update: the sift works on (and is then overwritten by) a stale position map")
    if n_h2 < 6:
        raise AnalysisError(f"Heap: only {n_h2} stores to p[] found (expected at least 6)")

    # ---- H5 colour typestate ----------------------------------------------------------
    for name, w in W.items():
        for e in w.events:
            if e.kind == "store" and e.target[0] == "idx" and e.target[1] == COLOR:
                v = e.value
                ok = (name == "insert" and v == K("GRAY")) or (name == "remove" and v == K("BLACK"))
                rep.ev(pre + "H5-write", e, ok, "GRAY is written only by insert, BLACK only by remove")
    w = W["insert"]
    pin = ("param", w.entry.params[1])
    rep.fn(pre + "H5-insert", w.entry, "insert marks the element GRAY",
           any(e.kind == "store" and e.target == ("idx", COLOR, pin) and e.value == K("GRAY") for e in w.events),
           "insert(p) must set color[p] = GRAY")
    w = W["remove"]
    first_p0 = min([e.seq for e in w.events if e.kind == "store" and e.target == ("idx", P, ("const", 0))] or [10 ** 9])

    def removed(t: Term, seq: int) -> bool:
        if t == ("idx", P, ("const", 0)):
            return seq < first_p0
        return t[0] == "old" and t[1] == ("idx", P, ("const", 0))

    rep.fn(pre + "H5-remove", w.entry, "remove marks the removed element BLACK",
           any(e.kind == "store" and e.target[0] == "idx" and e.target[1] == COLOR and removed(e.target[2], e.seq)
               and e.value == K("BLACK") for e in w.events),
           "remove() must set color[removed element] = BLACK")
    def own(w0, guards):
        """Guards minus argument validation: a test whose other arm leaves the function at once (raise / `return False` /
        bare return) and that reads nothing but the arguments, the capacity and the colour of the argument."""
        exits = [x for x in w0.events if x.kind == "raise" or (x.kind == "return" and x.fn is w0.entry
                                                               and x.value in (("const", False), ("const", None)))]
        prm = {("param", q) for q in w0.entry.params}

        def arg_only(t):
            for u in subterms(t):
                if u[0] in ("attr",) and u not in (SIZE, COLOR, ("attr", SELF, "size"), ("attr", SELF, "color")) and u[1] == SELF:
                    return False
                if u[0] == "idx" and u[1] in (P, POS, COST):
                    return False
                if u[0] == "call":
                    return False
            return any(u in prm for u in subterms(t))
        return tuple((g, pol) for g, pol in guards
                     if not (arg_only(g) and any(x.guards and x.guards[-1] == (g, not pol) for x in exits)))

    w = W["update"]
    for e in w.events:
        if e.kind == "call" and e.name in ("insert", "remove", "go_up", "go_down") and e.target == ("attr", SELF, e.name):
            callee = repo.method("Heap", e.name)
            from .ir import api_signature
            known = api_signature(callee) if callee is not None else None
            n_known = len([x for x in (known or []) if x != "self"])
            if known is not None and (len(e.args) > n_known or any(k not in known for k, _ in (e.kwargs or ()))):
                raise AnalysisError(f"Heap.update: `{e.text()[:50]}` passes an argument the documented {e.name}() does not have; what "
                                    "the extended call does with it is new behaviour the queue rules cannot follow - outside the analysable fragment")
    pup, cup = ("param", w.entry.params[1]), ("param", w.entry.params[2])
    cs = [e for e in w.events if e.kind == "store" and e.target == ("idx", COST, pup) and e.value == cup
          and not own(w, e.guards)]
    rep.fn(pre + "H5-update-cost", w.entry, "update stores the new cost unconditionally", len(cs) == 1,
           "update(p, cost) must set cost[p] = cost")
    white = ("cmp", "==", *sorted([K("WHITE"), ("idx", COLOR, pup)], key=repr))
    ins = [e for e in w.events if e.kind == "call" and e.name == "insert" and e.args == (pup,)
           and has_guard(e.guards, white)]
    up = [e for e in w.events if e.kind == "call" and e.name == "go_up" and e.args == (("idx", POS, pup),)
          and has_guard(e.guards, mk_not(white))]
    rep.fn(pre + "H5-update-white", w.entry, "update inserts elements that were never queued", len(ins) == 1,
           "a WHITE element must be inserted by update")
    def colour_fact(f):
        return f[0] == "cmp" and f[1] in ("==", "!=") and ("idx", COLOR, pup) in (f[2], f[3]) and \
            any(x[0] == "K" and x[1] in ("WHITE", "GRAY", "BLACK") for x in (f[2], f[3]))

    # a policy-aware direction: `update` may send a queued element whose key got WORSE down instead of up - then, per
    # policy, go_down must be taken exactly when the new cost is worse than the one it replaces, go_up otherwise
    direction = {}
    downs = [e for e in w.events if e.kind == "call" and e.name == "go_down" and e.args == (("idx", POS, pup),)]
    if downs:
        helper_u = lambda f: f.cls == "Heap" and f.name.startswith("_") and not f.name.startswith("__")
        for pol in ("min", "max"):
            wu = Walker(repo, repo.need_method("Heap", "update"), self_class="Heap", inline=helper_u,
                        subst={POLICY: ("const", pol), **nil_subst(repo)})
            prev = ("idx", COST, pup)
            worse = ("cmp", "<", prev, cup) if pol == "min" else ("cmp", "<", cup, prev)
            du = [x for x in wu.events if x.kind == "call" and x.name == "go_down" and x.args == (("idx", POS, pup),)]
            uu = [x for x in wu.events if x.kind == "call" and x.name == "go_up" and x.args == (("idx", POS, pup),)]
            fd = [{deep_strip(f) for f in facts(own(wu, x.guards)) if not colour_fact(f)} for x in du]
            fu = [{deep_strip(f) for f in facts(own(wu, x.guards)) if not colour_fact(f)} for x in uu]
            okd = len(du) == 1 and len(uu) == 1 and fd[0] == {worse} and fu[0] == {mk_not(worse)}
            direction[pol] = okd
            rep.fn(pre + "H5-update-direction", wu.entry, f"update sifts down exactly when the new key is worse  [{pol}]", okd,
                   "the direction of the sift after an update must follow the policy: down when the new cost is worse than the "
                   "old one (larger for min, smaller for max), up otherwise")
    for e in up:
        extra = [f for f in facts(own(w, e.guards)) if not colour_fact(f)]
        if direction and all(direction.values()):
            extra = []  # decided per policy above
        # (`if pos > 0: go_up(pos)` is go_up(pos): the sift loop runs while the position is > 0)
        extra = [f for f in extra if f not in (("cmp", "<", ("const", 0), e.args[0]), ("cmp", "<=", ("const", 1), e.args[0]),
                                                ("cmp", "!=", *sorted([("const", 0), e.args[0]], key=repr)))]
        # (`if pos >= 0: go_up(pos)`: a removed element has position -1 and go_up(-1) does nothing - its loop needs i > 0)
        from .ir import not_nil_forms as _nnf
        extra = [f for f in extra if f not in _nnf(e.args[0])]
        rep.ev(pre + "H5-update-sift-guard", e, not extra,
               "" if not extra else f"the sift-up of a queued element is conditional on '{show(extra[0])[:80]}': whether an improved "
               "key moves towards the root may depend only on the element's colour (a direction chosen by comparing costs must "
               "follow the policy: under the other policy the improved element is not lifted)")
    rep.fn(pre + "H5-update-sift", w.entry, "update sifts a queued element up from its position", len(up) == 1,
           "a queued element must be sifted up from pos[p] after its cost improved")
    if cs and (ins or up):
        after = all(c.seq < e.seq for c in cs for e in ins + up)
        rep.fn(pre + "H5-update-order", w.entry, "cost is stored before the element moves", after,
               "the sift/insert must see the new cost")
    init = W["__init__"]
    cinit = [e for e in init.events if e.kind == "store" and e.target == COLOR]
    size_st = [e for e in init.events if e.kind == "store" and e.target == ("attr", SELF, "size")]

    def filled(v, n, seq=0):
        """(element value, length term ok?) for `[val for _ in range(n)]` and `[val] * n` / `n * [val]`; the capacity may
        be read back from `self.size` once the argument has been stored there."""
        ns = [n]
        if len(size_st) == 1 and size_st[0].value == n and not size_st[0].guards and size_st[0].seq < seq:
            ns.append(("attr", SELF, "size"))
        if v[0] == "listcomp" and len(v[2]) == 1 and not v[2][0][2]:
            return v[1], v[2][0][0] in [("call", ("builtin", "range"), (x,), ()) for x in ns]
        if v[0] == "bin" and v[1] == "*":
            for lst, k in ((v[2], v[3]), (v[3], v[2])):
                if lst[0] == "alloc" and lst[1] == "list" and len(lst[2]) == 1 and lst[2][0][0] != "star":
                    return lst[2][0], k in ns
        return None, False

    okw = len(cinit) == 1 and filled(cinit[0].value, ("param", init.entry.params[1]), cinit[0].seq)[0] == K("WHITE")
    rep.fn(pre + "H5-init", init.entry, "every element starts WHITE", okw, "color must be initialised to WHITE")
    sized = ("call", ("builtin", "range"), (("param", init.entry.params[1]),), ())
    for fld, val in (("cost", K("FLOAT_MAX")), ("color", K("WHITE")), ("p", ("const", -1)), ("pos", ("const", -1))):
        st = [e for e in init.events if e.kind == "store" and e.target == ("attr", SELF, fld)]
        ok = len(st) == 1 and filled(st[0].value, ("param", init.entry.params[1]), st[0].seq) == (val, True)
        rep.fn(pre + "H-init", init.entry, f"{fld}[] has one slot per element (capacity `size`) initialised to {show(val)}", ok,
               f"{fld} is initialised as '{show(st[0].value) if st else '?'}' over '{show(st[0].value[2][0][0]) if st and st[0].value[0] == 'listcomp' else '?'}'")

    for fld, want, txt in (("last", ("const", -1), "-1 (empty)"), ("size", ("param", init.entry.params[1]), "the capacity argument"),
                           ("policy", ("param", init.entry.params[2]) if len(init.entry.params) > 2 else None, "the policy argument")):
        st = [e for e in init.events if e.kind == "store" and e.target == ("attr", SELF, fld)]
        rep.fn(pre + "H-init", init.entry, f"{fld} starts as {txt}", len(st) == 1 and st[0].value == want and not st[0].guards,
               f"{fld} is initialised as '{show(st[0].value) if st else 'nothing'}'")

    # ---- H6 capacity ------------------------------------------------------------------
    def ret_cond(w: Walker) -> Optional[Term]:
        rets = [e for e in w.events if e.kind == "return" and e.fn is w.entry]
        if len(rets) == 1 and not rets[0].guards:
            return rets[0].value
        true_r = [e for e in rets if e.value == ("const", True)]
        false_r = [e for e in rets if e.value == ("const", False)]
        if len(true_r) == 1 and len(false_r) == 1 and len(true_r[0].guards) == 1:
            g, pol = true_r[0].guards[0]
            if facts(false_r[0].guards) == (mk_not(g if pol else mk_not(g)),):
                return g if pol else mk_not(g)
        return None

    full = ret_cond(W["is_full"])
    okf = False
    if full is not None and full[0] == "cmp" and full[1] in ("==", "<="):
        a, b = full[2], full[3]
        if full[1] == "==":
            okf = lin_eq(_sub(lin(a), lin(b)), {LAST: 1, SIZE: -1, 1: 1}) or lin_eq(_sub(lin(b), lin(a)), {LAST: 1, SIZE: -1, 1: 1})
        else:  # size - 1 <= last
            okf = lin_eq(_sub(lin(b), lin(a)), {LAST: 1, SIZE: -1, 1: 1})
    rep.fn(pre + "H6-full", W["is_full"].entry, "is_full() <=> last == size - 1", okf,
           f"fullness predicate is '{show(full) if full else '?'}'")
    emp = ret_cond(W["is_empty"])
    oke = emp in (("cmp", "==", *sorted([LAST, ("const", -1)], key=repr)), ("cmp", "<", LAST, ("const", 0)),
                  ("cmp", "<=", LAST, ("const", -1)))
    if not oke and emp is not None and emp[0] == "cmp" and emp[1] == "==":
        # last + 1 == 0 (the number of queued elements is 0)
        d = _sub(lin(emp[2]), lin(emp[3]))
        oke = lin_eq(d, {LAST: 1, 1: 1}) or lin_eq(d, {LAST: -1, 1: -1})
    rep.fn(pre + "H6-empty", W["is_empty"].entry, "is_empty() <=> last == -1", oke,
           f"emptiness predicate is '{show(emp) if emp else '?'}'")

    for name, test, delta in (("insert", "is_full", "+"), ("remove", "is_empty", "-")):
        w = W[name]
        guard = ("not", ("call", ("attr", SELF, test), (), ()))
        # the same test written out (`if self.last == self.size - 1:`) when the predicate itself has the right form
        pred, pred_ok = (full, okf) if test == "is_full" else (emp, oke)
        if pred_ok and pred is not None and not any(has_guard(e.guards, guard) or has_guard(e.guards, mk_not(guard))
                                                    for e in w.events):
            guard = mk_not(pred)
        eff = [e for e in w.events if e.kind == "store" or (e.kind == "call" and e.name in ("go_up", "go_down"))]
        unguarded = [e for e in eff if not has_guard(e.guards, guard)]
        rep.fn(pre + "H6-guard", w.entry, f"{name} changes state only when not {test}()", not unguarded and bool(eff),
               f"{len(unguarded)} effect(s) outside the capacity guard: "
               + "; ".join(e.text() for e in unguarded[:3]))
        lst0 = [x for x in w.events if x.kind == "store" and x.target == LAST]

        def new_last(t):
            """`self.last` as read after the store, or a local that holds the very value stored into it."""
            if t == LAST:
                return True
            return len(lst0) == 1 and not lst0[0].aug and strip_old(t) == strip_old(lst0[0].value)
        for e in eff:
            extra = [f for f in facts(own(w, e.guards)) if f != guard]
            allowed = e.kind == "call" and e.name == "go_down" and all(
                f[0] == "cmp" and ((f[1] == "<" and f[2] == ("const", 0) and new_last(f[3]))
                                   or (f[1] == "<=" and f[2] == ("const", 1) and new_last(f[3]))) for f in extra) \
                and (not lst0 or e.seq > lst0[0].seq)
            # go_up(i) does nothing for i == 0 (H3-up: the loop runs while i > 0): `if i > 0: go_up(i)` is go_up(i)
            allowed = allowed or (e.kind == "call" and e.name == "go_up" and len(e.args) == 1 and all(
                f in (("cmp", "<", ("const", 0), e.args[0]), ("cmp", "<=", ("const", 1), e.args[0]),
                      ("cmp", "!=", *sorted([("const", 0), e.args[0]], key=repr))) for f in extra))
            rep.ev(pre + "H6-exact-guard", e, not extra or allowed,
                   "" if not extra or allowed else f"{name} performs this step only when '{show(extra[0])[:80]}': on the other "
                   "inputs the heap is left in an inconsistent / unsifted state")
        fails = [e for e in w.events if e.kind == "return" and e.fn is w.entry and has_guard(e.guards, mk_not(guard))]
        okr = len(fails) == 1 and fails[0].value in (("const", False), ("const", None), ("const", 0))
        rep.fn(pre + "H6-fail", w.entry, f"{name} reports failure when {test}()", okr,
               "the failing path must return a falsy value and nothing else")
        lasts = [e for e in w.events if e.kind == "store" and e.target == LAST]
        okl = len(lasts) == 1 and lasts[0].aug == delta and lasts[0].value == ("const", 1)
        if len(lasts) == 1 and not lasts[0].aug:
            # `slot = self.last + 1; self.last = slot` / `tail = self.last; ...; self.last = tail - 1`
            from .schema import rewrite
            v = rewrite(lasts[0].value, lambda t: t[1] if t[0] == "old" and t[1] == LAST else None)
            okl = lin_eq(_sub(lin(v), lin(LAST)), {1: 1 if delta == "+" else -1})
        rep.fn(pre + "H6-last", w.entry, f"last changes by {delta}1 exactly once", okl,
               f"found {[e.text() for e in lasts]}")
        if not okl:
            continue
        ls = lasts[0].seq
        if name == "insert":
            # the new last position: `self.last` read after the store, or the very value that was stored into it
            def is_newlast(x, seq):
                if x == LAST:
                    return seq > ls
                return not lasts[0].aug and x[0] == "old" and x[1] == lasts[0].value and seq > ls  # a local holding last + 1

            place = [e for e in w.events if e.kind == "store" and e.target[0] == "idx" and e.target[1] == P
                     and is_newlast(e.target[2], e.seq) and e.value == pin]
            okp = len(place) == 1
            rep.fn(pre + "H6-place", w.entry, "the new element is placed at the new last position", okp,
                   "p[last] = p must follow last += 1")
            sift = [e for e in w.events if e.kind == "call" and e.name == "go_up" and len(e.args) == 1
                    and is_newlast(e.args[0], e.seq)]
            rep.fn(pre + "H6-sift", w.entry, "the new element is sifted up from last",
                   len(sift) == 1 and sift[0].seq > ls and (not place or sift[0].seq > place[0].seq),
                   "go_up(last) must follow the placement")
            rt = [e for e in w.events if e.kind == "return" and e.fn is w.entry and has_guard(e.guards, guard)]
            rep.fn(pre + "H6-ok", w.entry, "insert reports success", len(rt) == 1 and rt[0].value == ("const", True),
                   "the successful path must return True")
        else:
            mv = [e for e in w.events if e.kind == "store" and e.target == ("idx", P, ("const", 0))
                  and strip_old(e.value) == ("idx", P, LAST)]
            okm = len(mv) == 1 and mv[0].seq < ls
            rep.fn(pre + "H6-move", w.entry, "the last element moves to the root before last shrinks", okm,
                   "p[0] = p[last] must precede last -= 1")
            clr = [e for e in w.events if e.kind == "store" and e.target == ("idx", P, LAST) and e.value == ("const", -1)]
            rep.fn(pre + "H6-clear", w.entry, "the vacated slot is cleared",
                   len(clr) == 1 and clr[0].seq < ls and (not mv or clr[0].seq > mv[0].seq),
                   "p[last] = -1 must sit between the move and last -= 1")
            sift = [e for e in w.events if e.kind == "call" and e.name == "go_down" and e.args == (("const", 0),)]
            rep.fn(pre + "H6-sift", w.entry, "the root is sifted down after the heap shrank",
                   len(sift) == 1 and sift[0].seq > ls, "go_down(0) must follow last -= 1")
            rt = [e for e in w.events if e.kind == "return" and e.fn is w.entry and has_guard(e.guards, guard)]
            okr = len(rt) >= 1 and all(removed(r.value, r.seq) for r in rt)  # (an early `return p` when no sift is needed)
            rep.fn(pre + "H6-ok", w.entry, "remove returns the element that was at the root", okr,
                   f"returns '{show(rt[0].value) if rt else '?'}'")
            pr = [e for e in w.events if e.kind == "store" and e.target[0] == "idx" and e.target[1] == POS
                  and removed(e.target[2], e.seq) and e.value == ("const", -1)]
            rep.fn(pre + "H6-pos", w.entry, "the removed element loses its position", len(pr) == 1,
                   "pos[removed] = -1 expected")

    # ---- H7 kinds inside the heap -------------------------------------------------------
    n7 = 0
    for name in ("go_up", "go_down", "insert", "remove", "update"):
        w = W[name]
        hk = HeapKinds(w)
        seen = set()
        for e in w.events:
            tops = [x for x in (e.target, e.value) if x is not None] + list(e.args) + [g for g, _ in e.guards]
            for top in tops:
                for t in subterms(top):
                    if t[0] != "idx" or t in seen:
                        continue
                    seen.add(t)
                    base, ix = t[1], t[2]
                    if base in (COST, COLOR, POS):
                        k = hk.kind(ix)
                        n7 += 1
                        ok = k in (None, "Elem")
                        rep.ev(pre + "H7", e, ok,
                               f"'{show(t)}': {base[2]}[] is indexed by an element, but '{show(ix)}' is a heap position",
                               construct=show(t) if ok else e.text())
                    elif base == P:
                        k = hk.kind(ix)
                        n7 += 1
                        ok = k in (None, "Pos", "PosLit")
                        rep.ev(pre + "H7", e, ok,
                               f"'{show(t)}': p[] is indexed by a heap position, but '{show(ix)}' is an element",
                               construct=show(t) if ok else e.text())
    if n7 < 20:
        raise AnalysisError(f"Heap: only {n7} indexed accesses found")


def _sub(a, b):
    if a is None or b is None:
        return None
    out = dict(a)
    for k, v in b.items():
        out[k] = out.get(k, 0) - v
    return out
