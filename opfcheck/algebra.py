"""E5: expression algebra for the 47 metrics.

Metric bodies (straight-line NumPy arithmetic; one element loop in `hassanat`) are translated
from their AST into sympy expressions over element symbols x, y (the generic i-th components),
the symbolic length n, and the reductions S (sum), MX (max), CNZ (count of non-zeros).
Two views:
  * normal form in real arithmetic (linearity of S, expand/together/log expansion on positive
    arguments) -> equality with the reference closed form, swap-invariance, y := x substitution;
  * IEEE-sound sign domain for definedness obligations (operand of sqrt / log, divisors).
Nothing is evaluated numerically.
"""

from __future__ import annotations

import ast
import copy
import importlib.util
import os
from dataclasses import dataclass, field
from typing import Dict, List, Optional, Tuple

import sympy as sp

from .core import VERIF, AnalysisError, FunctionInfo, Repo, unparse

S = sp.Function("S")
MX = sp.Function("MX")
CNZ = sp.Function("CNZ")

DIST_MOD = "opfython.math.distance"


def load_spec():
    path = os.path.join(VERIF, "spec", "metrics_reference.py")
    spec = importlib.util.spec_from_file_location("metrics_reference", path)
    mod = importlib.util.module_from_spec(spec)
    spec.loader.exec_module(mod)
    return mod


class MetricViolation(Exception):
    """The body uses an operator that cannot be part of any of the published closed forms
    (tolerance comparison, rounding, clipping, ...): a violation, not an analysis error."""


# operators whose real-arithmetic meaning is fine but whose floating-point range is not that of the closed form:
# a product of n factors overflows / underflows for long vectors where the sum of the logarithms does not
OVERFLOWING = {"np.prod", "np.product", "np.cumprod", "math.prod", "np.multiply.reduce"}

LOSSY = {"np.isclose", "np.allclose", "np.round", "np.around", "np.rint", "np.floor", "np.ceil", "np.trunc", "np.fix",
         "np.clip", "np.sign", "round", "math.floor", "math.ceil", "math.trunc", "math.isclose", "np.nan_to_num",
         "np.float32", "np.float16", "np.int32", "np.int64", "int"}


class Ops:
    """Symbols and operators for one domain."""

    def __init__(self, domain: str):
        self.domain = domain
        if domain == "P":
            kw = dict(positive=True)
        elif domain == "R+":
            kw = dict(nonnegative=True)
        else:
            kw = dict(real=True)
        self.X = sp.Symbol("x", **kw)
        self.Y = sp.Symbol("y", **kw)
        self.n = sp.Symbol("n", positive=True, integer=True)
        self.K = sp.Symbol("K", positive=True)
        self.S, self.MX, self.CNZ = S, MX, CNZ
        self.sqrt = sp.sqrt
        self.ln = sp.log
        self.exp = sp.exp
        self.absv = sp.Abs
        self.mn = sp.Min
        self.mx = sp.Max

    def ne(self, a, b):
        return sp.Ne(a, b)

    def ge(self, a, b):
        return sp.Ge(a, b)

    def piecewise(self, a, cond, b):
        return sp.Piecewise((a, cond), (b, True))


@dataclass
class Obligation:
    kind: str  # sqrt | log | div
    expr: object
    src: str
    line: int
    assume: tuple = ()  # path conditions (sympy relations) under which the operation is evaluated


@dataclass
class Translated:
    name: str
    expr: object
    obligations: List[Obligation]
    decorated: bool
    njit: bool
    fi: FunctionInfo
    kind: str = "scalar"


class MetricTranslator:
    def __init__(self, repo: Repo):
        self.repo = repo
        self.mi = repo.module(DIST_MOD)
        self.consts = repo.constants

    # -- registry -----------------------------------------------------------------
    def registry(self) -> Dict[str, str]:
        for node in self.mi.tree.body:
            if isinstance(node, ast.Assign) and len(node.targets) == 1 and isinstance(node.targets[0], ast.Name) \
                    and node.targets[0].id == "DISTANCES":
                if not isinstance(node.value, ast.Dict):
                    raise AnalysisError("DISTANCES is not a dict literal")
                out = {}
                for k, v in zip(node.value.keys, node.value.values):
                    if not (isinstance(k, ast.Constant) and isinstance(k.value, str)):
                        raise AnalysisError("DISTANCES key is not a string literal")
                    if k.value in out:
                        raise AnalysisError(f"DISTANCES has a duplicate key {k.value!r}")
                    out[k.value] = unparse(v)
                # later module-level additions (`DISTANCES.update({...})`, `DISTANCES["k"] = f`, `DISTANCES |= {...}`) are
                # part of the registry the models see
                for later in self.mi.tree.body:
                    if later is node or getattr(later, "lineno", 0) < node.lineno:
                        continue
                    adds = None
                    if isinstance(later, ast.Expr) and isinstance(later.value, ast.Call) and isinstance(later.value.func, ast.Attribute) \
                            and isinstance(later.value.func.value, ast.Name) and later.value.func.value.id == "DISTANCES":
                        meth = later.value.func.attr
                        if meth == "update" and len(later.value.args) == 1 and isinstance(later.value.args[0], ast.Dict) \
                                and not later.value.keywords:
                            adds = list(zip(later.value.args[0].keys, later.value.args[0].values))
                        elif meth == "update" and len(later.value.args) == 1 and isinstance(later.value.args[0], ast.DictComp) \
                                and not later.value.keywords:
                            # `DISTANCES.update({alias: DISTANCES[name] for alias, name in ALIASES.items()})` with ALIASES a
                            # module-level literal {str: str}: every alias gets the function registered under its name - also
                            # when the alias IS a registered name (then that entry is replaced)
                            dc = later.value.args[0]
                            g = dc.generators[0] if len(dc.generators) == 1 else None
                            tab = None
                            if g is not None and not g.ifs and isinstance(g.target, ast.Tuple) and len(g.target.elts) == 2 \
                                    and all(isinstance(x, ast.Name) for x in g.target.elts) and isinstance(g.iter, ast.Call) \
                                    and isinstance(g.iter.func, ast.Attribute) and g.iter.func.attr == "items" and isinstance(g.iter.func.value, ast.Name):
                                a_n, n_n = g.target.elts[0].id, g.target.elts[1].id
                                if unparse(dc.key) == a_n and unparse(dc.value) == f"DISTANCES[{n_n}]":
                                    tb = [x for x in self.mi.tree.body if isinstance(x, ast.Assign) and any(
                                        isinstance(t, ast.Name) and t.id == g.iter.func.value.id for t in x.targets)]
                                    if len(tb) == 1 and isinstance(tb[0].value, ast.Dict) and all(
                                            isinstance(k, ast.Constant) and isinstance(k.value, str) and isinstance(v, ast.Constant)
                                            and isinstance(v.value, str) for k, v in zip(tb[0].value.keys, tb[0].value.values)):
                                        tab = [(k.value, v.value) for k, v in zip(tb[0].value.keys, tb[0].value.values)]
                            if tab is None:
                                raise AnalysisError("DISTANCES.update(<comprehension>) at module level: the registry cannot be read statically")
                            for alias, nm in tab:
                                if nm not in out:
                                    raise AnalysisError(f"DISTANCES alias {alias!r} names {nm!r}, which is not registered at that point")
                            snapshot = dict(out)
                            adds = []
                            for alias, nm in tab:
                                out[alias] = snapshot[nm]
                            self.registry_aliases = getattr(self, "registry_aliases", set()) | {a for a, _ in tab if a not in snapshot}
                        elif meth == "update" and not later.value.args:
                            adds = [(ast.Constant(k.arg), k.value) for k in later.value.keywords]
                        else:
                            raise AnalysisError(f"DISTANCES.{meth}(...) at module level: the registry cannot be read statically")
                    elif isinstance(later, ast.Assign) and len(later.targets) == 1 and isinstance(later.targets[0], ast.Subscript) \
                            and isinstance(later.targets[0].value, ast.Name) and later.targets[0].value.id == "DISTANCES":
                        adds = [(later.targets[0].slice, later.value)]
                    elif isinstance(later, ast.AugAssign) and isinstance(later.target, ast.Name) and later.target.id == "DISTANCES" \
                            and isinstance(later.value, ast.Dict):
                        adds = list(zip(later.value.keys, later.value.values))
                    elif isinstance(later, ast.Assign) and any(isinstance(t, ast.Name) and t.id == "DISTANCES" for t in later.targets):
                        # `DISTANCES = Wrapper(DISTANCES)`: the registry the models index is the wrapper; it must hand back the
                        # very functions it was given
                        try:
                            self._check_registry_wrapper(later)
                        except MetricViolation as exc:
                            self.registry_problems = getattr(self, "registry_problems", []) + [str(exc)]
                    for k, v in adds or []:
                        if not (isinstance(k, ast.Constant) and isinstance(k.value, str)):
                            raise AnalysisError("an identifier added to DISTANCES is not a string literal")
                        out[k.value] = unparse(v)
                # second names for registered metrics (an extension of the documented table: the models' whitelist does not
                # accept them) are not identifiers of their own; an "alias" that IS a documented identifier replaced that entry
                # and stays in the table with what it now points to
                for a in getattr(self, "registry_aliases", ()):
                    out.pop(a, None)
                return out
        raise AnalysisError("DISTANCES registry not found")

    def _check_registry_wrapper(self, node: ast.Assign) -> None:
        v = node.value
        ok = isinstance(v, ast.Call) and isinstance(v.func, ast.Name) and len(v.args) == 1 and not v.keywords \
            and isinstance(v.args[0], ast.Name) and v.args[0].id == "DISTANCES" and v.func.id in self.mi.classes
        if not ok:
            raise AnalysisError(f"DISTANCES is rebound at module level (line {node.lineno}) to something the registry rules cannot read")
        ci = self.mi.classes[v.func.id]
        get = ci.methods.get("__getitem__")
        init = ci.methods.get("__init__")
        if get is None or init is None or len(get.params) != 2:
            raise AnalysisError(f"registry wrapper {ci.name}: __init__ / __getitem__ not found")
        body = [st for st in get.node.body if not (isinstance(st, ast.Expr) and isinstance(st.value, ast.Constant))]
        field = None
        if len(body) == 1 and isinstance(body[0], ast.Return) and isinstance(body[0].value, ast.Subscript):
            sub = body[0].value
            if isinstance(sub.value, ast.Attribute) and isinstance(sub.value.value, ast.Name) and sub.value.value.id == "self" \
                    and isinstance(sub.slice, ast.Name) and sub.slice.id == get.params[1]:
                field = sub.value.attr
        if field is None:
            raise MetricViolation(f"{ci.name}.__getitem__:{get.node.lineno}: the registry wrapper does not hand back the stored "
                                  f"function itself ('{unparse(body[-1])[:80] if body else '?'}'): DISTANCES[name] is no longer the "
                                  "registered (decorated) metric")
        # __init__ may only copy the entries it was given into that field
        for n in ast.walk(init.node):
            if isinstance(n, ast.Assign):
                for t in n.targets:
                    if isinstance(t, ast.Subscript) and isinstance(t.value, ast.Attribute) and t.value.attr == field:
                        src_ok = isinstance(n.value, ast.Name)
                        loops = [f for f in ast.walk(init.node) if isinstance(f, ast.For) and any(x is n for x in ast.walk(f))]
                        src_ok = src_ok and bool(loops) and isinstance(loops[-1].target, ast.Tuple) and len(loops[-1].target.elts) == 2 \
                            and all(isinstance(x, ast.Name) for x in loops[-1].target.elts) \
                            and loops[-1].target.elts[1].id == n.value.id and isinstance(t.slice, ast.Name) \
                            and t.slice.id == loops[-1].target.elts[0].id and isinstance(loops[-1].iter, ast.Call) \
                            and isinstance(loops[-1].iter.func, ast.Attribute) and loops[-1].iter.func.attr == "items"
                        if not src_ok:
                            raise MetricViolation(f"{ci.name}.__init__:{n.lineno}: the registry wrapper stores "
                                                  f"'{unparse(n.value)[:60]}' instead of the function it was given")

    def decorated(self, fi: FunctionInfo) -> bool:
        return any(d.split("(")[0].endswith("avoid_zero_division") for d in fi.decorators)

    def is_njit(self, fi: FunctionInfo) -> bool:
        return any(d.split("(")[0].split(".")[-1] in ("njit", "jit") for d in fi.decorators)

    # -- translation --------------------------------------------------------------------
    def translate(self, fname: str, ops: Ops, depth: int = 0, args=None) -> Translated:
        """args: the (kind, expr) values of the parameters; None = the registry call f(x, y)."""
        foreign = None
        if isinstance(fname, FunctionInfo):
            # a helper in another module of the package (`import opfython.math.kernels as k` ... `k.root(v)`)
            fi = fname
            fname = fi.name
            foreign = self.repo.module(fi.module)
        elif fname not in self.mi.functions:
            raise AnalysisError(f"metric function {fname} not found in distance.py")
        else:
            fi = self.mi.functions[fname]
        if foreign is not None and foreign is not self.mi:
            home, self.mi = self.mi, foreign
            try:
                return self.translate(fi if fi.name not in foreign.functions else fi.name, ops, depth, args)
            finally:
                self.mi = home
        params = fi.params
        env: Dict[str, Tuple[str, object]] = {}
        a = fi.node.args
        for p, d in zip(reversed(a.args), reversed(a.defaults)):
            if isinstance(d, ast.Constant) and isinstance(d.value, bool):
                env[p.arg] = ("bool", sp.true if d.value else sp.false)  # a flag with a default
            else:
                env[p.arg] = ("scalar", self._const(d))
        if args is None:
            if len(params) < 2:
                raise AnalysisError(f"{fname}: expected (x, y) parameters")
            env[params[0]] = ("vec", ops.X)
            env[params[1]] = ("vec", ops.Y)
        else:
            if len(args) > len(params):
                raise AnalysisError(f"{fname}: called with too many arguments")
            if self.decorated(fi):
                raise AnalysisError(f"{fname}: a shifted (decorated) metric is called from inside another metric")
            for p, v in zip(params, args):
                env[p] = v
            for kname, v in (getattr(self, "_pending_kwargs", None) or {}).items():
                if kname not in params:
                    raise AnalysisError(f"{fname}: unknown keyword argument {kname}")
                env[kname] = v
            self._pending_kwargs = None
        missing = [p for p in params if p not in env]
        if missing:
            raise AnalysisError(f"{fname}: parameters {missing} are not bound")
        obl: List[Obligation] = []
        ret = self._block(fi.node.body, env, ops, obl, fi, depth)
        if ret is None:
            raise AnalysisError(f"{fname}: no return value found")
        t = Translated(fname, ret[1], obl, self.decorated(fi), self.is_njit(fi), fi)
        t.kind = ret[0]
        return t

    def _helper_of(self, f: str):
        """The library function a call `f(...)` / `alias.f(...)` inside a metric names: one of the current module, or of
        another module of the package imported under `alias`."""
        if f in self.mi.functions:
            return f
        if "." in f:
            alias, _, name = f.rpartition(".")
            target = (getattr(self.mi, "imports", None) or {}).get(alias)
            if target and target.startswith("opfython") and target in self.repo.modules \
                    and name in self.repo.modules[target].functions and target != "opfython.utils.constants":
                return self.repo.modules[target].functions[name]
        return None

    def _const(self, node):
        if isinstance(node, ast.Constant) and isinstance(node.value, (int, float)):
            return sp.nsimplify(node.value)
        raise AnalysisError(f"unsupported default value {unparse(node)}")

    def _block(self, stmts, env, ops, obl, fi, depth):
        i = 0
        while i < len(stmts):
            s = stmts[i]
            if (isinstance(s, ast.Expr) and isinstance(s.value, ast.Constant)) or isinstance(s, ast.Pass):
                i += 1
                continue
            if isinstance(s, ast.Assign) and len(s.targets) == 1 and isinstance(s.targets[0], ast.Name):
                # element-loop form: dist = np.zeros(n); for i in range(n): dist[i] = E
                if self._is_zeros(s.value) and i + 1 < len(stmts):
                    j = i + 1
                    pre = []
                    while j < len(stmts) and isinstance(stmts[j], ast.Assign):
                        pre.append(stmts[j])
                        j += 1
                    if j < len(stmts) and isinstance(stmts[j], ast.For):
                        for ps in pre:
                            self._assign(ps, env, ops, obl, fi, depth)
                        env[s.targets[0].id] = ("vec", self._element_loop(stmts[j], s.targets[0].id, env, ops, obl, fi, depth))
                        i = j + 1
                        continue
                self._assign(s, env, ops, obl, fi, depth)
                i += 1
                continue
            if isinstance(s, ast.Assign) and len(s.targets) == 1 and isinstance(s.targets[0], ast.Tuple) \
                    and isinstance(s.value, ast.Tuple) and len(s.value.elts) == len(s.targets[0].elts) \
                    and all(isinstance(t, ast.Name) for t in s.targets[0].elts):
                vals = [self._expr(v, env, ops, obl, fi, depth) for v in s.value.elts]  # a, b = E1, E2
                for t, v in zip(s.targets[0].elts, vals):
                    env[t.id] = v
                i += 1
                continue
            if isinstance(s, ast.Return):
                return self._expr(s.value, env, ops, obl, fi, depth)
            if isinstance(s, ast.If) and len(s.body) == 1 and isinstance(s.body[0], ast.Return) and s.body[0].value is not None:
                # guard clause: `if c: return A` / rest  (and `else: return B`)  is the piecewise value
                kc, cond = self._expr(s.test, env, ops, obl, fi, depth)
                if kc != "bool":
                    raise AnalysisError(f"{fi.name}:{s.lineno}: guard clause on a non-scalar condition")
                if cond == sp.true:   # a flag fixed by the caller: only this arm exists
                    return self._expr(s.body[0].value, env, ops, obl, fi, depth)
                if cond == sp.false:
                    if s.orelse:
                        return self._block(list(s.orelse), dict(env), ops, obl, fi, depth)
                    i += 1
                    continue
                n0 = len(obl)
                ka, a = self._expr(s.body[0].value, env, ops, obl, fi, depth)
                for ob in obl[n0:]:
                    ob.assume += (cond,)
                n0 = len(obl)
                rest = self._block(list(s.orelse) if s.orelse else stmts[i + 1:], dict(env), ops, obl, fi, depth)
                if rest is None:
                    raise AnalysisError(f"{fi.name}:{s.lineno}: no value after the guard clause")
                for ob in obl[n0:]:
                    ob.assume += (sp.Not(cond),)
                return (rest[0], sp.Piecewise((a, cond), (rest[1], True)))
            if isinstance(s, ast.If) and not any(isinstance(n, (ast.Return, ast.For, ast.While)) for b in (s.body, s.orelse)
                                                for st in b for n in ast.walk(st)):
                # `if c: v = A else: v = B` on scalar values: a flag fixed by the caller picks the arm, otherwise v is piecewise
                kc, cond = self._expr(s.test, env, ops, obl, fi, depth)
                if kc != "bool":
                    raise AnalysisError(f"{fi.name}:{s.lineno}: `if` on a non-scalar condition")
                if cond in (sp.true, sp.false):
                    if self._block(s.body if cond == sp.true else s.orelse, env, ops, obl, fi, depth) is not None:
                        raise AnalysisError(f"{fi.name}:{s.lineno}: unexpected value")
                    i += 1
                    continue
                ea, eb = dict(env), dict(env)
                n0 = len(obl)
                self._block(s.body, ea, ops, obl, fi, depth)
                for ob in obl[n0:]:
                    ob.assume += (cond,)
                n0 = len(obl)
                self._block(s.orelse, eb, ops, obl, fi, depth)
                for ob in obl[n0:]:
                    ob.assume += (sp.Not(cond),)
                for name in list(dict.fromkeys(list(ea) + list(eb))):
                    va, vb = ea.get(name), eb.get(name)
                    if va == vb:
                        if va is not None:
                            env[name] = va
                        continue
                    if va is None or vb is None or va[0] != vb[0] or va[0] not in ("scalar", "vec"):
                        raise AnalysisError(f"{fi.name}:{s.lineno}: '{name}' is not assigned a value of one kind on both arms")
                    env[name] = (va[0], sp.Piecewise((va[1], cond), (vb[1], True)))
                i += 1
                continue
            # a metric that stores into one of its arguments changes the caller's vectors (and its own later results)
            params = set(fi.params)
            for st0 in fi.node.body:  # plain aliases of an argument (`dist = x`)
                if isinstance(st0, ast.Assign) and len(st0.targets) == 1 and isinstance(st0.targets[0], ast.Name) \
                        and isinstance(st0.value, ast.Name) and st0.value.id in params:
                    params.add(st0.targets[0].id)
            for x in ast.walk(s):
                tgts = []
                if isinstance(x, ast.Assign):
                    tgts = x.targets
                elif isinstance(x, ast.AugAssign):
                    tgts = [x.target]
                for t in tgts:
                    base = t
                    while isinstance(base, ast.Subscript):
                        base = base.value
                    if isinstance(t, ast.Subscript) and isinstance(base, ast.Name) and base.id in params:
                        raise MetricViolation(f"{fi.name}:{x.lineno}: '{unparse(x)[:60]}' stores into the argument "
                                              f"'{base.id}': the value of the metric is no longer a function of its arguments "
                                              "(the caller's vector is overwritten)")
            raise AnalysisError(f"{fi.name}:{s.lineno}: statement outside the metric whitelist: {unparse(s)[:80]}")
        return None

    def _assign(self, s, env, ops, obl, fi, depth):
        env[s.targets[0].id] = self._expr(s.value, env, ops, obl, fi, depth)

    def _is_zeros(self, node) -> bool:
        return isinstance(node, ast.Call) and unparse(node.func) in ("np.zeros", "numpy.zeros", "np.empty")

    def _element_loop(self, loop: ast.For, target: str, env, ops, obl, fi, depth):
        pre_bind = {}
        if isinstance(loop.iter, ast.Call) and unparse(loop.iter.func) == "enumerate" and len(loop.iter.args) == 1 \
                and not loop.iter.keywords and isinstance(loop.target, ast.Tuple) and len(loop.target.elts) == 2 \
                and isinstance(loop.target.elts[0], ast.Name):
            # `for i, v in enumerate(xs)` / `for i, (a, b) in enumerate(zip(xs, ys))` over whole vectors is the index loop
            # over range(n) with v = xs[i] (element-wise values)
            src, tgt = loop.iter.args[0], loop.target.elts[1]
            seqs, names = [src], [tgt]
            if isinstance(src, ast.Call) and unparse(src.func) == "zip" and not src.keywords and isinstance(tgt, ast.Tuple) \
                    and len(tgt.elts) == len(src.args):
                seqs, names = list(src.args), list(tgt.elts)
            ok = all(isinstance(nm, ast.Name) for nm in names)
            vals = []
            if ok:
                for sq in seqs:
                    k, e = self._expr(sq, env, ops, obl, fi, depth)
                    ok = ok and k in ("vec", "boolvec")
                    vals.append((k, e))
            if not ok:
                raise AnalysisError(f"{fi.name}: unsupported loop header")
            for nm, (k, e) in zip(names, vals):
                pre_bind[nm.id] = ("scalar" if k == "vec" else "bool", e)
            loop = copy.copy(loop)
            loop.target = loop.target.elts[0]
            loop.iter = ast.Call(func=ast.Name(id="range", ctx=ast.Load()),
                                 args=[ast.Call(func=ast.Name(id="len", ctx=ast.Load()), args=[seqs[0]], keywords=[])], keywords=[])
            ast.copy_location(loop.iter, loop.target)
            ast.fix_missing_locations(loop.iter)
        if not (isinstance(loop.target, ast.Name) and isinstance(loop.iter, ast.Call) and unparse(loop.iter.func) == "range"):
            raise AnalysisError(f"{fi.name}: unsupported loop header")
        ivar = loop.target.id
        # the loop (and the buffer it fills) covers every coordinate: range(n) with n the vector length
        if len(loop.iter.args) in (2, 3) and isinstance(loop.iter.args[0], ast.Constant) and loop.iter.args[0].value == 0 \
                and (len(loop.iter.args) == 2 or (isinstance(loop.iter.args[2], ast.Constant) and loop.iter.args[2].value == 1)):
            loop = copy.copy(loop)
            loop.iter = copy.copy(loop.iter)
            loop.iter.args = [loop.iter.args[1]]  # range(0, n[, 1]) is range(n)
        if len(loop.iter.args) != 1 or loop.iter.keywords:
            raise MetricViolation(f"{fi.name}:{loop.lineno}: the element loop '{unparse(loop.iter)}' does not run over all coordinates")
        try:
            kn, en = self._expr(loop.iter.args[0], env, ops, [], fi, depth)
        except AnalysisError:
            kn, en = None, None
        if kn != "scalar" or en != ops.n:
            raise MetricViolation(f"{fi.name}:{loop.lineno}: the element loop '{unparse(loop.iter)}' does not run over all "
                                  "coordinates (range(x.shape[0]) expected)")
        lenv = dict(env)
        # a local the body assigns starts every round unset: its value from before the loop (or from the previous coordinate)
        # must not be read
        carried = {n.id for st in loop.body for n in ast.walk(st) if isinstance(n, ast.Name) and isinstance(n.ctx, ast.Store)} - {target}
        carried = {nm for nm in carried if nm in lenv}
        for nm in carried:
            del lenv[nm]
        lenv[ivar] = ("index", None)
        lenv.update(pre_bind)

        def body(stmts, benv):
            benv = dict(benv)
            stmts = [x for x in stmts if not isinstance(x, ast.Pass)]
            for k, st in enumerate(stmts):
                rest = stmts[k + 1:]
                last = not rest or all(isinstance(x, ast.Continue) for x in rest)
                if isinstance(st, ast.Assign) and len(st.targets) == 1 and isinstance(st.targets[0], ast.Name):
                    # a local of the element loop (hoisted sub-expression)
                    benv[st.targets[0].id] = self._expr(st.value, benv, ops, obl, fi, depth)
                    continue
                if isinstance(st, ast.Assign) and len(st.targets) == 1 and isinstance(st.targets[0], ast.Tuple) \
                        and isinstance(st.value, ast.Tuple) and len(st.value.elts) == len(st.targets[0].elts) \
                        and all(isinstance(t, ast.Name) for t in st.targets[0].elts):
                    vals = [self._expr(v, benv, ops, obl, fi, depth) for v in st.value.elts]
                    for t, v in zip(st.targets[0].elts, vals):
                        benv[t.id] = v
                    continue
                plain = lambda blk: all(isinstance(x, ast.Assign) and len(x.targets) == 1 and isinstance(x.targets[0], ast.Name)
                                        for x in blk)
                if isinstance(st, ast.If) and not last and st.body and plain(st.body) and plain(st.orelse):
                    # `shift = 0.0; if c: shift = abs(lo)`: locals updated under a test take the chosen value
                    cond = self._cond(st.test, benv, ops, obl, fi, depth)
                    envs = []
                    for blk in (st.body, st.orelse):
                        e2 = dict(benv)
                        for x in blk:
                            e2[x.targets[0].id] = self._expr(x.value, e2, ops, obl, fi, depth)
                        envs.append(e2)
                    for nm in {x.targets[0].id for blk in (st.body, st.orelse) for x in blk}:
                        a, b = envs[0].get(nm), envs[1].get(nm)
                        if (a is None or b is None) and nm in carried:
                            raise MetricViolation(f"{fi.name}:{st.lineno}: `{nm}` is set before the element loop and changed under a "
                                                  "test inside it: a coordinate sees the value left by an earlier coordinate")
                        if a is None or b is None or a[0] != b[0] or a[0] != "scalar":
                            raise AnalysisError(f"{fi.name}: element loop body outside the whitelist")
                        benv[nm] = ("scalar", sp.Piecewise((a[1], cond), (b[1], True)))
                    continue
                if isinstance(st, ast.If) and st.orelse and last:
                    cond = self._cond(st.test, benv, ops, obl, fi, depth)
                    return sp.Piecewise((body(st.body, benv), cond), (body(st.orelse, benv), True))
                if isinstance(st, ast.If) and not st.orelse and st.body and isinstance(st.body[-1], ast.Continue) and rest:
                    # guard clause: `if c: dist[i] = A; continue` / rest
                    cond = self._cond(st.test, benv, ops, obl, fi, depth)
                    return sp.Piecewise((body(st.body[:-1], benv), cond), (body(rest, benv), True))
                if last and isinstance(st, ast.Assign):
                    t = st.targets[0]
                    if isinstance(t, ast.Subscript) and isinstance(t.value, ast.Name) and t.value.id == target \
                            and isinstance(t.slice, ast.Name) and t.slice.id == ivar:
                        k2, e = self._expr(st.value, benv, ops, obl, fi, depth)
                        return e
                raise AnalysisError(f"{fi.name}: element loop body outside the whitelist")
            raise AnalysisError(f"{fi.name}: element loop body does not assign the element")

        return body(loop.body, lenv)

    def _cond(self, node, env, ops, obl, fi, depth):
        # `mask[i] is True` / `mask[i]` / comparisons
        if isinstance(node, ast.Compare) and len(node.ops) == 1 and isinstance(node.ops[0], (ast.Is, ast.Eq)) \
                and isinstance(node.comparators[0], ast.Constant) and node.comparators[0].value is True:
            return self._cond(node.left, env, ops, obl, fi, depth)
        if isinstance(node, ast.UnaryOp) and isinstance(node.op, ast.Not):
            return sp.Not(self._cond(node.operand, env, ops, obl, fi, depth))
        if isinstance(node, ast.Compare) and len(node.ops) == 1 and isinstance(node.ops[0], (ast.IsNot, ast.NotEq)) \
                and isinstance(node.comparators[0], ast.Constant) and node.comparators[0].value is True:
            return sp.Not(self._cond(node.left, env, ops, obl, fi, depth))
        k, e = self._expr(node, env, ops, obl, fi, depth)
        if k not in ("bool", "boolvec"):
            raise AnalysisError(f"{fi.name}: condition is not boolean: {unparse(node)}")
        return e

    def _expr(self, node, env, ops, obl, fi, depth) -> Tuple[str, object]:
        line = getattr(node, "lineno", 0)
        if isinstance(node, ast.Constant):
            if isinstance(node.value, bool):
                return ("bool", sp.true if node.value else sp.false)  # a flag handed to a helper
            if not isinstance(node.value, (int, float)):
                raise AnalysisError(f"{fi.name}: constant {node.value!r} outside the whitelist")
            return ("scalar", sp.nsimplify(node.value, rational=True))
        if isinstance(node, ast.Name):
            if node.id in env:
                return env[node.id]
            # a module-level numeric constant of the metrics module, bound exactly once (`_HALF = 0.5`, `_TWO = 2.0`) and never
            # stored to: the number it names (`float(2)`, `1 / 2` included)
            binds = [st for st in self.mi.tree.body if isinstance(st, ast.Assign) and any(
                isinstance(t, ast.Name) and t.id == node.id for t in st.targets)]
            rebinds = [n for n in ast.walk(self.mi.tree) if isinstance(n, ast.Name) and n.id == node.id and isinstance(n.ctx, (ast.Store, ast.Del))]
            globals_ = [n for n in ast.walk(self.mi.tree) if isinstance(n, ast.Global) and node.id in n.names]
            if len(binds) == 1 and len(rebinds) == 1 and not globals_:
                v = binds[0].value
                if isinstance(v, ast.Call) and isinstance(v.func, ast.Name) and v.func.id == "float" and len(v.args) == 1 and not v.keywords:
                    v = v.args[0]
                if isinstance(v, ast.Attribute) and unparse(v).startswith("c."):
                    return self._expr(v, env, ops, obl, fi, depth)  # a library constant under a local name
                try:
                    val = eval(compile(ast.Expression(body=v), "<const>", "eval"), {"__builtins__": {}}, {}) \
                        if all(isinstance(n, (ast.Constant, ast.BinOp, ast.UnaryOp, ast.operator, ast.unaryop, ast.Expression, ast.Load))
                               for n in ast.walk(v)) else None
                except Exception:
                    val = None
                if isinstance(val, (int, float)) and not isinstance(val, bool):
                    return ("scalar", sp.nsimplify(val, rational=True))
            raise AnalysisError(f"{fi.name}: unknown name {node.id}")
        if isinstance(node, ast.Attribute):
            d = unparse(node)
            if d.startswith("c."):
                name = d[2:]
                if name == "MAX_ARC_WEIGHT":
                    return ("scalar", ops.K)
                if name == "FLOAT_MAX":
                    return ("scalar", sp.oo)  # only meaningful as a clip bound: min(v, FLOAT_MAX) is v for finite v
                if name in self.consts and isinstance(self.consts[name], (int, float)):
                    return ("scalar", sp.nsimplify(self.consts[name], rational=True))
            flt = {"np.finfo(np.float64).eps": 2.0 ** -52, "np.finfo(float).eps": 2.0 ** -52, "sys.float_info.epsilon": 2.0 ** -52,
                   "np.finfo(np.float64).tiny": 2.0 ** -1022, "sys.float_info.min": 2.0 ** -1022, "np.finfo(np.float32).eps": 2.0 ** -23}
            if d.replace("numpy.", "np.") in flt:
                return ("scalar", sp.nsimplify(flt[d.replace("numpy.", "np.")], rational=True))  # a machine constant: that number
            raise AnalysisError(f"{fi.name}: attribute {d} outside the whitelist")
        if isinstance(node, ast.Subscript):
            # x[i] inside an element loop, x.shape[0]
            if isinstance(node.value, ast.Attribute) and node.value.attr == "shape" and isinstance(node.value.value, ast.Name):
                base = env.get(node.value.value.id)
                if base and base[0] == "vec" and isinstance(node.slice, ast.Constant) and node.slice.value == 0:
                    return ("scalar", ops.n)
            if isinstance(node.value, ast.Name) and isinstance(node.slice, ast.Name):
                base = env.get(node.value.id)
                ix = env.get(node.slice.id)
                if base and ix and ix[0] == "index":
                    if base[0] == "vec":
                        return ("scalar", base[1])
                    if base[0] == "boolvec":
                        return ("bool", base[1])
            raise AnalysisError(f"{fi.name}: subscript {unparse(node)} outside the whitelist")
        if isinstance(node, ast.IfExp):
            # A if c else B on scalars (inside an element loop: per coordinate)
            kc, cnd = self._expr(node.test, env, ops, obl, fi, depth)
            if kc not in ("bool", "boolvec"):
                raise AnalysisError(f"{fi.name}:{line}: conditional expression on a non-boolean test")
            n0 = len(obl)
            ka, a = self._expr(node.body, env, ops, obl, fi, depth)
            for ob in obl[n0:]:
                ob.assume += (cnd,)
            n0 = len(obl)
            kb, b = self._expr(node.orelse, env, ops, obl, fi, depth)
            for ob in obl[n0:]:
                ob.assume += (sp.Not(cnd),)
            if ka not in ("scalar", "vec") or kb not in ("scalar", "vec"):
                raise AnalysisError(f"{fi.name}:{line}: conditional expression of non-numeric arms")
            kind = "vec" if "vec" in (ka, kb) or kc == "boolvec" else "scalar"
            return (kind, sp.Piecewise((a, cnd), (b, True)))
        if isinstance(node, ast.UnaryOp) and isinstance(node.op, (ast.Invert, ast.Not)):
            k, e = self._expr(node.operand, env, ops, obl, fi, depth)
            if k in ("bool", "boolvec"):
                return (k, sp.Not(e))
            raise AnalysisError(f"{fi.name}: ~ applied to a non-boolean")
        if isinstance(node, ast.UnaryOp) and isinstance(node.op, ast.USub):
            k, e = self._expr(node.operand, env, ops, obl, fi, depth)
            return (k, -e)
        if isinstance(node, ast.BinOp):
            kl, l = self._expr(node.left, env, ops, obl, fi, depth)
            kr, r = self._expr(node.right, env, ops, obl, fi, depth)
            kind = "vec" if "vec" in (kl, kr) else "scalar"
            if kl in ("bool", "boolvec") or kr in ("bool", "boolvec"):
                raise AnalysisError(f"{fi.name}: arithmetic on a boolean")
            if isinstance(node.op, ast.Add):
                return (kind, l + r)
            if isinstance(node.op, ast.Sub):
                return (kind, l - r)
            if isinstance(node.op, ast.Mult):
                return (kind, l * r)
            if isinstance(node.op, ast.Div):
                obl.append(Obligation("div", r, unparse(node.right), line))
                return (kind, l / r)
            if isinstance(node.op, ast.Pow):
                if r == sp.Rational(1, 2):
                    obl.append(Obligation("sqrt", l, unparse(node.left), line))
                    return (kind, sp.sqrt(l))
                if r.is_Number and r < 0:
                    obl.append(Obligation("div", l, unparse(node.left), line))
                if not r.is_Number:
                    raise AnalysisError(f"{fi.name}: non-constant exponent")
                if not r.is_integer and r != sp.Rational(1, 2):
                    obl.append(Obligation("sqrt", l, unparse(node.left), line))
                return (kind, l ** r)
            raise AnalysisError(f"{fi.name}: operator {type(node.op).__name__} outside the whitelist")
        if isinstance(node, ast.BoolOp):
            parts = [self._expr(v, env, ops, obl, fi, depth) for v in node.values]
            if any(k != "bool" for k, _ in parts):
                raise AnalysisError(f"{fi.name}: and/or on non-scalar conditions: {unparse(node)}")
            return ("bool", (sp.And if isinstance(node.op, ast.And) else sp.Or)(*[e for _, e in parts]))
        if isinstance(node, ast.Compare) and len(node.ops) == 1:
            kl, l = self._expr(node.left, env, ops, obl, fi, depth)
            kr, r = self._expr(node.comparators[0], env, ops, obl, fi, depth)
            kind = "boolvec" if "vec" in (kl, kr) else "bool"
            rel = {ast.NotEq: sp.Ne, ast.Eq: sp.Eq, ast.GtE: sp.Ge, ast.Gt: sp.Gt, ast.LtE: sp.Le, ast.Lt: sp.Lt}.get(
                type(node.ops[0]))
            if rel is None:
                raise AnalysisError(f"{fi.name}: comparison outside the whitelist")
            return (kind, rel(l, r))
        if isinstance(node, ast.Call):
            f = unparse(node.func)
            args = [self._expr(a, env, ops, obl, fi, depth) for a in node.args]
            helper = self._helper_of(f)
            if node.keywords and helper is not None and all(k.arg for k in node.keywords):
                kw = {k.arg: self._expr(k.value, env, ops, obl, fi, depth) for k in node.keywords}
                if depth > 4:
                    raise AnalysisError(f"{fi.name}: metric call chain too deep")
                self._pending_kwargs = kw
                inner = self.translate(helper, ops, depth + 1, args=args)
                obl.extend(inner.obligations)
                return (inner.kind, inner.expr)
            if node.keywords:
                raise AnalysisError(f"{fi.name}: keyword arguments in {f}(...) outside the whitelist")
            if f in OVERFLOWING:
                raise MetricViolation(f"{fi.name}:{line}: {f}(...) multiplies the per-coordinate terms: the product overflows "
                                      "(or underflows to 0) for long or large-valued vectors, where the closed form - a sum - is finite; "
                                      "'equal up to rounding' does not hold for every vector length")
            if f in LOSSY:
                raise MetricViolation(f"{fi.name}:{line}: {f}(...) applies a tolerance / rounding / clipping step that no "
                                      "published closed form of the 47 metrics contains")
            if f in ("np.square",) and len(args) == 1:
                return (args[0][0], args[0][1] ** 2)
            if f in ("np.power",) and len(args) == 2 and args[1][0] == "scalar" and args[1][1].is_Number:
                if args[1][1] == sp.Rational(1, 2):
                    obl.append(Obligation("sqrt", args[0][1], unparse(node.args[0]), line))
                return (args[0][0], args[0][1] ** args[1][1])
            if f in ("np.dot",) and len(args) == 2 and args[0][0] == "vec" and args[1][0] == "vec":
                return ("scalar", S(args[0][1] * args[1][1]))
            if f in ("np.mean",) and len(args) == 1 and args[0][0] == "vec":
                return ("scalar", S(args[0][1]) / ops.n)
            if f in ("np.subtract", "np.add", "np.multiply") and len(args) == 2:
                kind = "vec" if "vec" in (args[0][0], args[1][0]) else "scalar"
                a, b = args[0][1], args[1][1]
                return (kind, a - b if f == "np.subtract" else (a + b if f == "np.add" else a * b))
            if f in ("np.divide",) and len(args) == 2:
                kind = "vec" if "vec" in (args[0][0], args[1][0]) else "scalar"
                obl.append(Obligation("div", args[1][1], unparse(node.args[1]), line))
                return (kind, args[0][1] / args[1][1])
            if f in ("len",) and len(args) == 1 and args[0][0] == "vec":
                return ("scalar", ops.n)
            if f in ("np.sum", "numpy.sum") and len(args) == 1 and args[0][0] == "vec":
                return ("scalar", S(args[0][1]))
            if f in ("np.amax", "np.max", "numpy.amax") and len(args) == 1 and args[0][0] == "vec":
                return ("scalar", MX(args[0][1]))
            if f in ("np.any", "numpy.any", "np.all", "numpy.all") and len(args) == 1 and args[0][0] == "boolvec":
                # any(c) is "the number of coordinates with c is not 0"; all(c) is "no coordinate with not c"
                e = args[0][1]
                if f.endswith("any"):
                    return ("bool", sp.false if e == sp.false else sp.Ne(CNZ(e), 0))
                return ("bool", sp.true if e == sp.true else sp.Eq(CNZ(sp.Not(e)), 0))
            if f in ("np.count_nonzero",) and len(args) == 1 and args[0][0] in ("boolvec", "vec"):
                e = args[0][1]
                if args[0][0] == "vec":
                    e = sp.Ne(e, 0)
                return ("scalar", CNZ(e))
            if f in ("np.fabs", "np.abs", "np.absolute", "abs", "math.fabs") and len(args) == 1:
                return (args[0][0], sp.Abs(args[0][1]))
            if f in ("np.log", "math.log") and len(args) == 1:
                obl.append(Obligation("log", args[0][1], unparse(node.args[0]), line))
                return (args[0][0], sp.log(args[0][1]))
            if f in ("np.exp", "math.exp") and len(args) == 1:
                return (args[0][0], sp.exp(args[0][1]))
            if f in ("np.float64", "numpy.float64", "float", "np.double") and len(args) == 1 and args[0][0] in ("scalar", "vec"):
                return args[0]  # a cast to the working precision (float64) is the value
            if f in ("np.sqrt", "math.sqrt") and len(args) == 1:
                obl.append(Obligation("sqrt", args[0][1], unparse(node.args[0]), line))
                return (args[0][0], sp.sqrt(args[0][1]))
            if f in ("np.where", "numpy.where") and len(args) == 3 and args[0][0] in ("boolvec", "bool") \
                    and args[1][0] in ("vec", "scalar") and args[2][0] in ("vec", "scalar"):
                # element-wise selection; both arms are evaluated for every element, so their obligations stand as they are
                kind = "vec" if "vec" in (args[1][0], args[2][0]) or args[0][0] == "boolvec" else "scalar"
                return (kind, sp.Piecewise((args[1][1], args[0][1]), (args[2][1], True)))
            if f in ("np.minimum", "np.maximum", "min", "max") and len(args) == 2:
                kind = "vec" if "vec" in (args[0][0], args[1][0]) else "scalar"
                fn = sp.Min if f in ("np.minimum", "min") else sp.Max
                return (kind, fn(args[0][1], args[1][1]))
            if helper is not None:
                if depth > 4:
                    raise AnalysisError(f"{fi.name}: metric call chain too deep")
                self._pending_kwargs = None
                inner = self.translate(helper, ops, depth + 1, args=args)
                obl.extend(inner.obligations)
                return (inner.kind, inner.expr)
            raise AnalysisError(f"{fi.name}:{line}: call {f}(...) outside the metric whitelist")
        raise AnalysisError(f"{fi.name}:{line}: expression outside the metric whitelist: {unparse(node)[:80]}")


# ---------------------------------------------------------------------------
# normal form
# ---------------------------------------------------------------------------


def _lin_S(e, ops: Ops):
    """Linearity of the sum: S(a f + b g) = a S(f) + b S(g); S(const) = const * n."""

    def rule(arg):
        f = sp.expand_log(arg, force=True)
        f = sp.expand(f)
        total = 0
        for term in sp.Add.make_args(f):
            coeff, rest = term.as_independent(ops.X, ops.Y, as_Add=False)
            if rest == 1:
                total += coeff * ops.n
            else:
                total += coeff * S(_canon_elem(rest))
        return total

    return e.replace(lambda t: getattr(t, "func", None) == S, lambda t: rule(t.args[0]))


def _canon_elem(f):
    try:
        g = sp.powsimp(sp.together(f))
        return g
    except Exception:
        return f


def real_nonneg_lemma(e, ops: Ops) -> Optional[str]:
    """Real-arithmetic facts from the lemma table (never used for definedness)."""
    q = S(ops.X * ops.Y) / (sp.sqrt(S(ops.X ** 2)) * sp.sqrt(S(ops.Y ** 2)))
    if sp.simplify(e - (2 - 2 * q)) == 0 or sp.simplify(e - (1 - q)) == 0:
        return "Cauchy-Schwarz"
    return None


def normal_form(e, ops: Ops):
    # cardinality facts
    e = e.replace(lambda t: getattr(t, "func", None) == CNZ,
                  lambda t: ops.n if t.args[0] == sp.true else (sp.Integer(0) if t.args[0] == sp.false else t))
    e = e.replace(lambda t: getattr(t, "func", None) == MX, lambda t: sp.Integer(0) if t.args[0] == 0 else t)
    e = e.replace(lambda t: getattr(t, "func", None) == S, lambda t: sp.Integer(0) if t.args[0] == 0 else t)

    # Max(t, 0) = t when t >= 0 is a lemma (real arithmetic only)
    def drop_clamp(t):
        if isinstance(t, sp.Max) and len(t.args) == 2 and 0 in t.args:
            other = [a for a in t.args if a != 0][0]
            if real_nonneg_lemma(other, ops) or sign_of(other) in (">0", ">=0", "0"):
                return other
        return t

    e = e.replace(lambda t: isinstance(t, sp.Max), drop_clamp)

    # Piecewise((v, c), (g, True)) = g when c can only hold where g already takes the value v:
    #   c is `a == b`, or `a >= b` with b - a >= 0 a lemma (so c <=> a == b), and g[a == b] == v
    def drop_guard(t):
        if len(t.args) != 2 or t.args[1][1] != sp.true:
            return t
        (v, c), (g, _) = t.args
        if isinstance(c, sp.Eq):
            d = c.lhs - c.rhs
        elif isinstance(c, (sp.Ge, sp.Le)):
            d = c.gts - c.lts
            if not (real_nonneg_lemma(-d, ops) or real_nonneg_lemma(-2 * d, ops) or sign_of(-d) in (">=0", "0")):
                return t
        else:
            return t
        for atom in sorted((x for x in d.atoms(sp.Function) if x.func == S), key=str):
            try:
                sols = sp.solve(d, atom)
            except Exception:
                continue
            if len(sols) == 1 and sp.simplify(g.subs(atom, sols[0]) - v.subs(atom, sols[0])) == 0:
                return g
        return t

    if e.has(sp.Piecewise):
        e = e.replace(lambda t: isinstance(t, sp.Piecewise), drop_guard)
    e = sp.piecewise_fold(e) if e.has(sp.Piecewise) else e
    return _lin_S(e, ops)


_EQ_CACHE: Dict[Tuple[str, str, str], bool] = {}


def equal_forms(a, b, ops: Ops) -> bool:
    """Memoised on the expressions themselves (content, not identity): the same comparison is asked for by several
    properties and, in the regression tools, for hundreds of trees that differ in one function."""
    key = (sp.srepr(a), sp.srepr(b), ops.domain)
    if key not in _EQ_CACHE:
        _EQ_CACHE[key] = _equal_forms(a, b, ops)
    return _EQ_CACHE[key]


def _equal_forms(a, b, ops: Ops) -> bool:
    a, b = normal_form(a, ops), normal_form(b, ops)
    if a == b:
        return True
    d = a - b
    try:
        if sp.simplify(d) == 0:
            return True
    except Exception:
        pass
    # unify S-atoms whose element expressions are algebraically equal
    atoms = sorted(d.atoms(sp.Function), key=str)
    s_atoms = [t for t in atoms if t.func == S]
    repl = {}
    for i, t in enumerate(s_atoms):
        for u in s_atoms[:i]:
            try:
                if sp.simplify(sp.expand_log(t.args[0] - u.args[0], force=True)) == 0:
                    repl[t] = repl.get(u, u)
                    break
            except Exception:
                continue
    if repl:
        d2 = d.xreplace(repl)
        try:
            if sp.simplify(d2) == 0:
                return True
        except Exception:
            pass
    # merge the sums back and compare element-wise: sum_k c_k S(f_k) = S(sum_k c_k f_k)
    try:
        merged = merge_sums(sp.expand(d), ops)
        if merged == 0 or sp.simplify(merged) == 0:
            return True
    except Exception:
        pass
    return False


def merge_sums(d, ops: Ops):
    """If d is a linear combination of S-atoms (plus multiples of n), fold it into one S."""
    total = 0
    rest = 0
    for term in sp.Add.make_args(d):
        s_in = [t for t in term.atoms(sp.Function) if t.func == S]
        if len(s_in) == 1 and sp.diff(term, s_in[0]).has(S) is False and (term / s_in[0]).has(S) is False:
            c = sp.simplify(term / s_in[0])
            total += c * s_in[0].args[0]
        elif not s_in and term.has(ops.n) and sp.simplify(term / ops.n).has(ops.n) is False:
            total += sp.simplify(term / ops.n)
        else:
            rest += term
    elem = sp.simplify(sp.expand_log(total, force=True))
    if elem == 0:
        return rest
    return rest + S(elem)


# ---------------------------------------------------------------------------
# IEEE-sound sign domain
# ---------------------------------------------------------------------------


def _neg(s):
    return {">0": "<0", "<0": ">0", ">=0": "<=0", "<=0": ">=0", "0": "0", "!=0": "!=0", "T": "T"}[s]


def sign_of(e) -> str:
    """One of '0', '>0', '>=0', '<0', '<=0', '!=0', 'T'; only facts that also hold in floating point
    (no overflow/underflow)."""
    if e.is_Number:
        return "0" if e == 0 else (">0" if e > 0 else "<0")
    if e.is_Symbol:
        if e.is_positive:
            return ">0"
        if e.is_nonnegative:
            return ">=0"
        return "T"
    if isinstance(e, sp.Abs):
        s = sign_of(e.args[0])
        return ">0" if s in (">0", "<0", "!=0") else (">=0" if s != "0" else "0")
    if isinstance(e, sp.exp):
        return ">0"
    if isinstance(e, sp.log):
        a = e.args[0]
        # log(1 + t), t >= 0
        if a.is_Add:
            rest = a - 1
            s = sign_of(rest)
            if s in (">0",):
                return ">0"
            if s in (">=0", "0"):
                return ">=0"
        return "T"
    if e.is_Add:
        ss = [sign_of(a) for a in e.args]
        if all(s in (">0", ">=0", "0") for s in ss):
            return ">0" if any(s == ">0" for s in ss) else ">=0"
        if all(s in ("<0", "<=0", "0") for s in ss):
            return "<0" if any(s == "<0" for s in ss) else "<=0"
        return "T"
    if e.is_Mul:
        ss = [sign_of(a) for a in e.args]
        if any(s == "0" for s in ss):
            return "0"
        if any(s == "T" for s in ss):
            return "T"
        neg = sum(1 for s in ss if s in ("<0", "<=0"))
        strict = all(s in (">0", "<0", "!=0") for s in ss)
        if any(s == "!=0" for s in ss):
            return "!=0" if strict else "T"
        pos = neg % 2 == 0
        if strict:
            return ">0" if pos else "<0"
        return ">=0" if pos else "<=0"
    if e.is_Pow:
        b, p = e.args
        sb = sign_of(b)
        if p.is_Number:
            if p.is_integer and p % 2 == 0:
                if p > 0:
                    return ">0" if sb in (">0", "<0", "!=0") else (">=0" if sb != "0" else "0")
                return ">0" if sb in (">0", "<0", "!=0") else "T"
            if p.is_integer:  # odd
                if p > 0:
                    return sb
                return sb if sb in (">0", "<0", "!=0") else "T"
            # fractional power: defined for b >= 0 (its own obligation); result >= 0
            if p > 0:
                return ">0" if sb == ">0" else (">=0" if sb in (">=0", "0") else "T")
            return ">0" if sb == ">0" else "T"
        return ">0" if sb == ">0" else "T"
    if isinstance(e, sp.Max):
        ss = [sign_of(a) for a in e.args]
        if any(s == ">0" for s in ss):
            return ">0"
        if any(s in (">=0", "0") for s in ss):
            return ">=0"
        if all(s in ("<0",) for s in ss):
            return "<0"
        return "T"
    if isinstance(e, sp.Min):
        ss = [sign_of(a) for a in e.args]
        if all(s == ">0" for s in ss):
            return ">0"
        if all(s in (">0", ">=0", "0") for s in ss):
            return ">=0"
        if any(s == "<0" for s in ss):
            return "<0"
        return "T"
    if getattr(e, "func", None) in (S, MX):
        return sign_of(e.args[0])
    if getattr(e, "func", None) == CNZ:
        if e.args[0] == sp.true:
            return ">0"
        return ">=0"
    if isinstance(e, sp.Piecewise):
        ss = {sign_of(a) for a, _ in e.args}
        if len(ss) == 1:
            return ss.pop()
        if ss <= {">0", ">=0", "0"}:
            return ">=0"
        return "T"
    return "T"


MARGIN_LEMMAS = [
    # divisor of jaccard: S(x^2)+S(y^2)-S(xy) >= (S(x^2)+S(y^2))/2 > 0 (AM-GM, relative margin 1/2)
    ("AM-GM margin", lambda o: S(o.X ** 2) + S(o.Y ** 2) - S(o.X * o.Y)),
]


def discharge(ob: Obligation, ops: Ops) -> Tuple[bool, str]:
    e = ob.expr
    # cardinality facts hold exactly
    e = e.replace(lambda t: getattr(t, "func", None) == CNZ and t.args[0] == sp.true, lambda t: ops.n)
    s = sign_of(e)
    if s == "T":
        # a path condition `a < b` (the negation of a guard clause's test) bounds every positive multiple of b - a;
        # comparison and subtraction are exact enough for this to hold in floating point as well
        for c in ob.assume:
            c = sp.simplify(c) if isinstance(c, sp.Not) else c
            if isinstance(c, (sp.Lt, sp.Gt, sp.Le, sp.Ge)):
                d = c.gts - c.lts
                try:
                    ratio = sp.simplify(e / d)
                except Exception:
                    continue
                if ratio.is_number and ratio > 0:
                    s = ">0" if isinstance(c, (sp.Lt, sp.Gt)) else ">=0"
                    break
    if ob.kind == "sqrt":
        if s in (">0", ">=0", "0"):
            return True, f"operand {s}"
    elif ob.kind == "log":
        if s == ">0":
            return True, "operand >0"
    elif ob.kind == "div":
        if s in (">0", "<0", "!=0"):
            return True, f"divisor {s}"
    if ops.domain == "P":
        for name, mk in MARGIN_LEMMAS:
            try:
                if sp.simplify(e - mk(ops)) == 0:
                    return True, name
            except Exception:
                pass
    return False, f"sign of the operand is {s}"


def check_metric_premise(rep, repo: Repo, pre: str = "") -> None:
    """C04's metric premise: identifiers marked s, n, z pass zero-self and definedness."""
    from .rules_metrics import Metrics, check_definedness, check_zero_self

    M = Metrics(repo)
    check_zero_self(rep, M, pre)
    check_definedness(rep, M, pre)
