"""E2: kind (index-space) checker.

A units-of-measure style typing of integer-valued terms of the IR.  Nominal
kinds carry identity only (they may be compared for equality with the same
kind, never ordered, never used in arithmetic):

    NodeIdx[G]   index into G.nodes           (G is the *term* that denotes the graph)
    RowId        row of the dataset / of the pre-computed distance matrix
Ordinal kinds (counts, ranks, positions in the conquest order):
    Ord
Everything else is unknown (None) and never reported: a report needs two *known*
kinds that disagree, so every report is a necessary-condition failure.
"""

from __future__ import annotations

from typing import Dict, List, Optional, Tuple

from .ir import Event, Term, Walker, show, subterms

Kind = Optional[tuple]

LIT = ("lit",)
NIL = ("nil",)
ORD = ("Ord",)
ROWID = ("RowId",)
CONFLICT = "conflict"


def is_nominal(k: Kind) -> bool:
    return k is not None and k[0] in ("NodeIdx", "RowId")


def kshow(k: Kind) -> str:
    if k is None:
        return "?"
    if k[0] == "NodeIdx":
        return f"NodeIdx[{show(k[1])}]"
    if k[0] == CONFLICT:
        return f"conflict({kshow(k[1])},{kshow(k[2])})"
    return k[0]


def join(a: Kind, b: Kind) -> Kind:
    if a == b:
        return a
    if a in (LIT, NIL):
        return b
    if b in (LIT, NIL):
        return a
    if a is None or b is None:
        return None
    if a == ("bottom",):
        return b
    if b == ("bottom",):
        return a
    return (CONFLICT, a, b)


def nodes_of(t: Term) -> Optional[Term]:
    """G when t is `G.nodes`."""
    if t[0] == "attr" and t[2] == "nodes":
        return t[1]
    return None


def node_of(t: Term) -> Optional[Tuple[Term, Term]]:
    """(G, e) when t is `G.nodes[e]`."""
    if t[0] == "idx":
        g = nodes_of(t[1])
        if g is not None:
            return g, t[2]
    return None


def count_of(t: Term) -> Optional[Term]:
    """G when t denotes the number of nodes of G."""
    if t[0] == "attr" and t[2] == "n_nodes":
        return t[1]
    if t[0] == "call" and t[1] == ("builtin", "len") and len(t[2]) == 1:
        return nodes_of(t[2][0])
    return None


class Kinds:
    def __init__(self, walker: Walker):
        self.w = walker
        self.cache: Dict[Term, Kind] = {}
        self.busy = set()
        self.array_kinds: Dict[Term, Kind] = {}
        self._infer_arrays()

    # -- heap -> graph --------------------------------------------------------
    def heap_graph(self, h: Term) -> Optional[Term]:
        if h[0] != "new" or h[1] != "Heap":
            return None
        size = None
        if h[2]:
            size = h[2][0]
        for k, v in h[3]:
            if k == "size":
                size = v
        if size is None:
            return None
        return count_of(size)

    def heap_policy(self, h: Term) -> Optional[str]:
        if h[0] != "new" or h[1] != "Heap":
            return None
        from .rules_premise import heap_default_policy
        pol = ("const", heap_default_policy(self.w.repo))
        if len(h[2]) > 1:
            pol = h[2][1]
        for k, v in h[3]:
            if k == "policy":
                pol = v
        return pol[1] if pol[0] == "const" else None

    # -- local index arrays -----------------------------------------------------
    def _infer_arrays(self) -> None:
        """A local array that only ever receives values of one nominal kind holds that kind."""
        for ev in self.w.events:
            if ev.kind == "store" and ev.target[0] == "idx" and ev.target[1][0] == "alloc":
                arr = ev.target[1]
                v = ev.value
                # swaps between slots of the same array do not change its kind
                if v[0] == "idx" and v[1] == arr:
                    continue
                k = self.kind(v)
                if arr in self.array_kinds:
                    self.array_kinds[arr] = join(self.array_kinds[arr], k)
                else:
                    self.array_kinds[arr] = k

    # -- kind of a term -----------------------------------------------------------
    def kind(self, t: Term) -> Kind:
        if t in self.cache:
            return self.cache[t]
        if t in self.busy:
            return ("bottom",)
        self.busy.add(t)
        try:
            k = self._kind(t)
        finally:
            self.busy.discard(t)
        if k == ("bottom",):
            return k
        self.cache[t] = k
        return k

    def _range_kind(self, dom: Term) -> Kind:
        if dom[0] == "call" and dom[1] == ("builtin", "range"):
            args = dom[2]
            if len(args) == 1 or (len(args) == 2 and args[0] == ("const", 0)):
                g = count_of(args[-1])
                if g is not None:
                    return ("NodeIdx", g)
            return ORD
        return None

    def _kind(self, t: Term) -> Kind:
        tag = t[0]
        if tag == "old":
            return self.kind(t[1])
        if tag == "const":
            if isinstance(t[1], bool) or not isinstance(t[1], int):
                return None
            return NIL if t[1] == -1 else LIT
        if tag == "K":
            return NIL if t[1] == "NIL" else None
        if tag == "hremove":
            g = self.heap_graph(t[1])
            return ("NodeIdx", g) if g is not None else None
        if tag == "iter":
            dom = t[1]
            rk = self._range_kind(dom)
            if rk is not None:
                return rk
            if dom[0] == "idx" and dom[2][0] == "slice" and dom[1][0] == "attr" and dom[1][2] == "adjacency":
                dom = dom[1]  # an element of a slice of the adjacency list is an element of the list
            if dom[0] == "attr" and dom[2] == "adjacency":
                n = node_of(dom[1])
                if n:
                    return ("NodeIdx", n[0])
            if dom[0] == "alloc":
                return self.array_kinds.get(dom)
            return None
        if tag == "iterproj":
            dom, path = t[1], t[3]
            if dom[0] == "call" and dom[1] == ("builtin", "enumerate") and path == (0,):
                g = nodes_of(dom[2][0]) if dom[2] else None
                if g is not None:
                    return ("NodeIdx", g)
                return ("RowIdx", dom[2][0]) if dom[2] else None
            return None
        if tag == "idx":
            base, ix = t[1], t[2]
            if base[0] == "attr" and base[2] == "idx_nodes":
                return ("NodeIdx", base[1])
            if base[0] == "attr" and base[2] == "adjacency":
                n = node_of(base[1])
                if n:
                    return ("NodeIdx", n[0])
            if base[0] == "alloc":
                return self.array_kinds.get(base)
            if base[0] == "attr" and base[2] == "p" and base[1] == ("self",):
                return None
            return None
        if tag == "attr":
            n = node_of(t[1])
            if n:
                if t[2] in ("pred", "root"):
                    return ("NodeIdx", n[0])
                if t[2] == "idx":
                    return ROWID
            if t[1][0] in ("iter",) and t[2] == "idx":
                return ROWID
            if count_of(t) is not None:
                return ("Count", count_of(t))
            return None
        if tag == "call":
            f = t[1]
            if f == ("builtin", "int") and len(t[2]) == 1:
                return self.kind(t[2][0])
            if f == ("builtin", "len"):
                return ORD
            if f[0] == "attr" and f[2] == "item" and not t[2]:
                return self.kind(f[1])
            return None
        if tag == "phi":
            li = self.w.loops.get(t[1])
            if li and t[2] in li.carried:
                a, b = li.carried[t[2]]
                ka = self.kind(a) if a != ("undef",) else ("bottom",)
                kb = self.kind(b)
                return join(ka, kb)
            return None
        if tag == "sel":
            a, b = t[2], t[3]
            ka = self.kind(a) if a != ("undef",) else ("bottom",)
            kb = self.kind(b) if b != ("undef",) else ("bottom",)
            return join(ka, kb)
        if tag == "bin":
            op, l, r = t[1], t[2], t[3]
            kl, kr = self.kind(l), self.kind(r)
            if op in ("+", "-"):
                if kl in (ORD, LIT, NIL) and kr in (ORD, LIT, NIL):
                    return ORD if ORD in (kl, kr) else LIT
                if kl is not None and kl[0] == "Count" and kr in (LIT, ORD, NIL):
                    return ORD
                if kr is not None and kr[0] == "Count" and kl in (LIT, ORD, NIL):
                    return ORD
                if is_nominal(kl) or is_nominal(kr):
                    return ("arith", kl, kr)
            return None
        return None

    # -- rules --------------------------------------------------------------------
    def check(self, report, rules=("K1", "K2", "K3", "K4", "K5"), events: List[Event] = None) -> Dict[str, int]:
        """Evaluate the kind rules on every term of every event.

        `report(rule, event, construct, ok, detail)` is called once per obligation.
        """
        stats = {"K1": 0, "K2": 0, "K3": 0, "K4": 0, "K5": 0, "unknown": 0}
        seen = set()
        from .ir import is_log_call
        for ev in events if events is not None else self.w.events:
            if is_log_call(ev):
                continue  # `sample %d/%d` with i + 1: a position printed in a message is not used as an index
            terms = []
            for x in (ev.target, ev.value):
                if x is not None:
                    terms.append(x)
            terms.extend(ev.args)
            terms.extend(v for _, v in ev.kwargs)
            for g, _ in ev.guards:
                terms.append(g)
            for top in terms:
                for t in subterms(top):
                    key = (ev.fn.fq, t)
                    if key in seen:
                        continue
                    seen.add(key)
                    self._check_term(t, ev, report, rules, stats)
            if "K5" in rules and ev.kind == "store":
                self._check_store(ev, report, stats)
            if "K1" in rules and ev.kind == "call" and ev.target and ev.target[0] == "attr":
                self._check_heap_call(ev, report, stats)
        return stats

    def _need_node_index(self, g: Term, e: Term, ev: Event, what: str, report, stats, rule="K1") -> None:
        k = self.kind(e)
        stats[rule] += 1
        if k is None or k == ("bottom",):
            stats["unknown"] += 1
            return
        if k in (LIT,):
            report(rule, ev, f"{what}", True, "literal index")
            return
        ok = k == ("NodeIdx", g)
        report(
            rule, ev, what, ok,
            "" if ok else f"index '{show(e)}' has kind {kshow(k)} but {show(g)}.nodes needs NodeIdx[{show(g)}]",
        )

    def _check_term(self, t: Term, ev: Event, report, rules, stats) -> None:
        tag = t[0]
        if tag == "idx":
            base, ix = t[1], t[2]
            g = nodes_of(base)
            if g is not None and "K1" in rules:
                self._need_node_index(g, ix, ev, show(t), report, stats)
                return
            if base[0] == "attr" and base[2] in ("cost", "color", "pos") and "K1" in rules:
                hg = self.heap_graph(base[1])
                if hg is not None:
                    self._need_node_index(hg, ix, ev, show(t), report, stats)
                return
            if base[0] == "attr" and base[2] in ("idx_nodes", "adjacency") and "K1" in rules:
                k = self.kind(ix)
                stats["K1"] += 1
                if k is None:
                    stats["unknown"] += 1
                    return
                ok = not is_nominal(k) and k[0] != CONFLICT
                core = ix
                while core[0] == "old":
                    core = core[1]
                if not ok and base[2] == "idx_nodes" and k[0] == "NodeIdx" and core[0] == "iter" and core[1][0] == "call" \
                        and core[1][1] == ("builtin", "range") and len(core[1][2]) == 1:
                    # a counter over range(n_nodes) enumerates the positions of the conquest order just as well - when it is
                    # used as a position only (never also as a node number: nodes[j], H.cost[j], ...)
                    as_node = False
                    for e2 in self.w.events:
                        for top in [x for x in (e2.target, e2.value) if x is not None] + list(e2.args or ()) + [g for g, _ in e2.guards]:
                            for u in subterms(top):
                                if u[0] == "idx" and u[2] == core and u[1][0] == "attr" and u[1][2] in ("nodes", "cost", "color", "pos", "p"):
                                    as_node = True
                    ok = not as_node
                report("K1", ev, show(t), ok,
                       "" if ok else f"position '{show(ix)}' of kind {kshow(k)} used as an ordinal position")
                return
            # pre-computed matrix: M[a][b]
            if base[0] == "idx" and "K2" in rules and self._is_predist(base[1]):
                for which, e in (("row", base[2]), ("column", ix)):
                    k = self.kind(e)
                    stats["K2"] += 1
                    if k is None:
                        stats["unknown"] += 1
                        continue
                    ok = k == ROWID
                    report("K2", ev, show(t), ok,
                           "" if ok else f"{which} index '{show(e)}' of the pre-computed matrix has kind "
                           f"{kshow(k)}; a dataset row id (node.idx) is required")
                return
        if tag == "cmp":
            op, l, r = t[1], t[2], t[3]
            kl, kr = self.kind(l), self.kind(r)
            if op in ("==", "!=") and "K3" in rules:
                if kl is None or kr is None:
                    return
                if kl in (LIT, NIL) or kr in (LIT, NIL):
                    return
                if not (is_nominal(kl) or is_nominal(kr)):
                    return
                stats["K3"] += 1
                ok = kl == kr
                report("K3", ev, show(t), ok,
                       "" if ok else f"compares {kshow(kl)} '{show(l)}' with {kshow(kr)} '{show(r)}'")
                return
            if op in ("<", "<=") and "K4" in rules:
                for a, ka, b, kb in ((l, kl, r, kr), (r, kr, l, kl)):
                    if is_nominal(ka):
                        stats["K4"] += 1
                        # definedness tests against the NIL sentinel are not orderings
                        ok = kb in (NIL,) or (kb == LIT and b == ("const", 0))
                        # ... neither is a range test against the size of the index's own graph (i < n, i <= n - 1)
                        size = b[2] if b[0] == "bin" and b[1] in ("+", "-") and b[3][0] == "const" else b
                        if not ok and ka[0] == "NodeIdx" and count_of(size) is not None and count_of(size) == ka[1]:
                            ok = True
                        # ... nor is a dataset row id tested against the extent of the pre-computed matrix it indexes
                        if not ok and ka == ROWID and size[0] == "idx" and size[1][0] == "attr" and size[1][2] == "shape" \
                                and self._is_predist(size[1][1]):
                            ok = True
                        report("K4", ev, show(t), ok,
                               "" if ok else f"orders the nominal index '{show(a)}' ({kshow(ka)})")
                        return
        if tag == "bin" and "K4" in rules:
            k = self.kind(t)
            if k is not None and k[0] == "arith":
                stats["K4"] += 1
                report("K4", ev, show(t), False,
                       f"arithmetic on a nominal index ({kshow(k[1])} {t[1]} {kshow(k[2])})")

    def _is_predist(self, t: Term) -> bool:
        if t[0] == "attr" and t[2] == "pre_distances":
            return True
        if t[0] == "param" and t[1] == "pre_distances":
            return True
        return False

    def _check_store(self, ev: Event, report, stats) -> None:
        tgt = ev.target
        if tgt[0] != "attr":
            return
        n = node_of(tgt[1])
        if not n or tgt[2] not in ("pred", "root"):
            return
        if ev.aug:
            stats["K5"] += 1
            report("K5", ev, ev.text(), False, f"arithmetic update of the nominal field .{tgt[2]}")
            return
        k = self.kind(ev.value)
        stats["K5"] += 1
        if k is None:
            stats["unknown"] += 1
            return
        ok = k in (NIL,) or k == ("NodeIdx", n[0])
        report("K5", ev, ev.text(), ok,
               "" if ok else f".{tgt[2]} of a node of {show(n[0])} receives '{show(ev.value)}' of kind {kshow(k)}")

    def _check_heap_call(self, ev: Event, report, stats) -> None:
        recv, meth = ev.target[1], ev.target[2]
        if meth not in ("insert", "update") or not ev.args:
            return
        hg = self.heap_graph(recv)
        if hg is None:
            return
        self._need_node_index(hg, ev.args[0], ev, f"{show(recv)}.{meth}({show(ev.args[0])}, ...)", report, stats)
