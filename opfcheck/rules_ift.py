"""R-IFT: rules over competition-loop records (C01, C02, C13, C15, C05 client side).

Every rule relates terms of the *same* construct; nothing matches frozen text.
The accepted families (what is allowed to vary without an alarm) are argued in
DESIGN.md section 4 and validated there against brute-force oracles.
"""

from __future__ import annotations

from typing import Callable, List, Optional, Tuple

from .core import Check, Repo
from .ir import Event, Term, Walker, contains, facts, has_guard, mk_not, not_nil_forms, show, tkey
from .kinds import Kinds, node_of
from .schema import (
    Competition,
    UpdateSite,
    acceptance,
    as_selector,
    is_matrix_read,
    is_metric_call,
    neighbour_domain,
    stores_in_branch,
    strip_int,
)

K = lambda name: ("K", name)  # noqa: E731


class Rep:
    """Binds a Check to a repo so that rules can report with file/line."""

    def __init__(self, chk: Check, repo: Repo):
        self.chk = chk
        self.repo = repo

    def ev(self, rule: str, ev: Event, ok: bool, detail: str = "", construct: str = None) -> bool:
        return self.chk.ob(
            rule, ev.fn.qual, construct if construct is not None else ev.text(), ok, detail,
            file=self.repo.modules[ev.fn.module].relpath, line=ev.line,
        )

    def fn(self, rule: str, fi, construct: str, ok: bool, detail: str = "", line: int = 0) -> bool:
        return self.chk.ob(
            rule, fi.qual, construct, ok, detail,
            file=self.repo.modules[fi.module].relpath, line=line or fi.node.lineno,
        )

    def guard(self, rule: str, w: Walker, g: Term, fallback: Event, ok: bool, detail: str = "") -> bool:
        src = w.guard_src.get(g) or w.guard_src.get(mk_not(g))
        if src:
            line, text, fi = src
            return self.chk.ob(rule, fi.qual, text, ok, detail,
                               file=self.repo.modules[fi.module].relpath, line=line)
        return self.ev(rule, fallback, ok, detail)

    def kinds(self, prefix: str = ""):
        def report(rule, ev, construct, ok, detail):
            w_src = None
            self.chk.ob(prefix + rule, ev.fn.qual, construct if ok else self._src(ev, construct), ok, detail,
                        file=self.repo.modules[ev.fn.module].relpath, line=ev.line)
        return report

    def _src(self, ev: Event, construct: str) -> str:
        return construct


def weight_of(t: Term) -> bool:
    """Is t an arc-weight term (selector, metric call or matrix read)?"""
    return as_selector(t) is not None or is_metric_call(t) or is_matrix_read(t)


def weight_mentions(t: Term, a: Term, b: Term) -> bool:
    from .schema import weight_names_pair
    return weight_names_pair(t, a, b)


def split_candidate(v: Term, hp: Term, kind: str) -> Optional[Term]:
    """For v = kind(hp, x) return x."""
    if v[0] == kind and len(v[1]) == 2 and hp in v[1]:
        other = [x for x in v[1] if x != hp]
        return other[0] if other else hp
    return None


# ---------------------------------------------------------------------------
# benign guard family for relaxation sites
# ---------------------------------------------------------------------------


def classify_guard(comp: Competition, u: UpdateSite, g: Term, pol: bool, weight: Optional[Term]) -> str:
    """Name of the accepted-family member this inner guard is, or '' when unknown."""
    t = g if pol else mk_not(g)
    p, q = comp.p, u.q
    hp, hq = comp.hcost(p), comp.hcost(q)
    if t[0] == "cmp":
        op, l, r = t[1], t[2], t[3]
        if op == "!=" and {l, r} == {p, q}:
            return "p!=q"
        if op == "!=" and {l, r} == {K("BLACK"), ("idx", ("attr", comp.heap, "color"), q)}:
            return "not-removed"
        if op in ("<", "<=") and l == hp and r == hq:
            return "outer-cost-" + ("strict" if op == "<" else "nonstrict")
        if comp.policy == "max" and op in ("<", "<=") and l == hq and r == hp:
            return "outer-cost-" + ("strict" if op == "<" else "nonstrict")
        if weight is not None and op in ("<", "<=") and l == weight and r == hq and comp.policy == "min":
            return "weight-prefilter"
    # `if isnan(w): continue`: a NaN weight never wins a comparison anyway (every `<` with it is false)
    if weight is not None and t[0] == "not" and t[1][0] == "call" and t[1][1] in (("mod", "numpy.isnan"), ("mod", "math.isnan")) \
            and t[1][2] == (weight,):
        return "weight-prefilter(nan)"
    # `if w < 0: continue` in a forest over path costs max(cost, w): the properties about these forests quantify over
    # non-negative dissimilarities, where the test never skips anything
    if weight is not None and comp.policy == "min" and t == ("cmp", "<=", ("const", 0), weight):
        return "weight-prefilter(sign)"
    if t[0] == "cmp":
        op, l, r = t[1], t[2], t[3]
        # `if removed_so_far == n_nodes: break` before the scan: once every node has left the queue all of them are BLACK
        # and the scan is a no-op.  Exact when the counter starts at 0, is incremented by exactly 1 per removal,
        # unconditionally, is compared with the number of nodes of the graph, and the scan skips removed nodes anyway.
        if op in ("!=", "<") and _all_settled(comp, u, l, r, op):
            return "not-removed(all settled)"
    return ""


def _all_settled(comp: Competition, u: UpdateSite, l: Term, r: Term, op: str) -> bool:
    from .kinds import count_of
    lp = comp.loop
    pairs = [(l, r), (r, l)] if op == "!=" else [(r, l)]  # counter + 1 < n  is written  (1 + counter) < n
    from .rules_heap import lin, lin_eq
    for n_t, cnt in pairs:
        if n_t == ("const", 0):
            # the count-down spelling: `remaining = n_nodes` before the loop, `remaining -= 1` per removal, leave at 0
            for name, (init, end) in lp.carried.items():
                phi = ("phi", lp.lid, name)
                if count_of(init) == comp.graph and lin_eq(lin(end), {phi: 1, 1: -1}) and cnt == end:
                    black = ("cmp", "!=", *sorted([K("BLACK"), ("idx", ("attr", comp.heap, "color"), u.q)], key=repr))
                    hp, hq = comp.hcost(comp.p), comp.hcost(u.q)
                    dearer = ("cmp", "<", hp, hq) if comp.policy == "min" else ("cmp", "<", hq, hp)
                    fs = facts(tuple(u.inner_guards))
                    return black in fs or dearer in fs
            continue
        if count_of(n_t) != comp.graph:
            continue
        for name, (init, end) in lp.carried.items():
            phi = ("phi", lp.lid, name)
            plus = ("bin", "+", *sorted([("const", 1), phi], key=tkey))
            if cnt == plus and init == ("const", 0) and end == plus:
                black = ("cmp", "!=", *sorted([K("BLACK"), ("idx", ("attr", comp.heap, "color"), u.q)], key=repr))
                # ... or offers only to nodes that cost strictly more than the removed one: the last node removed from a
                # correct queue (heap premise) costs at least as much as every other
                hp, hq = comp.hcost(comp.p), comp.hcost(u.q)
                dearer = ("cmp", "<", hp, hq) if comp.policy == "min" else ("cmp", "<", hq, hp)
                fs = facts(tuple(u.inner_guards))
                return black in fs or dearer in fs
    return False


def check_relaxation_guards(rep: Rep, rule: str, comp: Competition, u: UpdateSite, acc_pos: int,
                            weight: Optional[Term], allowed: Tuple[str, ...]) -> List[str]:
    names = []
    for pos, (g, pol) in enumerate(u.inner_guards):
        if pos == acc_pos:
            continue
        name = classify_guard(comp, u, g, pol, weight)
        names.append(name)
        ok = bool(name) and any(name.startswith(a) for a in allowed)
        rep.guard(
            rule, comp.walker, g, u.event, ok,
            "" if ok else "relaxation of q is restricted by a test outside the accepted family "
            f"{allowed}: '{show(g if pol else mk_not(g))}'",
        )
    return names


# ---------------------------------------------------------------------------
# f_max competition (supervised / semi-supervised fit)
# ---------------------------------------------------------------------------


def check_removal_bookkeeping(rep: Rep, pre: str, comp: Competition) -> List[Event]:
    """One unconditional conquest-order append and one cost record per removal."""
    fn = comp.fn
    p = comp.p
    appends = [
        e for e in comp.events
        if e.kind == "call" and e.name == "append" and e.target == ("attr", ("attr", comp.graph, "idx_nodes"), "append")
    ]
    base_guards = facts(comp.body_guards())
    good = [e for e in appends if e in comp.top and facts(e.guards) == base_guards and e.args == (p,)]
    rep.fn(pre + "IFT-order", fn, "conquest order: idx_nodes.append(p) once per removal, unconditionally",
           len(appends) == 1 and len(good) == 1,
           f"found {len(appends)} append(s) to idx_nodes in the loop, {len(good)} unconditional with the removed node",
           line=comp.loop.line)
    cost_stores = [e for e in comp.events if e.kind == "store" and e.target[0] == "attr" and e.target[2] == "cost"
                   and node_of(e.target[1])]
    okc = [e for e in cost_stores if e in comp.top and facts(e.guards) == base_guards
           and e.target == comp.field(p, "cost") and e.value == comp.hcost(p) and not e.aug]
    rep.fn(pre + "IFT-cost", fn, "recorded cost: nodes[p].cost = H.cost[p] at removal",
           len(okc) >= 1 and len(okc) == len(cost_stores),
           f"{len(cost_stores)} store(s) to a node cost in the loop, {len(okc)} of the required form",
           line=comp.loop.line)
    return okc


def _deferred_labels(w, comp) -> List[Event]:
    """Labels written once, after the competition: `for t in idx_nodes: if pred(t) != NIL: label(t) = label(pred(t))`.  The
    conquest order lists every node after its final predecessor, so this gives each node the label its last accepted offer
    would have copied.  Returns the label store of such a pass (run unconditionally right after the loop, over the whole
    order, nothing else writing pred / predicted_label in between), else []."""
    order = ("attr", comp.graph, "idx_nodes")
    for li in w.loops.values():
        if li.kind != "for" or li.domain != order or li.loops != comp.loop.loops or li.first_seq < comp.loop.last_seq \
                or facts(li.guards) != facts(comp.loop.guards):
            continue
        t = ("iter", order, li.lid)
        inner = [e for e in w.events if li.lid in e.loops]
        stores = [e for e in inner if e.kind == "store" and e.target[0] == "attr" and e.target[2] in ("predicted_label", "pred", "cost")]
        if len(stores) != 1 or stores[0].aug or stores[0].loops != li.loops + (li.lid,):
            continue
        e = stores[0]
        src = comp.field(comp.field(t, "pred"), "predicted_label")
        val = e.value
        while val[0] == "old":
            val = val[1]
        # (the value read is the label of an earlier node of the order: written by an earlier round, or by the seeding)
        strip = lambda x: tuple(strip(y) for y in (x[1] if x[0] == "old" else x)) if isinstance(x, tuple) and x else x
        if e.target != comp.field(t, "predicted_label") or strip(val) != strip(src):
            continue
        own = [g for g in facts(e.guards) if g not in facts(li.guards)]
        if len(own) != 1 or strip(own[0]) not in [strip(f) for f in not_nil_forms(comp.field(t, "pred"))]:
            continue
        between = [x for x in w.events if comp.loop.last_seq < x.seq < li.first_seq and x.kind == "store"
                   and x.target[0] == "attr" and x.target[2] in ("predicted_label", "pred")]
        if between or any(x.kind in ("break", "continue", "return", "raise") for x in inner):
            continue
        return [e]
    return []


def _visible_causes(w) -> set:
    """Reasons for a copy to be stale that the event stream shows in full: stores, and calls of helpers whose bodies were inlined
    (their stores are in the stream too)."""
    return {"store"} | {"call:" + fq.rpartition(".")[2].rpartition(":")[2] for fq in getattr(w, "inlined", [])}


def _current_copy(w, comp, e, val) -> bool:
    """e stores a copy of `val` (a field of the removed node) taken earlier in the same removal, stale only on account of
    stores, none of which goes to `val` itself between the copy and e."""
    v = e.value
    if not (v[0] == "old" and v[1] == val and w.old_cause.get(v[2], {"?"}) <= _visible_causes(w)):
        return False
    copies = [b.seq for b in comp.events if b.kind == "bind" and b.seq < e.seq and b.value is not None
              and (b.value == val or (b.value[0] == "tuple" and val in b.value[1]))]
    if not copies:
        return False
    return not any(s2.kind == "store" and s2.target == val and max(copies) < s2.seq < e.seq for s2 in comp.events)


def check_fmax_competition(rep: Rep, pre: str, comp: Competition,
                           extra_store: Callable[[Event, UpdateSite], bool] = None) -> None:
    w = comp.walker
    fn = comp.fn
    p = comp.p
    from .rules_premise import check_entry_unconditional
    check_entry_unconditional(rep, w, comp.loop.guards, pre + "IFT-entry", "the competition loop", comp.loop.line)
    rep.fn(pre + "IFT-policy", fn, f"Heap policy of the competition loop = {comp.policy!r}",
           comp.policy == "min",
           "" if comp.policy == "min" else "f_max optimum paths need a min-priority queue",
           line=comp.loop.line)
    rep.fn(pre + "IFT-graph", fn, f"heap sized from {show(comp.graph) if comp.graph else '?'}.n_nodes",
           comp.graph is not None, "heap capacity is not the node count of a graph", line=comp.loop.line)
    if comp.graph is None:
        return
    okc = check_removal_bookkeeping(rep, pre, comp)
    # relaxation sites
    rep.fn(pre + "IFT-update-sites", fn, "exactly one relaxation site (H.update) in the loop",
           len(comp.updates) == 1, f"found {len(comp.updates)}", line=comp.loop.line)
    for u in comp.updates:
        q = u.q
        dom = neighbour_domain(comp, u)
        rep.ev(pre + "IFT-domain", u.event, dom[0] == "all" and dom[1] == comp.graph,
               f"neighbour loop must range over every node of the graph; found {dom[0]}"
               + (f" {show(dom[1])}" if dom[1] is not None else ""),
               construct=f"for q in {show(u.neighbour_loop.domain) if u.neighbour_loop else '?'}")
        hp = comp.hcost(p)
        weight = split_candidate(u.value, hp, "max")
        okv = weight is not None and weight_of(weight) and weight_mentions(weight, comp.node(p), comp.node(q))
        rep.ev(pre + "IFT-extension", u.event, okv,
               "" if okv else f"candidate cost must be max(H.cost[p], w(p, q)); found '{show(u.value)}'")
        acc = acceptance(comp, u)
        if acc is None:
            rep.ev(pre + "IFT-accept", u.event, False,
                   "H.update(q, v) is not dominated by a test of v against H.cost[q]")
            continue
        t, rel, pos = acc
        names = check_relaxation_guards(rep, pre + "IFT-guard", comp, u, pos, weight,
                                        ("p!=q", "not-removed", "outer-cost", "weight-prefilter"))
        if rel == "v<h":
            ok, why = True, ""
        elif rel == "v<=h":
            ok = "outer-cost-strict" in names
            why = "" if ok else ("non-strict acceptance without a strict outer cost guard lets a removed node "
                                 "or a prototype be re-pointed (cycle / lost prototype)")
        else:
            ok, why = False, f"acceptance test has the wrong direction for a min-heap: '{show(t)}'"
        rep.guard(pre + "IFT-accept", w, t, u.event, ok, why)
        # (7) bookkeeping in the accepted branch
        branch = stores_in_branch(comp, u)
        pred_ok = [e for e in branch if e.target == comp.field(q, "pred") and e.value == p and not e.aug]
        # q is not p in the accepted branch (v >= H.cost[p] cannot be strictly below H.cost[p]; or an explicit test), so a copy
        # of p's label taken once per removal is still p's label there: only stores to q happen in between
        q_not_p = rel == "v<h" or any(nm in ("p!=q", "not-removed", "outer-cost-strict") for nm in names)
        lab_ok = [e for e in branch if e.target == comp.field(q, "predicted_label") and not e.aug
                  and (e.value == comp.field(p, "predicted_label")
                       or (q_not_p and _current_copy(w, comp, e, comp.field(p, "predicted_label"))))]
        deferred = []
        if not lab_ok and not any(e.kind == "store" and e.target[0] == "attr" and e.target[2] == "predicted_label" for e in comp.events):
            deferred = _deferred_labels(w, comp)
            lab_ok = deferred[:1] if deferred else lab_ok
        rep.ev(pre + "IFT-pred", u.event, len(pred_ok) == 1,
               "accepted branch must set nodes[q].pred = p (the removed node)",
               construct="accepted branch of " + u.event.text())
        rep.ev(pre + "IFT-label", u.event, len(lab_ok) == 1,
               "accepted branch must copy nodes[p].predicted_label into nodes[q].predicted_label",
               construct="accepted branch of " + u.event.text())
        # no other store to forest fields in the loop
        for e in comp.events:
            if e.kind != "store" or e.target[0] != "attr" or not node_of(e.target[1]):
                continue
            if e in pred_ok or e in lab_ok or e in okc:
                continue
            if extra_store is not None and extra_store(e, u):
                rep.ev(pre + "IFT-extra", e, True, "listed extra statement")
                continue
            if e.target[2] in ("pred", "predicted_label", "cost", "status", "label", "root"):
                rep.ev(pre + "IFT-stray", e, False,
                       f"store to nodes[..].{e.target[2]} that is not part of the schema "
                       "(wrong node, wrong source or outside the accepted branch)")


def check_prototypes_survive(rep: Rep, pre: str, comp: Competition) -> None:
    """A queued prototype (cost 0, own label) can only be re-pointed by a non-strict improvement:
    acceptance must be strict, or non-strict under a strict outer cost guard."""
    for u in comp.updates:
        hp = comp.hcost(comp.p)
        weight = split_candidate(u.value, hp, "max")
        acc = acceptance(comp, u)
        if acc is None:
            rep.ev(pre + "KEEP-accept", u.event, False, "H.update(q, v) is not dominated by a test of v against H.cost[q]")
            continue
        t, rel, pos = acc
        names = [classify_guard(comp, u, g, pol, weight) for k, (g, pol) in enumerate(u.inner_guards) if k != pos]
        ok = rel == "v<h" or (rel == "v<=h" and "outer-cost-strict" in names)
        rep.guard(pre + "KEEP-accept", comp.walker, t, u.event, ok,
                  "" if ok else "a prototype at distance 0 from another prototype (or any removed node) can be "
                  "re-conquered: acceptance is not strict and no strict outer cost guard protects it")
        # and nothing else in the loop rewrites label / predecessor of a prototype
        for e in comp.events:
            if e.kind == "store" and e.target[0] == "attr" and e.target[2] in ("pred", "predicted_label", "status") \
                    and node_of(e.target[1]) and facts(e.guards) != facts(u.event.guards):
                rep.ev(pre + "KEEP-stray", e, False,
                       "store to a forest field outside the accepted branch may overwrite a prototype's state")


def check_seeding(rep: Rep, pre: str, comp: Competition, repo: Repo) -> None:
    """Prototypes enter with cost 0, no predecessor and their own label; nothing else is queued."""
    w = comp.walker
    fn = comp.fn
    before = [e for e in w.events if e.seq < comp.loop.first_seq]
    inserts = [e for e in before if e.kind == "call" and e.name == "insert" and e.target == ("attr", comp.heap, "insert")]
    rep.fn(pre + "SEED-insert", fn, "prototypes are queued before the competition", len(inserts) >= 1,
           "no H.insert before the loop", line=comp.loop.line)
    for ins in inserts:
        i = ins.args[0] if ins.args else None
        g = comp.graph
        kinds = Kinds(w)
        ki = kinds.kind(i) if i is not None else None
        full = ki == ("NodeIdx", g) and i[0] in ("iter", "iterproj")
        rep.ev(pre + "SEED-range", ins, full, "seeding must visit every node of the graph")
        if i is None:
            continue
        want = ("cmp", "==", *sorted([K("PROTOTYPE"), comp.field(i, "status")], key=repr))
        has = has_guard(ins.guards, want)
        rep.ev(pre + "SEED-guard", ins, has, "only nodes whose status is PROTOTYPE may be queued")
        branch = [e for e in before if e.kind == "store" and e.guards == ins.guards and e.loops == ins.loops]
        c0 = [e for e in branch if e.target == comp.hcost(i) and e.value[0] == "const"
              and e.value[1] == 0 and not isinstance(e.value[1], bool)]
        rep.ev(pre + "SEED-cost0", ins, len(c0) == 1, "a prototype must start with H.cost = 0")
        pn = [e for e in branch if e.target == comp.field(i, "pred") and e.value == K("NIL")]
        rep.ev(pre + "SEED-pred", ins, len(pn) == 1, "a prototype must start without predecessor (pred = NIL)")
        pl = [e for e in branch if e.target == comp.field(i, "predicted_label") and e.value == comp.field(i, "label")]
        rep.ev(pre + "SEED-label", ins, len(pl) == 1, "a prototype must start with its own label")
        # the other branch
        others = [e for e in before if e.kind == "store" and e.loops == ins.loops and e.target == comp.hcost(i)
                  and e not in c0]
        for e in others:
            neg = has_guard(e.guards, mk_not(want))
            ok = neg and e.value == K("FLOAT_MAX")
            rep.ev(pre + "SEED-inf", e, ok, "non-prototypes must start with H.cost = FLOAT_MAX")
        if not others:
            rep.ev(pre + "SEED-inf", ins, heap_default_cost_is_max(repo),
                   "non-prototypes rely on Heap's default cost, which must be FLOAT_MAX",
                   construct="Heap.__init__ default cost")


def node_default_pred_is_nil(repo: Repo) -> bool:
    import ast

    fi = repo.need_method("Node", "__init__")
    for n in ast.walk(fi.node):
        if isinstance(n, ast.Assign) and len(n.targets) == 1:
            t = n.targets[0]
            if isinstance(t, ast.Attribute) and t.attr == "pred":
                v = n.value
                return isinstance(v, ast.Attribute) and v.attr == "NIL"
    return False


def heap_default_cost_is_max(repo: Repo) -> bool:
    import ast

    fi = repo.need_method("Heap", "__init__")
    for n in ast.walk(fi.node):
        if isinstance(n, ast.Assign) and len(n.targets) == 1:
            t = n.targets[0]
            if isinstance(t, ast.Attribute) and t.attr == "cost":
                v = n.value
                if isinstance(v, ast.ListComp) and isinstance(v.elt, ast.Attribute) and v.elt.attr == "FLOAT_MAX":
                    return True
    return False


# ---------------------------------------------------------------------------
# Prim (prototype search)
# ---------------------------------------------------------------------------


def check_prim(rep: Rep, pre: str, comp: Competition) -> None:
    w = comp.walker
    fn = comp.fn
    p = comp.p
    from .rules_premise import check_entry_unconditional
    check_entry_unconditional(rep, w, comp.loop.guards, pre + "PRIM-entry", "the spanning-tree loop", comp.loop.line)
    rep.fn(pre + "PRIM-policy", fn, f"Heap policy of the spanning-tree loop = {comp.policy!r}",
           comp.policy == "min", "Prim needs a min-priority queue", line=comp.loop.line)
    if comp.graph is None:
        rep.fn(pre + "PRIM-graph", fn, "heap sized from the graph", False, "heap capacity is not a node count")
        return
    before = [e for e in w.events if e.seq < comp.loop.first_seq]
    inserts = [e for e in before if e.kind == "call" and e.name == "insert" and e.target == ("attr", comp.heap, "insert")]
    ok_start = len(inserts) == 1 and not inserts[0].loops
    rep.fn(pre + "PRIM-start", fn, "one start node queued before the loop", ok_start,
           f"found {len(inserts)} insert(s)", line=comp.loop.line)
    if ok_start:
        s = inserts[0].args[0]
        st = [e for e in before if e.kind == "store" and e.target == comp.field(s, "pred")]
        bad = [e for e in st if e.value != K("NIL") or e.aug]
        rep.ev(pre + "PRIM-start-pred", inserts[0], not bad and (bool(st) or node_default_pred_is_nil(w.repo)),
               "the start node must have no predecessor (explicit NIL store or Node's default)")
    rep.fn(pre + "PRIM-update-sites", fn, "exactly one relaxation site (H.update) in the loop",
           len(comp.updates) == 1, f"found {len(comp.updates)}", line=comp.loop.line)
    for u in comp.updates:
        q = u.q
        dom = neighbour_domain(comp, u)
        rep.ev(pre + "PRIM-domain", u.event, dom[0] == "all" and dom[1] == comp.graph,
               f"neighbour loop must range over every node of the complete graph; found {dom[0]}",
               construct=f"for q in {show(u.neighbour_loop.domain) if u.neighbour_loop else '?'}")
        okv = weight_of(u.value) and weight_mentions(u.value, comp.node(p), comp.node(q))
        rep.ev(pre + "PRIM-key", u.event, okv,
               "" if okv else f"Prim's key is the bare arc weight w(p, q); found '{show(u.value)}'")
        acc = acceptance(comp, u)
        if acc is None:
            rep.ev(pre + "PRIM-accept", u.event, False, "H.update(q, w) is not dominated by a test of w against H.cost[q]")
            continue
        t, rel, pos = acc
        check_relaxation_guards(rep, pre + "PRIM-guard", comp, u, pos, u.value,
                                ("p!=q", "not-removed", "weight-prefilter"))
        ok = rel in ("v<h", "v<=h")
        rep.guard(pre + "PRIM-accept", w, t, u.event, ok,
                  "" if ok else f"acceptance test has the wrong direction: '{show(t)}'")
        branch = stores_in_branch(comp, u)
        pred_ok = [e for e in branch if e.target == comp.field(q, "pred") and e.value == p and not e.aug]
        rep.ev(pre + "PRIM-pred", u.event, len(pred_ok) == 1,
               "accepted branch must set nodes[q].pred = p", construct="accepted branch of " + u.event.text())
        for e in comp.events:
            if e.kind == "store" and e.target[0] == "attr" and node_of(e.target[1]) and e.target[2] == "pred":
                if e not in pred_ok:
                    rep.ev(pre + "PRIM-stray", e, False, "store to a predecessor outside the accepted branch")
    # prototype marking at removal
    predp = comp.field(p, "pred")
    from .ir import not_nil_forms
    g_preds = not_nil_forms(predp)
    # `p != start`: in Prim's loop over a fresh graph the start node is the only one that is removed without ever having
    # been offered an arc, i.e. the only one whose predecessor is still NIL (PRIM-start, PRIM-start-pred, PRIM-pred)
    before = [e for e in w.events if e.seq < comp.loop.first_seq]
    starts = [e for e in before if e.kind == "call" and e.name == "insert" and e.target == ("attr", comp.heap, "insert")]
    if len(starts) == 1 and starts[0].args:
        from .ir import mk_cmp
        g_preds = g_preds + [mk_cmp("!=", p, starts[0].args[0])]
    g_lab = ("cmp", "!=", *sorted([comp.field(p, "label"), comp.field(predp, "label")], key=repr))
    marks = [e for e in comp.events if e.kind == "store" and e.target[0] == "attr" and e.target[2] == "status"]

    def guarded(e: Event) -> bool:
        gs = [(g, pol) for g, pol in e.guards]
        return any(has_guard(e.guards, g) for g in g_preds) and has_guard(e.guards, g_lab)

    def only_benign(e: Event, node: Term) -> bool:
        base = facts(comp.body_guards())
        extra = [f for f in facts(e.guards) if f not in base and f not in g_preds and f != g_lab]
        benign = ("cmp", "!=", *sorted([K("PROTOTYPE"), ("attr", node, "status")], key=repr))
        return all(f == benign for f in extra)

    mp = [e for e in marks if e.target == comp.field(p, "status") and e.value == K("PROTOTYPE")
          and guarded(e) and only_benign(e, comp.node(p)) and e in comp.top]
    mq = [e for e in marks if e.target == comp.field(predp, "status") and e.value == K("PROTOTYPE")
          and guarded(e) and only_benign(e, comp.node(predp)) and e in comp.top]
    rep.fn(pre + "PRIM-mark-child", fn,
           "removed node p is flagged PROTOTYPE when label(p) != label(pred(p))", len(mp) == 1,
           f"found {len(mp)} such store(s)", line=comp.loop.line)
    rep.fn(pre + "PRIM-mark-parent", fn,
           "pred(p) is flagged PROTOTYPE when label(p) != label(pred(p))", len(mq) == 1,
           f"found {len(mq)} such store(s)", line=comp.loop.line)
    for e in marks:
        if e not in mp and e not in mq:
            rep.ev(pre + "PRIM-mark-stray", e, False,
                   "status store that is not the both-endpoints rule (wrong node, wrong guard or wrong value)")


# ---------------------------------------------------------------------------
# f_min clustering over a max-heap (KNN-supervised / unsupervised)
# ---------------------------------------------------------------------------


def strip_override(v: Term) -> Tuple[Term, List[Term]]:
    """v = sel(c1, -FLOAT_MAX, sel(c2, -FLOAT_MAX, base)) -> (base, [c1, c2]) (either arm order)."""
    from .ir import is_neg_float_max
    conds = []
    while v[0] == "sel":
        c, a, b = v[1], v[2], v[3]
        if is_neg_float_max(a):
            conds.append(c)
            v = b
        elif is_neg_float_max(b):
            conds.append(mk_not(c))
            v = a
        else:
            break
    return v, conds


def check_fmin_clustering(rep: Rep, pre: str, comp: Competition, label_field: str,
                          force_required: bool = False, entry_check: bool = True) -> dict:
    """label_field: 'predicted_label' (KNN-supervised) or 'cluster_label' (unsupervised)."""
    w = comp.walker
    fn = comp.fn
    p = comp.p
    info = {"override_conditions": []}
    from .rules_premise import check_entry_unconditional
    if entry_check:
        check_entry_unconditional(rep, w, comp.loop.guards, pre + "CLU-entry", "the clustering loop", comp.loop.line)
    rep.fn(pre + "CLU-policy", fn, f"Heap policy of the clustering loop = {comp.policy!r}",
           comp.policy == "max", "f_min optimum paths need a max-priority queue", line=comp.loop.line)
    if comp.graph is None:
        rep.fn(pre + "CLU-graph", fn, "heap sized from the graph", False, "heap capacity is not a node count")
        return info
    g = comp.graph
    before = [e for e in w.events if e.seq < comp.loop.first_seq]
    inserts = [e for e in before if e.kind == "call" and e.name == "insert" and e.target == ("attr", comp.heap, "insert")]
    kinds = Kinds(w)
    ok_ins = len(inserts) == 1 and inserts[0].args and kinds.kind(inserts[0].args[0]) == ("NodeIdx", g) \
        and inserts[0].args[0][0] in ("iter", "iterproj")
    rep.fn(pre + "CLU-seed-all", fn, "every node is queued before the competition", bool(ok_ins),
           f"found {len(inserts)} insert site(s); one unconditional insert per node expected", line=comp.loop.line)
    if ok_ins:
        ins = inserts[0]
        i = ins.args[0]
        seed_loop = ins.loops[-1] if ins.loops else None
        uncond = all(gd in comp.loop.guards for gd in ins.guards)
        rep.ev(pre + "CLU-seed-uncond", ins, uncond, "the seeding insert must not be conditional")
        same = [e for e in before if e.kind == "store" and e.loops == ins.loops and e.guards == ins.guards]
        def unfloat(t):  # float(v) is v (same number, exactly)
            return t[2][0] if t[0] == "call" and t[1] == ("builtin", "float") and len(t[2]) == 1 and not t[3] else t
        c0 = [e for e in same if e.target == comp.hcost(i) and unfloat(e.value) == comp.field(i, "cost") and not e.aug]
        rep.ev(pre + "CLU-seed-cost", ins, len(c0) == 1, "a node enters with H.cost = its initial cost (density - 1)")
        pn = [e for e in same if e.target == comp.field(i, "pred") and e.value == K("NIL")]
        rep.ev(pre + "CLU-seed-pred", ins, len(pn) == 1, "every node starts without predecessor")
        rt = [e for e in same if e.target == comp.field(i, "root") and e.value == i]
        rep.ev(pre + "CLU-seed-root", ins, len(rt) == 1, "every node starts as its own root")
    # root discovery at removal
    base_guards = facts(comp.body_guards())
    g_root = ("cmp", "==", *sorted([K("NIL"), comp.field(p, "pred")], key=repr))
    root_guards = base_guards + (g_root,)
    lifts = [e for e in comp.events if e.kind == "store" and e.target == comp.hcost(p)]
    lift_ok = [e for e in lifts if facts(e.guards) == root_guards and e.value == comp.field(p, "density") and not e.aug
               and e in comp.top]
    rep.fn(pre + "CLU-root-lift", fn, "a node removed without predecessor is lifted to its density",
           len(lift_ok) == 1 and len(lifts) == 1,
           f"{len(lifts)} store(s) to H.cost[p], {len(lift_ok)} of the form 'if pred(p) == NIL: H.cost[p] = density(p)'",
           line=comp.loop.line)
    cost_st = [e for e in comp.events if e.kind == "store" and e.target[0] == "attr" and e.target[2] == "cost"
               and node_of(e.target[1])]
    cost_ok = [e for e in cost_st if e.target == comp.field(p, "cost") and e.value == comp.hcost(p)
               and facts(e.guards) == base_guards and e in comp.top and not e.aug]
    rep.fn(pre + "CLU-cost", fn, "recorded cost: nodes[p].cost = H.cost[p] at removal",
           len(cost_ok) == 1 and len(cost_st) == 1,
           f"{len(cost_st)} store(s) to a node cost in the loop, {len(cost_ok)} of the required form",
           line=comp.loop.line)
    if lift_ok and cost_ok:
        rep.ev(pre + "CLU-lift-before-cost", cost_ok[0], lift_ok[0].seq < cost_ok[0].seq,
               "the root lift must precede the cost record, otherwise a root keeps density - 1")
    # root label / cluster id
    if label_field == "predicted_label":
        own = [e for e in comp.events if e.kind == "store" and e.target == comp.field(p, "predicted_label")
               and facts(e.guards) == root_guards]
        ok = len(own) == 1 and own[0].value == comp.field(p, "label")
        rep.fn(pre + "CLU-root-label", fn, "a root takes its own true label", ok,
               "expected 'if pred(p) == NIL: predicted_label(p) = label(p)'", line=comp.loop.line)
    else:
        own = [e for e in comp.events if e.kind == "store" and e.target == comp.field(p, "cluster_label")
               and facts(e.guards) == root_guards]
        ok = False
        detail = "expected 'if pred(p) == NIL: cluster_label(p) = counter; counter += 1'"
        if len(own) == 1 and own[0].value[0] == "phi" and own[0].value[1] == comp.loop.lid:
            cname = own[0].value[2]
            init, end = comp.loop.carried.get(cname, (None, None))
            incs = [e for e in comp.events if e.kind == "bind" and e.name == cname]
            inc_ok = (len(incs) == 1 and facts(incs[0].guards) == root_guards and incs[0].aug == "+"
                      and incs[0].target == ("const", 1) and incs[0].seq > own[0].seq)
            while end is not None and end[0] == "old":
                end = end[1]  # (the value as computed then; the test it was selected by read a field written later)
            if not inc_ok and end is not None and end[0] == "sel":
                # value form (the increment may sit in a helper that returns the new counter): the identifier stored is
                # the counter as it entered the iteration, and the counter leaves it as  counter + 1 if root else counter
                phi = ("phi", comp.loop.lid, cname)
                plus = w.binop("+", phi, ("const", 1))
                c, a, b = end[1:]
                own_root = set(root_guards) - set(base_guards)  # the carried value is relative to the loop body
                if (a, b) == (plus, phi):
                    inc_ok = set(facts(((c, True),))) == own_root
                elif (a, b) == (phi, plus):
                    inc_ok = set(facts(((c, False),))) == own_root
            ok = init == ("const", 0) and inc_ok
            if init != ("const", 0):
                detail = f"cluster counter starts at {show(init) if init else '?'}, identifiers must be 0..n-1"
            elif not inc_ok:
                detail = "the counter must be incremented by 1 exactly once per root, after the identifier is assigned"
            after = [e for e in w.events if e.seq > comp.loop.last_seq and e.kind == "store"
                     and e.target == ("attr", g, "n_clusters")]
            okn = len(after) >= 1 and after[0].value == ("phi", comp.loop.lid, cname) and after[0].guards == comp.loop.guards
            rep.fn(pre + "CLU-count", fn, "n_clusters = number of roots discovered", okn,
                   "n_clusters must be the root counter after the loop", line=comp.loop.line)
        rep.fn(pre + "CLU-root-id", fn, "a root takes the next cluster identifier", ok, detail, line=comp.loop.line)
    # relaxation
    rep.fn(pre + "CLU-update-sites", fn, "exactly one relaxation site (H.update) in the loop",
           len(comp.updates) == 1, f"found {len(comp.updates)}", line=comp.loop.line)
    for u in comp.updates:
        q = u.q
        dom = neighbour_domain(comp, u)
        okd = False
        if dom[0] == "adjacency":
            okd = dom[1] == comp.node(p)
        elif dom[0] == "adjprefix":
            bound = dom[2]
            okd = dom[1] == comp.node(p) and contains(bound, comp.field(p, "n_plateaus")) \
                and bound[0] == "bin" and bound[1] == "+"
        rep.ev(pre + "CLU-domain", u.event, okd,
               f"neighbours must be the adjacency of the removed node (whole list or its first n_plateaus + k "
               f"entries); found {dom[0]}",
               construct=f"for q in {show(u.neighbour_loop.domain) if u.neighbour_loop else '?'}")
        kq = kinds.kind(q)
        rep.ev(pre + "CLU-q-kind", u.event, kq == ("NodeIdx", g), f"q has kind {kq}",
               construct=f"q = {show(q)[:90]}")
        base, conds = strip_override(u.value)
        info["override_conditions"] = conds
        hp = comp.hcost(p)
        other = split_candidate(base, hp, "min")
        okv = other == comp.field(q, "density")
        rep.ev(pre + "CLU-extension", u.event, okv,
               "" if okv else f"candidate cost must be min(H.cost[p], density(q)); found '{show(base)[:160]}'")
        acc = acceptance(comp, u)
        if acc is None:
            rep.ev(pre + "CLU-accept", u.event, False, "H.update(q, v) is not dominated by a test of v against H.cost[q]")
            continue
        t, rel, pos = acc
        ok = rel == "h<v"
        rep.guard(pre + "CLU-accept", w, t, u.event, ok,
                  "" if ok else ("acceptance must be strictly 'v > H.cost[q]' on a max-heap "
                                 f"(found relation {rel}): a conquered node must end strictly above density - 1"))
        names = []
        for gp, (gd, pol) in enumerate(u.inner_guards):
            if gp == pos:
                continue
            nm = classify_guard(comp, u, gd, pol, None)
            same_label = ("cmp", "==", *sorted([comp.field(p, "label"), comp.field(q, "label")], key=repr))
            if label_field == "predicted_label" and (gd if pol else mk_not(gd)) == same_label:
                # label forcing written as a skip: a neighbour with another true label is not relaxed at all - what the
                # override of its candidate by -FLOAT_MAX amounts to (nothing is strictly below it)
                nm = "p!=q"
                info.setdefault("skip_conditions", []).append(mk_not(same_label))
            names.append(nm)
            okg = nm in ("not-removed", "p!=q")
            rep.guard(pre + "CLU-guard", w, gd, u.event, okg,
                      "" if okg else f"relaxation restricted by a test outside the accepted family: '{show(gd if pol else mk_not(gd))[:140]}'")
        rep.ev(pre + "CLU-colour", u.event, "not-removed" in names,
               "relaxation must skip removed (BLACK) nodes: the root lift raises a key after removal, so a removed "
               "neighbour could be re-pointed", construct="colour guard of " + u.event.text())
        branch = stores_in_branch(comp, u)
        want = {
            "pred": p,
            "root": comp.field(p, "root"),
            label_field: comp.field(p, label_field),
        }
        good = []
        for f, val in want.items():
            def same_value(e, val=val):
                v = e.value
                if v == val:
                    return True
                # a copy of a field of the removed node p taken once per removal: it is still current when nothing stores
                # into that field of p between the copy and its use (stores to q do not alias: p is BLACK, q is not)
                if not (v[0] == "old" and v[1] == val and w.old_cause.get(v[2], {"?"}) <= _visible_causes(w)):
                    return False
                copies = [b.seq for b in comp.events if b.kind == "bind" and b.seq < e.seq and b.value is not None
                          and (b.value == val or (b.value[0] == "tuple" and val in b.value[1]))]  # (also as a field of a record)
                if not copies:
                    return False
                return not any(s2.kind == "store" and s2.target == val and max(copies) < s2.seq < e.seq for s2 in comp.events)

            hit = [e for e in branch if e.target == comp.field(q, f) and same_value(e) and not e.aug]
            good += hit
            rep.ev(pre + "CLU-" + f, u.event, len(hit) == 1,
                   f"accepted branch must copy {f} from the conqueror p to q",
                   construct=f"accepted branch of {u.event.text()} [{f}]")
        for e in comp.events:
            if e.kind != "store" or e.target[0] != "attr" or not node_of(e.target[1]):
                continue
            if e in good or e in cost_ok or e in own:
                continue
            if e.target[2] in ("pred", "root", "cost", label_field, "density"):
                rep.ev(pre + "CLU-stray", e, False,
                       f"store to nodes[..].{e.target[2]} that is not part of the schema")
    return info


def check_propagate_labels(rep: Rep, w: Walker) -> None:
    """propagate_labels gives every node the true label of its root."""
    g = ("attr", ("self",), "subgraph")
    stores = [e for e in w.events if e.kind == "store" and e.target[0] == "attr" and e.target[2] == "predicted_label"]
    # (a value chosen by a helper - `label(i) if root == i else label(root)` - is the two guarded assignments)
    import dataclasses as _dc
    split = []
    for e in stores:
        v = e.value
        if v is not None and v[0] == "sel":
            split.append(_dc.replace(e, value=v[2], guards=e.guards + ((v[1], True),)))
            split.append(_dc.replace(e, value=v[3], guards=e.guards + ((v[1], False),)))
        else:
            split.append(e)
    stores = split
    rep.fn("PROP-sites", w.entry, "propagate_labels assigns predicted_label", len(stores) >= 1, "no assignment found")
    kinds = Kinds(w)
    from .schema import node_loop
    for e in stores:
        ok = False
        detail = "predicted_label(i) must be label(root(i))"
        nl = node_loop(w.loops[e.loops[-1]]) if e.loops else None
        if nl is None:
            rep.ev("PROP-root-label", e, False, "the assignment is not inside a loop over all nodes")
            continue
        G, ix, N = nl
        if e.target == ("attr", N, "predicted_label") and e.value[0] == "attr" and e.value[2] == "label":
            src = e.value[1]
            rootN = ("attr", N, "root")
            if src in (("idx", ("attr", G, "nodes"), rootN), ("idx", ("attr", G, "nodes"), ("old", rootN))):
                ok = True
            elif src[0] == "idx" and src[1] == ("attr", G, "nodes") and src[2][0] == "old" and src[2][1] == rootN:
                ok = True
            elif src == N and ix is not None:
                ok = has_guard(e.guards, ("cmp", "==", *sorted([ix, rootN], key=repr)))
                detail = "label(i) is used without the guard root(i) == i"
        rep.ev("PROP-root-label", e, ok, detail)
    # every node is assigned on every path: exactly one of the assignments is executed whatever the tests say
    if stores and all(e.loops for e in stores):
        import itertools
        from .rules_premise import _atoms, _truth
        base = set(w.loops[stores[0].loops[-1]].guards)
        atoms = set()
        for e in stores:
            for g, _ in e.guards:
                if (g, _) not in base:
                    _atoms(g, atoms)
        atoms = sorted(atoms, key=repr)
        total = len(atoms) <= 6
        for bits in itertools.product((False, True), repeat=len(atoms)) if total else ():
            env = dict(zip(atoms, bits))
            live = [e for e in stores if all(_truth(g, env) == pol for g, pol in e.guards if (g, pol) not in base)]
            if len(live) != 1:
                total = False
                break
        rep.fn("PROP-total", w.entry, "every node receives a propagated label (the cases root == i / root != i are both covered)",
               total, "on some path through the loop body no (or more than one) predicted_label is assigned: those nodes "
               "keep whatever label they had")
