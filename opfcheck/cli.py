"""Command line: ./run <Cxx> [--tier quick|thorough] [--replay FILE]"""

from __future__ import annotations

import argparse
import importlib
import json
import os
import sys

from .core import run_check


def main(argv=None) -> int:
    ap = argparse.ArgumentParser(prog="run")
    ap.add_argument("property")
    ap.add_argument("--tier", default=os.environ.get("VERIF_TIER", "quick"), choices=["quick", "thorough"])
    ap.add_argument("--replay", default=None)
    args = ap.parse_args(argv)
    pid = args.property.upper()
    try:
        seed = int(os.environ.get("VERIF_SEED", "0") or 0)
    except ValueError:
        seed = 0
    try:
        mod = importlib.import_module(f"opfcheck.props.{pid.lower()}")
    except ModuleNotFoundError:
        print(f"ANALYSIS-ERROR property={pid}: no such check")
        return 2
    level = getattr(mod, "LEVEL", "other")
    if args.replay:
        with open(args.replay, encoding="utf-8") as fh:
            rec = json.load(fh)
        print(f"replaying {len(rec.get('violations', []))} recorded violation(s) of {rec.get('property')}:")
        for v in rec.get("violations", []):
            print(f"  [{v['rule']}] {v['function']}: {v['construct']} -- {v['detail']}")
        print("re-evaluating the rules on the current tree ...")

    def body(chk, repo):
        mod.check(chk, repo)
        if args.tier == "thorough" and hasattr(mod, "thorough"):
            mod.thorough(chk, repo)

    return run_check(pid, body, args.tier, seed, level)


if __name__ == "__main__":
    sys.exit(main())
