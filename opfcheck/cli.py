"""Command line: ./run <Cxx> [--tier quick|thorough] [--replay FILE]"""

from __future__ import annotations

import argparse
import importlib
import json
import os
import sys

from .core import run_check


def self_validate(chk, repo, pid):
    """Thorough tier: the property's slice of the self-validation corpus (single-edit variants of the
    CURRENT tree, evaluated in memory).  A miss or a false alarm means the CHECKER is wrong: exit 2."""
    from .core import AnalysisError
    from .mutants import run_corpus

    if [o for o in chk.obligations if not o.ok]:
        chk.note("self_validation", "skipped: the tree itself has violations")
        return
    res = run_corpus(pid, repo.root)
    chk.extra["self_validation"] = {
        "breaking_variants_reported": len(res["caught"]),
        "benign_twins_silent": len(res["silent_ok"]),
        "missed": res["missed"], "false_alarms": [n for n, _ in res["false_alarm"]],
        "stale_entries": res["stale"], "errors": res["error"],
        "reported_by": {n: r for n, r in res["caught"]},
    }
    for name, rules in res["caught"]:
        chk.ob("SELFTEST-breaking", "corpus", name, True, "reported by " + ",".join(rules))
    for name in res["silent_ok"]:
        chk.ob("SELFTEST-benign", "corpus", name, True, "silent")
    bad = res["missed"] or res["false_alarm"] or res["error"]
    if bad:
        raise AnalysisError(
            f"self-validation corpus: missed={res['missed']} false_alarms={[n for n, _ in res['false_alarm']]} "
            f"errors={res['error']} (the checker, not the tree, needs attention)")


def main(argv=None) -> int:
    ap = argparse.ArgumentParser(prog="run")
    ap.add_argument("property")
    ap.add_argument("--tier", default=os.environ.get("VERIF_TIER", "quick"), choices=["quick", "thorough"])
    ap.add_argument("--replay", default=None)
    args = ap.parse_args(argv)
    pid = args.property.upper()
    try:
        seed = int(os.environ.get("VERIF_SEED", "0") or 0)
    except ValueError:
        seed = 0
    try:
        mod = importlib.import_module(f"opfcheck.props.{pid.lower()}")
    except ModuleNotFoundError:
        print(f"ANALYSIS-ERROR property={pid}: no such check")
        return 2
    level = getattr(mod, "LEVEL", "other")
    if args.replay:
        with open(args.replay, encoding="utf-8") as fh:
            rec = json.load(fh)
        print(f"replaying {len(rec.get('violations', []))} recorded violation(s) of {rec.get('property')}:")
        for v in rec.get("violations", []):
            print(f"  [{v['rule']}] {v['function']}: {v['construct']} -- {v['detail']}")
        print("re-evaluating the rules on the current tree ...")

    def body(chk, repo):
        mod.check(chk, repo)
        if args.tier == "thorough":
            if hasattr(mod, "thorough"):
                mod.thorough(chk, repo)
            self_validate(chk, repo, pid)

    return run_check(pid, body, args.tier, seed, level)


if __name__ == "__main__":
    sys.exit(main())
